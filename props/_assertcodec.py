"""C20 -- AssertCodec.tla (generator grammar + reference encoder + edit table, evaluated by TLC) bound to
the real Encode / Decode / stream Decoder (exploration level)."""
import json
import os
import re

from lib import common, tlc, goharness, findings
from lib.common import InfraError, Violation

OVERLAY = ["/verif/harness/overlay/asserts/zz_verif_assertcodec_test.go"]
ALPHABET = [0x61, 0x3a, 0x20, 0x0a, 0x2d, 0x09, 0x0d, 0x00, 0xff, 0x30]   # a : space \n - \t \r NUL 0xff 0


def doc_key(d):
    return json.dumps(d["doc"], sort_keys=True, separators=(",", ":"))


def ast_show(v):
    if v["k"] == "s":
        return json.dumps("\n".join(v["ls"]))
    if v["k"] == "l":
        return "[" + ",".join(ast_show(x) for x in v["xs"]) + "]"
    return "{" + ",".join("%s:%s" % (p[0], ast_show(p[1])) for p in v["ps"]) + "}"


def doc_show(d):
    hs = " ".join("%s=%s" % (h[0], ast_show(h[1])) for h in d["doc"]["hs"])
    return "test-only{%s body=%s rev=%d}" % (hs, json.dumps("\n".join(d["doc"]["body"])) if d["doc"]["body"] else "none",
                                           d["doc"]["rev"])


def run(ctx):
    d = ctx.subdir("codec")
    tpath = os.path.join(d, "table.json")
    cfg = ctx.pick("AssertCodec_mc.cfg", "AssertCodec_mc_thorough.cfg")
    mc = tlc.run(ctx, "AssertCodecTable", cfg, workers=2, env={"VERIF_OUT": tpath}, timeout=ctx.pick(600, 1800))
    if not mc.ok:
        raise InfraError("AssertCodec: TLC failed (Unambiguous or evaluation): %s\n%s" % (mc.summary(), common.tail(mc.out, 30)))
    with open(tpath) as f:
        table = json.load(f)
    docs = table["docs"]
    ctx.log("TLC %s: %d values (%d without empty collections, unambiguous), %d documents, %d edit classes, %.0fs" % (
        cfg, table["counts"]["values"], table["counts"]["solid"], len(docs), len(table["edits"]), mc.wall))

    # which documents the edit scripts / limit grid run on: a seeded spread over the round-tripping ones,
    # always including documents with a body, with a multi-line value, a list and a map
    rt = [i for i, x in enumerate(docs) if x["roundtrip"]]
    def pick(pred, n):
        c = [i for i in rt if pred(docs[i])]
        return [c[(ctx.seed * 13 + j * max(1, len(c) // n)) % len(c)] for j in range(min(n, len(c)))] if c else []
    n_each = ctx.pick(2, 6)
    edit_docs = sorted(set(
        pick(lambda x: x["doc"]["body"] and "".join(x["doc"]["body"]), n_each) +
        pick(lambda x: not x["doc"]["body"], n_each) +
        pick(lambda x: "aaa:\n" in x["text"] and x["doc"]["hs"][0][1]["k"] == "l", n_each) +
        pick(lambda x: "aaa:\n" in x["text"] and x["doc"]["hs"][0][1]["k"] == "m", n_each) +
        pick(lambda x: "aaa:\n" in x["text"] and x["doc"]["hs"][0][1]["k"] == "s", n_each)))
    limit_docs = sorted(set(pick(lambda x: x["doc"]["body"] and "".join(x["doc"]["body"]), 2) + pick(lambda x: not x["doc"]["body"], 2)))
    plan = {"edit_docs": edit_docs, "limit_docs": limit_docs, "alphabet": ALPHABET, "max_str_len": ctx.pick(2, 4),
            "watchdog_ms": 20000}
    # the Encoder as a state machine (AssertEncoder.tla): TLC checks WellSeparated / SepAlwaysDue and exports the kind sequences
    epath = os.path.join(d, "encoder.json")
    ecfg = ctx.pick("AssertEncoder_mc.cfg", "AssertEncoder_mc_thorough.cfg")
    emc = tlc.run(ctx, "AssertEncoderTable", ecfg, workers=2, env={"VERIF_OUT": epath}, timeout=600, name="tlc_AssertEncoder")
    if not emc.ok:
        raise InfraError("spec-level counterexample in AssertEncoder: %s\n%s" % (emc.summary(), common.tail(emc.out, 30)))
    with open(epath) as f:
        enc_table = json.load(f)
    ppath, outp = os.path.join(d, "plan.json"), os.path.join(d, "out.ndjson")
    with open(ppath, "w") as f:
        json.dump(plan, f)
    tb = goharness.overlay_test_build(ctx, "asserts", OVERLAY)
    rc, o = goharness.run_test_bin(ctx, tb, "^TestVerifAssertCodec$", cwd=os.path.join(common.REPO, "asserts"),
                                   env={"VERIF_IN": tpath, "VERIF_PLAN": ppath, "VERIF_OUT": outp, "VERIF_ENC": epath}, timeout=ctx.pick(900, 3000))
    goharness.check_driver(rc, o, "assertcodec driver")
    if not re.search(r'VERIF-STATS docs=%d ' % len(docs), o):
        raise InfraError("assertcodec driver did not finish:\n%s" % common.tail(o, 20))
    recs = common.read_ndjson(outp)
    ev = evaluate(ctx, docs, recs)
    n_enc = sum(1 for r in recs if r["kind"] == "encstream")
    if n_enc != len(enc_table):
        raise InfraError("driver ran %d of %d encoder streams" % (n_enc, len(enc_table)))

    # I->T for the limits: TLC evaluates LimitExpect of the spec on the observed sizes
    limits = [r for r in recs if r["kind"] == "limit"]
    obs = os.path.join(d, "limits.ndjson")
    common.write_ndjson(obs, [{k: r[k] for k in ("h", "b", "s", "maxh", "maxb", "maxs", "out")} for r in limits])
    lt = tlc.run(ctx, "AssertCodecObs", "AssertCodecObs.cfg", workers=1, env={"VERIF_OBS": obs}, timeout=600, name="tlc_limits")
    if not lt.ok and lt.kind != "assumption":
        raise InfraError("AssertCodecObs failed: %s\n%s" % (lt.summary(), common.tail(lt.out, 20)))
    if (lt.kind == "assumption") != bool(ev["limit_violations"]):
        raise InfraError("TLC (LimitExpect) and the python evaluation of the limit observations disagree: tlc=%s python=%d"
                         % (lt.kind, ev["limit_violations"]))

    neg = negative_control(ctx, docs, recs)
    # guards are enforced unless there is a violation that is not a listed known finding (which exits 1 anyway)
    if not findings.classify(ctx.prop, ev["violations"])[1]:
        for k in ("doc_ok", "stream_ok", "edit_rejected", "edit_accepted_either", "limit_rejected_required", "limit_accepted", "window_ok", "encstream_ok",
                  "encstream_with_nonl_element_before_another"):
            if ev["stats"].get(k, 0) == 0:
                raise InfraError("vacuity guard: %s = 0" % k)
        if not neg:
            raise InfraError("binding self-check failed: a corrupted observation was not rejected")
    ctx.log("docs ok=%d, streams ok=%d, edit inputs=%d, limit cases=%d, violations=%d" % (
        ev["stats"].get("doc_ok", 0), ev["stats"].get("stream_ok", 0), ev["stats"].get("edit_inputs", 0), len(limits),
        len(ev["violations"])))

    samples = []
    for r in recs:
        if r["kind"] == "doc" and r["res"] == "ok" and len(samples) < 2 and docs[r["i"]]["doc"]["hs"] and \
                docs[r["i"]]["doc"]["hs"][0][1]["k"] != "s":
            samples.append({"document": doc_show(docs[r["i"]]), "reference_text": docs[r["i"]]["text"], "real": "identical text; "
                            "Decode and stream Decoder return identical headers/body/revision/signature"})
    for r in recs:
        if r["kind"] == "edit" and r["class"] in ("trunc-body", "bad-indent", "trunc-sig") and len(samples) < 5 and r["variants"]:
            samples.append({"edit": r["class"], "document": doc_show(docs[r["doc"]]), "expect": r["expect"],
                            "inputs": r["variants"], "real_outcomes": r["counts"]})
    cov = {
        "evaluations": ev["stats"].get("doc_total", 0) + ev["stats"].get("stream_total", 0) + 3 * ev["stats"].get("edit_inputs", 0) + len(limits),
        "distinct_nontrivial": ev["stats"].get("doc_ok", 0) + ev["stats"].get("edit_classes_exercised", 0),
        "rule": "real content text = reference encoder text (AssertCodec.tla Enc) for every generated document; "
                "Decode(Encode(a)) and stream Decoder (streams of 1-3, default and 16-byte buffer) return identical headers, "
                "body, revision, signature; every edit class with Expect=reject is rejected by Decode and both stream decoders; "
                "no panic/timeout; accepted inputs satisfy Encode(Decode(b))=b and re-decode to equal fields; "
                "every sequence of 1-4 elements x {Encode, WriteEncoded[, WriteContentSignature]} x {with, without final newline} written "
                "through ONE Encoder (AssertEncoder.tla: WellSeparated) equals the reference stream text and decodes back to the same "
                "sequence then EOF; header-block and signature lengths swept across the decoder's peek-window boundaries (4096/8192/16384 +-3 with the "
                "default buffer, every length 1..300 and 512/1024 +-3 with a 16-byte buffer) in two-assertion streams: stream decode = "
                "one-shot Decode; sizes above NewDecoderStressed limits are rejected (LimitExpect evaluated by TLC on the observations)",
        "tlc_config": cfg, "encoder_tlc_config": ecfg, "encoder_states": emc.distinct, "encoder_streams": len(enc_table), "generated_values": table["counts"]["values"], "generated_documents": len(docs),
        "documents_without_empty_collections": len(rt), "edit_classes": len(table["edits"]),
        "edit_documents": [doc_show(docs[i]) for i in edit_docs][:12],
        "stats": ev["stats"], "edit_outcomes": ev["edit_outcomes"],
        "negative_control_corrupted_observation_rejected": neg,
        "samples": samples,
    }
    return common.Result(
        level="exploration", coverage=cov, violations=ev["violations"],
        assumptions=[
            "documents are test-only assertions; header values from the bounded grammar of AssertCodec.tla (strings single/multi-line, "
            "lists, maps, nesting <= 2); bodies none/empty/one line/trailing newline/blank line inside",
            "'arbitrary byte strings' are covered only as (i) all strings over a 10-class byte alphabet up to length %d put before, "
            "after and inside valid encodings and (ii) the structural edit classes; crash-freedom outside these sets is not decided"
            % plan["max_str_len"],
            "watchdog 20 s per input (goroutine + timer); a timeout that does not reproduce is an infrastructure error",
            "limits: only 'above the limit => rejected' is demanded (readUntil's doubling makes the effective limit a "
            "power-of-two multiple of the buffer size), with limits >= the 16-byte buffer",
        ])


def evaluate(ctx, docs, recs):
    st = {}
    def inc(k, n=1):
        st[k] = st.get(k, 0) + n
    violations = []
    edit_outcomes = {}
    classes = set()
    limit_viol = 0
    empties = {}
    for r in recs:
        if r["kind"] == "doc":
            inc("doc_total")
            d = docs[r["i"]]
            if r["res"] == "ok":
                inc("doc_ok")
                continue
            if not d["roundtrip"]:
                # documents with an empty list/map somewhere: grouped by outcome (one finding per outcome class)
                inc("doc_bad_empty_collection")
                empties.setdefault(r["res"], []).append((d, r))
                continue
            inc("doc_bad")
            violations.append(Violation(
                key="document %s: %s" % (doc_show(d), r["res"]),
                desc="signed document %s: %s (%s)" % (doc_show(d), r["res"], (r.get("msg") or "")[:300]),
                replay={"document": d, "result": r}))
        elif r["kind"] == "stream":
            inc("stream_total")
            if r["res"] == "ok":
                inc("stream_ok")
                inc("stream_members", r["n"])
            else:
                violations.append(Violation(
                    key="stream of %s: %s" % ([doc_show(docs[i]) for i in r["docs"]], r["res"]),
                    desc="stream of %d documents: %s (%s)" % (r["n"], r["res"], (r.get("msg") or "")[:300]),
                    replay={"documents": [docs[i] for i in r["docs"]], "result": r}))
        elif r["kind"] == "edit":
            inc("edit_inputs", r["variants"])
            if r["variants"]:
                classes.add(r["class"])
            eo = edit_outcomes.setdefault(r["class"], {})
            for k, v in r["counts"].items():
                eo[k] = eo.get(k, 0) + v
                if k.endswith(":ok"):
                    inc("edit_accepted_either" if r["expect"] == "either" else "edit_accepted_BAD", v)
                elif k.endswith(":error") or k.endswith(":eof"):
                    inc("edit_rejected", v)
            for b in r["bad"]:
                violations.append(Violation(
                    key="edit %s (%s) on %s: %s %s" % (r["class"], b["variant"], doc_show(docs[r["doc"]]), b["decoder"], b["res"]),
                    desc="edit %s/%s expected %s but %s gave %s (%s)" % (r["class"], b["variant"], r["expect"], b["decoder"],
                                                                    b["res"], (b.get("msg") or "")[:200]),
                    replay={"document": docs[r["doc"]], "edit": r["class"], "bad": b}))
        elif r["kind"] == "encstream":
            inc("encstream_total")
            if any(not k.endswith("-nl") for k in r["kinds"][:-1]):
                inc("encstream_with_nonl_element_before_another")
            if r["res"] == "ok":
                inc("encstream_ok")
            elif r["res"] == "harness-error":
                raise InfraError("encoder stream harness error: %s" % r)
            else:
                violations.append(Violation(
                    key="one Encoder, elements [%s]: %s" % (",".join(r["kinds"]), r["res"]),
                    desc="stream written through ONE Encoder from elements [%s] (nl/nonl = with/without final newline) does not decode "
                         "back to the same sequence: %s (%s)" % (",".join(r["kinds"]), r["res"], (r.get("msg") or "")[:200]),
                    replay=r))
        elif r["kind"] == "window":
            inc("window_total")
            if r["res"] == "ok":
                inc("window_ok")
            elif r["res"] == "harness-piece-invalid":
                raise InfraError("window sweep built an input that one-shot Decode rejects: %s" % r)
            else:
                violations.append(Violation(
                    key="window %s len=%d buf=%s body=%s: %s" % (r["what"], r["len"], r["buf"] or "default", r["body"], r["res"]),
                    desc="stream of two assertions, %s length %d (decoder buffer %s): the stream decoder %s while one-shot Decode "
                         "accepts each piece (%s)" % ({"hdr": "header block", "sig": "signature"}[r["what"]], r["len"],
                                                     r["buf"] or "4096 (default)", r["res"], (r.get("msg") or "")[:200]),
                    replay=r))
        elif r["kind"] == "limit":
            must = r["h"] > r["maxh"] or r["b"] > r["maxb"] or r["s"] > r["maxs"]
            if r["out"] in ("panic", "timeout") or r["out"].startswith("law:"):
                violations.append(Violation(key="limit %s" % json.dumps({k: r[k] for k in ("h", "b", "s", "maxh", "maxb", "maxs")}, sort_keys=True),
                                            desc="decoder %s under limits" % r["out"], replay=r))
            elif must and r["out"] == "ok":
                limit_viol += 1
                violations.append(Violation(
                    key="limit not enforced: headers=%d body=%d sig=%d limits=%d/%d/%d" % (r["h"], r["b"], r["s"], r["maxh"], r["maxb"], r["maxs"]),
                    desc="stream decoder accepted an assertion above its limits", replay=r))
            elif must:
                inc("limit_rejected_required")
            elif r["out"] == "ok":
                inc("limit_accepted")
            else:
                inc("limit_rejected_below_limit")
    for res, hits in sorted(empties.items()):
        hits.sort(key=lambda h: len(doc_key(h[0])))
        d, r = hits[0]
        violations.append(Violation(
            key="empty-collection/%s" % res,
            desc="a header value containing an empty list/map is accepted by the signer but %s (%d generated documents, smallest: %s; %s)"
                 % ({"decode-error": "its encoding is rejected by Decode",
                     "decode-differs": "decodes back to different headers (the empty member is dropped)",
                     "text-differs": "is encoded differently from the reference grammar"}.get(res, res),
                    len(hits), doc_show(d), (r.get("msg") or "")[:240]),
            replay={"document": d, "result": r, "all_documents": [doc_show(h[0]) for h in hits][:200]}))
    st["edit_classes_exercised"] = len(classes)
    return {"violations": violations, "stats": st, "edit_outcomes": edit_outcomes, "limit_violations": limit_viol}


def negative_control(ctx, docs, recs):
    import copy
    r2 = copy.deepcopy(recs)
    for r in r2:
        if r["kind"] == "edit" and r["class"] == "trunc-body" and r["variants"]:
            r["bad"].append({"decoder": "decode", "variant": "cut@0", "res": "ok", "msg": "", "input": ""})
            break
    else:
        return False
    return len(evaluate(ctx, docs, r2)["violations"]) > len(evaluate(ctx, docs, recs)["violations"])
