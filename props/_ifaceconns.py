"""Shared logic for C22 (IfaceConns.tla): build/run the overlay driver, direct evaluation of the C22
statement on the real projections, classification of violations, TLC counterexample -> scenario."""
import concurrent.futures
import json
import os
import re

from lib import common, goharness, tlaparse, tlc
from lib.common import InfraError, Violation

PKG = "overlord/ifacestate"
OVERLAY = [
    os.path.join(common.HARNESS, "overlay", "ifacestate", "zz_verif_ifaceconns_test.go"),
    os.path.join(common.HARNESS, "overlay", "ifacestate", "zz_verif_ifaceconns_export_test.go"),
]


def build(ctx):
    return goharness.overlay_test_build(ctx, PKG, OVERLAY)


def run_driver(ctx, binary, out, env, timeout=1500):
    e = {"VERIF_OUT": out, "TMPDIR": ctx.subdir("gotmp")}
    e.update(env)
    rc, o = goharness.run_test_bin(ctx, binary, "^TestInterfaceManager$", env=e,
                                   cwd=os.path.join(common.REPO, PKG), timeout=timeout,
                                   args=["-check.f", "verifConnsSuite"])
    goharness.check_driver(rc, o, "ifaceconns driver")
    m = re.search(r"VERIF-STATS cases=(\d+) ops=(\d+)", o)
    if not m:
        raise InfraError("ifaceconns driver printed no stats:\n%s" % common.tail(o, 20))
    return int(m.group(1)), int(m.group(2))


def run_shards(ctx, binary, nshards, n_per_shard, depth, exhaust_depth, tag="enum"):
    """Run the enumeration in `nshards` processes; returns list of (trace_path, ops_path, cases, ops)."""
    d = ctx.subdir("traces_" + tag)

    def one(i):
        out = os.path.join(d, "t%d.ndjson" % i)
        cases, ops = run_driver(ctx, binary, out, {
            "VERIF_SHARD": "%d/%d" % (i, nshards), "VERIF_N": n_per_shard, "VERIF_DEPTH": depth,
            "VERIF_EXHAUST_DEPTH": exhaust_depth})
        return out, out + ".ops", cases, ops

    with concurrent.futures.ThreadPoolExecutor(max_workers=nshards) as ex:
        return list(ex.map(one, range(nshards)))


# ---------------------------------------------------------------------------------------------------
# direct evaluation of the statement on the real projections

def ends(c):
    return [x.split(":")[0] for x in c.split(" ")]


def active(conns):
    return sorted(c for c, v in conns.items() if v["present"] and not v["undesired"] and not v["gone"])


def fault_str(f):
    if not f["has"]:
        return "-"
    t = f["t"]
    who = t["c"] or t["s"]
    return "%s%s(%s)%s@%d" % (t["kind"], (":" + t["hook"]) if t["hook"] else "", who,
                              ("/" + t["mode"]) if t["mode"] else "", f["at"])


def op_str(op):
    return "%s(%s)!%s" % (op["name"], op["c"] or op["s"], fault_str(op["fault"]))


def scenario_str(sc):
    return "%s: %s" % (sc["world"], " ; ".join(op_str(o) for o in sc["ops"]))


def classify(op, clauses):
    f = op["fault"]
    k = f["t"]["kind"] if f["has"] else ""
    if f["has"] and f["at"] > 0 and k == "disconnect":
        return "D2:disconnect-setup-fault"
    if f["has"] and f["at"] > 0 and k == "connect":
        return "D3:connect-setup-fault"
    if f["has"] and f["at"] > 0 and k == "setup-profiles":
        return "D4:setup-profiles-setup-fault"
    if f["has"] and f["at"] == 0 and op["name"] == "install" and set(clauses) <= {"stale-profile"}:
        return "D1:install-autoconnect-undo-stale-peer-profile"
    if f["has"] and f["at"] == 0 and k == "tail" and op["name"] == "forget" and op.get("_inactive"):
        return "D5:forget-inactive-undo-reconnects"
    return "unexpected"


def check_op(o):
    """Evaluate the C22 statement on one settled real change. Returns (clauses, detail)."""
    b, a = o["before"], o["after"]
    clauses, detail = [], {}
    if o["status"] == "Error":
        # first sentence: a failed change leaves conns and repository exactly as before ...
        # (raw_equal: the persisted "conns" value is the same JSON value: every entry with every attribute)
        if not (b["conns"] == a["conns"] and b["repo"] == a["repo"] and b["installed"] == a["installed"]
                and o.get("raw_equal", True)):
            clauses.append("not-restored")
            detail["persisted_conns_json_equal"] = o.get("raw_equal")
            detail["before"] = {"conns_active": active(b["conns"]), "repo": b["repo"],
                                "present": sorted(c for c, v in b["conns"].items() if v["present"])}
            detail["after"] = {"conns_active": active(a["conns"]), "repo": a["repo"],
                               "present": sorted(c for c, v in a["conns"].items() if v["present"])}
        # ... with security profiles regenerated for the restored set
        bad = [s for s in a["installed"]
               if not (a["profiles"][s]["has"] and a["profiles"][s]["conns"] == [c for c in a["repo"] if s in ends(c)])]
        if bad:
            clauses.append("stale-profile")
            detail["profiles"] = {s: a["profiles"][s] for s in bad}
            detail["repo"] = a["repo"]
    # second sentence: after every settled change active persisted == in-memory
    if active(a["conns"]) != a["repo"]:
        clauses.append("active-mismatch")
        detail["active"] = active(a["conns"])
        detail["repo"] = a["repo"]
    # ... and after a restart reloads connections
    r = o.get("restart")
    if r is not None and active(r["conns"]) != r["repo"]:
        clauses.append("reload-mismatch")
        detail["restart"] = {"active": active(r["conns"]), "repo": r["repo"]}
    return clauses, detail


def infra_problems(o):
    p = list(o.get("problems") or [])
    if o["after"]["extra"]:
        p.append("connection ids outside the universe: %s" % o["after"]["extra"])
    if o["status"] not in ("Done", "Error", "Rejected"):
        p.append("change status %s" % o["status"])
    if o["status"] != "Rejected" and o.get("restart") is None:
        p.append("no restart projection")
    return p


def evaluate_ops(paths):
    """-> (violations, stats) over all .ops files."""
    violations, seen = [], set()
    stats = {"changes": 0, "failed_changes": 0, "fault_fired": 0, "rejected": 0, "distinct_after_states": set(),
             "by_class": {}, "ops_by_name": {}, "setup_fault_changes": 0, "restarts": 0}
    samples = []
    for p in paths:
        for o in common.read_ndjson(p):
            probs = infra_problems(o)
            if probs:
                raise InfraError("driver problem in case %s (%s): %s" % (o["case"], scenario_str(o["scenario"]), probs))
            stats["changes"] += 1
            if o["status"] == "Rejected":
                stats["rejected"] += 1
                continue
            stats["ops_by_name"][o["op"]["name"]] = stats["ops_by_name"].get(o["op"]["name"], 0) + 1
            stats["failed_changes"] += o["status"] == "Error"
            stats["fault_fired"] += bool(o["fired"])
            stats["setup_fault_changes"] += bool(o["op"]["fault"]["has"] and o["op"]["fault"]["at"] > 0)
            stats["restarts"] += o.get("restart") is not None
            a = o["after"]
            stats["distinct_after_states"].add(json.dumps([a["installed"], a["conns"], a["repo"], a["profiles"]], sort_keys=True))
            clauses, detail = check_op(o)
            sc = dict(o["scenario"])
            sc["ops"] = sc["ops"][:o["opi"]]
            if len(samples) < 5 and o["status"] == "Error" and not clauses and o["op"]["name"] in ("connect", "forget", "remove", "install", "disconnect") \
                    and o["op"]["name"] not in [s["op"] for s in samples]:
                samples.append({"op": o["op"]["name"], "scenario": scenario_str(sc), "status": o["status"],
                                "restored": True, "repo_after": a["repo"], "active_after": active(a["conns"])})
            if not clauses:
                continue
            opx = dict(o["op"])
            # Forget of a connection that was persisted but not in the repository (undesired) before the change
            opx["_inactive"] = opx["name"] == "forget" and opx["c"] not in o["before"]["repo"]
            cls = classify(opx, clauses)
            key = "%s [%s] %s" % (cls, ",".join(clauses), scenario_str(sc))
            stats["by_class"][cls] = stats["by_class"].get(cls, 0) + 1
            if key in seen:
                continue
            seen.add(key)
            violations.append(Violation(
                key=key,
                desc="C22 violated on the real InterfaceManager (%s): %s; change status %s" % (", ".join(clauses), scenario_str(sc), o["status"]),
                replay={"scenario": sc, "clauses": clauses, "detail": detail, "change_error": o.get("err", "")[:400],
                        "how": "VERIF_SCENARIOS=<file with [scenario]> VERIF_OUT=/var/tmp/x.ndjson <overlay test binary> "
                               "-test.run '^TestInterfaceManager$' -check.f verifConnsSuite"}))
    stats["distinct_after_states"] = len(stats["distinct_after_states"])
    # unexpected ones first: ./check prints only the first 20
    violations.sort(key=lambda v: (not v.key.startswith("unexpected"), v.key))
    return violations, stats, samples


# ---------------------------------------------------------------------------------------------------
# TLC counterexample -> scenario (T->I replay)

def cex_scenario(res, world):
    """The strict configs run MaxOps=1 from a single world: the counterexample is (world, op, fault) of the last state."""
    out = res.out
    i = out.rfind("/\\ op = ")
    j = out.rfind("/\\ fault = ")
    if i < 0 or j < 0:
        raise InfraError("cannot find op/fault in TLC counterexample:\n%s" % common.tail(out, 30))

    def grab(pos):
        txt = out[pos:]
        txt = txt[txt.index("=") + 1:]
        end = re.search(r"\n/\\ |\n\n|\nState ", txt)
        return tlaparse.parse_value(txt[:end.start()] if end else txt)
    op, fault = grab(i), grab(j)
    return {"world": world, "ops": [{"name": op["name"], "c": op["c"], "s": op["s"],
                                    "fault": {"has": bool(fault["has"]), "t": fault["t"], "at": int(fault["at"])}}]}
