"""C27 -- generated desktop files contain only allow-listed keys/headers, Exec starts the snap's own wrapper,
icon paths lie inside the snap, file tagged with the instance name. See props/_desktopsanitize.py."""
from props import _desktopsanitize


def run(ctx):
    return _desktopsanitize.run(ctx)
