"""E01 (extension) -- multi-snap changes: snapstate.InstallMany / UpdateMany / RemoveMany, one lane per snap
(Flags.Transaction per-snap) or one lane for all snaps (all-snaps).

Statement (each clause is an invariant of spec/MultiSnap.tla, evaluated by TLC on the model AND on real projections):
  FailedSnapRestored          the snap whose lane failed is restored exactly (C10's list, modulo revisions discarded
                              irrevocably before the abort)
  HealthySnapsComplete        every other snap of the change whose lane is healthy completes its install/refresh/remove
  AllRevertedIfTransactional  Transaction=all-snaps: one failure reverts ALL snaps of the change
  ConsistentAll               record and system agree for every snap after the change settled (C11); other snaps untouched
  ChangeErrorIffFailed        the change ends in Error exactly when a task failed
  LaneDiscipline              the lane rule itself: one lane per snap / one lane for all when transactional

Verdict =
  design       TLC on MultiSnap (= INSTANCE SnapSeq for the per-snap chains and effects + INSTANCE TaskEngine for the
               status rules and Change.abortLanes), bounded-exhaustive over interleavings and fault positions
  conformance  the real InstallMany/UpdateMany/RemoveMany + TaskRunner are driven (harness/overlay/snapstate/
               zz_verif_multisnap_test.go) with a fault at every task position of every snap; every recorded critical
               section must be the corresponding MultiSnap action with exactly the logged statuses of all tasks and the
               logged record/world of the snap concerned (TraceMultiSnap), the invariants evaluated on the real states
  direct       the six clauses evaluated in python on the real projections, independently of the spec
A violated clause (TLC invariant on real states, or direct) is a VIOLATION; a trace rejection with all clauses intact
means the code left the specification without violating the statement: exit 2 (needs triage), not an alarm.
"""
import concurrent.futures
import json
import os
import random
import re

from lib import common, tlc, goharness
from lib.common import Result, Violation, InfraError
from props import _snapseq as SQ

HARNESS = [os.path.join(common.HARNESS, "overlay", "snapstate", "zz_verif_snapseq_test.go"),
           os.path.join(common.HARNESS, "overlay", "snapstate", "zz_verif_multisnap_test.go")]
S1, S2, S3 = "some-snap", "some-other-snap", "snap-c"
SNAPS = [S1, S2, S3]
INVS = ["FailedSnapRestored", "HealthySnapsComplete", "AllRevertedIfTransactional", "ConsistentAll",
        "ChangeErrorIffFailed", "LaneDiscipline", "EngineSane"]
ENUM_OPS = ["setup-snap", "copy-data", "link-snap", "unlink-snap", "remove-snap-data"]
ACTIONS = ["RequestAny", "StartAny", "FinishDoAny", "FinishDoAbortedAny", "FailAny", "StartUndoAny", "FinishUndoAny",
           "NoUndoAny", "FinishRR", "Settle"]


# ----------------------------------------------------------------------------------------------- model checking

def model_check(ctx):
    # quick: 2 snaps, compact chains, reduced interleaving after the last fault, with coverage (vacuity guard)
    # thorough adds: the same configuration UNREDUCED (cross-check of the reduction), full (uncompacted) chains,
    # 3 snaps with two faults, and two consecutive changes from the empty system
    runs = [("MultiSnap_mc.cfg", True)]
    if not ctx.quick:
        runs += [("MultiSnap_mc_unreduced.cfg", False), ("MultiSnap_mc_full.cfg", False),
                 ("MultiSnap_mc_3snaps.cfg", False), ("MultiSnap_mc_2ops.cfg", False)]
    total = {"states": 0, "transitions": 0, "coverage": {}, "constants": {}, "wall": 0.0, "depth": 0, "runs": []}

    def one(run):
        cfg, cov = run
        return run, tlc.run(ctx, "MultiSnapMC", cfg, coverage=cov, workers=ctx.pick(6, 5), timeout=ctx.pick(1500, 3400),
                            heap=ctx.pick("6g", "8g"), name="mc_" + cfg[:-4])
    # the configurations are independent: run them side by side (TLC does not scale linearly with workers)
    with concurrent.futures.ThreadPoolExecutor(max_workers=ctx.pick(1, 3)) as ex:
        results = list(ex.map(one, runs))
    for (cfg, cov), res in results:
        if not res.ok:
            raise InfraError("spec-level counterexample in %s (%s): the composed spec violates %s; triage spec vs code" % (
                cfg, res.summary(), res.name))
        if cov:
            tlc.require_coverage(res, ACTIONS)
            total["coverage"] = tlc.coverage_summary(res)
        total["states"] += res.distinct
        total["transitions"] += res.generated
        total["depth"] = max(total["depth"], res.depth)
        total["wall"] += res.wall
        total["constants"][cfg] = SQ._constants_of(cfg)
        total["runs"].append({"cfg": cfg, "distinct": res.distinct, "generated": res.generated, "depth": res.depth,
                              "wall_s": round(res.wall, 1)})
        ctx.log("TLC %s: %d distinct / %d generated states, depth %d, %.0fs" % (cfg, res.distinct, res.generated, res.depth, res.wall))
    return total


# ----------------------------------------------------------------------------------------------- histories

def seq(kind, snap=S1, **kw):
    d = {"kind": kind, "snap": snap}
    d.update(kw)
    return {"seq": d}


def multi(kind, items, txn=False, faults=None):
    return {"multi": {"kind": kind, "txn": txn, "snaps": [{"snap": s, "rev": r} for s, r in items],
                      "faults": [dict(s=f[0], k=f[1], op=(f[2] if len(f) > 2 else "")) for f in (faults or [])]}}


def hist(hid, steps, on_classic=False, enum=False, enum_ops=None, chain=False, every=1):
    return {"id": hid, "onClassic": on_classic, "enum": enum, "chain": bool(enum and chain), "enumEvery": every,
            "enumOps": (enum_ops or []) if enum else [], "steps": steps}


def ctx_1_12(retain_str=False, plain=False):
    """some-snap keeps [1], some-other-snap keeps [1,2] (current 2); retain 2, so a refresh of some-other-snap to a
    new revision garbage-collects revision 1 inside the change.  plain: built by single-snap operations (their events
    are not part of the validated trace: used where the context is rebuilt for every fault position)"""
    if plain:
        return [seq("setretain", val=2, str=retain_str), seq("install", S1, rev=1), seq("install", S2, rev=1),
                seq("refresh", S2, rev=2)]
    return [seq("setretain", val=2, str=retain_str),
            multi("install-many", [(S1, 1), (S2, 1)]),
            multi("update-many", [(S2, 2)])]


def directed(ctx):
    q = ctx.quick
    hs = []
    # every fault position (entry of every task + the backend operations) of every snap, both lane flavours.
    # per-snap: the healthy snap completes, so the context is rebuilt for every position; transactional: a failed
    # change restores every snap, so all positions are tried on one system (chain), then the change goes through
    hs.append(hist("d-upd-ps", ctx_1_12(plain=True) + [multi("update-many", [(S1, 2), (S2, 3)])], enum=True, enum_ops=ENUM_OPS))
    # (the snap whose refresh garbage-collects comes first: once a discard has completed before an abort the revision is
    # gone for the attempts that follow)
    hs.append(hist("d-upd-tx", ctx_1_12(True) + [multi("update-many", [(S2, 3), (S1, 2)], txn=True)], enum=True, enum_ops=ENUM_OPS,
                   chain=True))
    hs.append(hist("d-inst-tx", [multi("install-many", [(S1, 1), (S2, 2)], txn=True)], on_classic=True, enum=True,
                   enum_ops=ENUM_OPS, chain=True))
    if q:
        # quick: install per-snap and remove at selected positions only (thorough: all of them)
        for k in (1, 4, 5, 7, 8, 13, 15):
            hs.append(hist("d-inst-ps-k%d" % k, [multi("install-many", [(S1, 1), (S2, 2)], faults=[(1 + k % 2, k)])]))
        for k in (1, 4, 6, 7, 8, 9, 10):
            hs.append(hist("d-rm-k%d" % k, ctx_1_12(plain=True) + [multi("remove-many", [(S1, 0), (S2, 0)], faults=[(2 - k % 2, k)])]))
    else:
        hs.append(hist("d-upd-tx-fresh", ctx_1_12(True, plain=True) + [multi("update-many", [(S1, 2), (S2, 3)], txn=True)], enum=True,
                       enum_ops=ENUM_OPS, every=3))
        hs.append(hist("d-inst-ps", [multi("install-many", [(S1, 1), (S2, 2)])], enum=True, enum_ops=ENUM_OPS))
        hs.append(hist("d-rm", ctx_1_12(plain=True) + [multi("remove-many", [(S1, 0), (S2, 0)])], on_classic=True, enum=True,
                       enum_ops=["unlink-snap", "remove-snap-data"]))
    # three snaps, faults in two different lanes: the third lane is healthy and completes (per-snap) / all revert (txn)
    three = [multi("install-many", [(S1, 1), (S2, 1), (S3, 1)])]
    for i, (a, b) in enumerate([((1, 11), (3, 8)), ((2, 4), (1, 16, "link-snap")), ((3, 11, "link-snap"), (2, 9, "copy-data"))]):
        hs.append(hist("d-3upd-ps-%d" % i, three + [multi("update-many", [(S1, 2), (S2, 3), (S3, 2)], faults=[a, b])]))
        hs.append(hist("d-3upd-tx-%d" % i, three + [multi("update-many", [(S1, 2), (S2, 3), (S3, 2)], txn=True, faults=[a, b])]))
    hs.append(hist("d-3inst", [multi("install-many", [(S1, 1), (S2, 2), (S3, 3)], faults=[(2, 7, "link-snap")]),
                               multi("install-many", [(S2, 1)]),
                               multi("remove-many", [(S1, 0), (S2, 0), (S3, 0)], faults=[(1, 8), (3, 6)]),
                               multi("remove-many", [(S1, 0), (S3, 0)])]))
    # consecutive multi-snap changes on one system: the restored / completed states are the contexts of the next
    hs.append(hist("d-chain", [
        multi("install-many", [(S1, 1), (S2, 1)], txn=True, faults=[(2, 9)]),
        multi("install-many", [(S1, 1), (S2, 1)], faults=[(1, 7)]),
        multi("install-many", [(S1, 1)], txn=True),
        multi("update-many", [(S1, 2), (S2, 2)], faults=[(1, 12)]),
        multi("update-many", [(S1, 2), (S2, 3)], txn=True, faults=[(1, 18)]),
        multi("update-many", [(S1, 2), (S2, 3)], txn=True),
        multi("remove-many", [(S1, 0), (S2, 0)], faults=[(1, 6)]),
        multi("remove-many", [(S1, 0)])]))
    # contexts left by reverts: revisions after current are discarded by the refresh; refresh to a kept revision
    rv = [seq("setretain", val=5), multi("install-many", [(S1, 1), (S2, 1)]), multi("update-many", [(S1, 2), (S2, 2)]),
          multi("update-many", [(S2, 3)]), seq("revert", S1, rev=1), seq("setconfig", S2, val=2), seq("setretain", val=2, str=True)]
    if q:
        for k in (8, 12, 20):
            hs.append(hist("d-revctx-k%d" % k, rv + [multi("update-many", [(S1, 3), (S2, 1)], txn=(k != 12), faults=[(1 + k % 2, k)])]))
    else:
        hs.append(hist("d-revctx-ps", rv + [multi("update-many", [(S1, 3), (S2, 1)])], enum=True, enum_ops=["link-snap"], every=2))
        hs.append(hist("d-revctx-tx", rv + [multi("update-many", [(S1, 3), (S2, 1)], txn=True)], enum=True, enum_ops=["link-snap"],
                       chain=True))
        hs.append(hist("d-3upd-tx-enum", three + [multi("update-many", [(S1, 2), (S2, 3), (S3, 2)], txn=True)], enum=True, chain=True))
        hs.append(hist("d-3upd-ps-enum", three + [multi("update-many", [(S1, 2), (S2, 3), (S3, 2)])], on_classic=True, enum=True, every=2))
    return hs


def random_histories(ctx, n):
    rnd = random.Random(ctx.seed * 7919 + 17)
    hs = []
    for h in range(n):
        snaps = SNAPS[:rnd.choice([2, 2, 3])]
        shapes = {s: rnd.choice(["none", "1", "12", "123", "12r"]) for s in snaps}
        steps = [seq("setretain", val=5)]
        inst = [s for s in snaps if shapes[s] != "none"]
        if inst:
            steps.append(multi("install-many", [(s, 1) for s in inst], txn=rnd.random() < 0.3))
        two = [s for s in inst if shapes[s] != "1"]
        if two:
            steps.append(multi("update-many", [(s, 2) for s in two], txn=rnd.random() < 0.3))
        thr = [s for s in inst if shapes[s] == "123"]
        if thr:
            steps.append(multi("update-many", [(s, 3) for s in thr]))
        cur = {}
        for s in snaps:
            cur[s] = {"none": 0, "1": 1, "12": 2, "123": 3, "12r": 1}[shapes[s]]
            if shapes[s] == "12r":
                steps.append(seq("revert", s, rev=1, nb=rnd.random() < 0.5))
        rv = rnd.choice([0, 2, 2, 3])
        steps.append(seq("setretain", val=rv, str=(rv != 0 and rnd.random() < 0.3)))
        kinds = []
        if len(inst) >= 1:
            kinds += ["update-many", "update-many", "remove-many"]
        if len(snaps) - len(inst) >= 1:
            kinds += ["install-many"] * (2 if len(snaps) - len(inst) >= 2 else 1)
        kind = rnd.choice(kinds)
        if kind == "install-many":
            items = [(s, rnd.choice([1, 2, 3])) for s in snaps if s not in inst]
        elif kind == "update-many":
            items = [(s, rnd.choice([r for r in (1, 2, 3, 4) if r != cur[s]])) for s in inst]
        else:
            items = [(s, 0) for s in inst]
        rnd.shuffle(items)
        txn = kind != "remove-many" and rnd.random() < 0.5
        nf = rnd.choice([0, 1, 1, 1, 2])
        faults = []
        for pos in rnd.sample(range(1, len(items) + 1), min(nf, len(items))):
            if rnd.random() < 0.3 and kind != "remove-many":
                faults.append((pos, rnd.randint(1, 14), rnd.choice(["link-snap", "copy-data", "setup-snap", "unlink-snap"])))
            else:
                faults.append((pos, rnd.randint(1, 21 if kind == "update-many" else 15 if kind == "install-many" else 9)))
        # an operation fault must address the task that hosts the operation: the harness fires it whenever the snap's
        # handler calls that backend operation, so the task index is only informative there
        steps.append(multi(kind, items, txn=txn, faults=faults))
        hs.append(hist("r%d" % h, steps, on_classic=rnd.random() < 0.5))
    return hs


# ----------------------------------------------------------------------------------------------- real executions

_build_cache = {}


def build(ctx):
    if ctx.scratch not in _build_cache:
        _build_cache[ctx.scratch] = goharness.overlay_test_build(ctx, "overlord/snapstate", HARNESS)
    return _build_cache[ctx.scratch]


def run_harness(ctx, tb, histories, what):
    d = ctx.subdir("log_" + what)
    hp = os.path.join(d, "histories.json")
    with open(hp, "w") as f:
        json.dump(histories, f)
    out = os.path.join(d, "events.ndjson")
    rc, o = goharness.run_test_bin(ctx, tb, "TestVerifMultiSnap", env={"VERIF_OUT": out, "VERIF_HISTORIES": hp},
                                   cwd=os.path.join(common.REPO, "overlord/snapstate"), timeout=ctx.pick(1500, 3000))
    goharness.check_driver(rc, o, "multisnap driver (%s)" % what)
    m = re.search(r'VERIF-MULTISNAP histories=(\d+) events=(\d+) changes=(\d+) faults=(\d+) wall=([\d.]+)s', o)
    if not m:
        raise InfraError("multisnap driver printed no summary:\n%s" % common.tail(o, 20))
    stats = {"histories": int(m.group(1)), "events": int(m.group(2)), "changes": int(m.group(3)), "faults": int(m.group(4)),
             "wall": float(m.group(5))}
    log = [_nonull(e) for e in common.read_ndjson(out) if e["ev"].startswith("M")]
    for i, e in enumerate(log):
        e["_line"] = i + 1
    return log, stats


def _nonull(x):
    if isinstance(x, dict):
        return {k: ([] if v is None else _nonull(v)) for k, v in x.items()}
    if isinstance(x, list):
        return [_nonull(v) for v in x]
    return x


# ----------------------------------------------------------------------------------------------- grouping, keys

def changes_of(log):
    """group the M-events into multi-snap changes: {case, op, pre, post, status, graph, events, hist}"""
    out, cur, hist = [], None, {}
    for e in log:
        c = e["case"]
        ev = e["ev"]
        if ev == "MReset":
            hist[c] = []
            cur = None
        elif ev == "MCtx":
            if not hist.setdefault(c, []):
                hist[c].append(ctx_string(e["st"]))
        elif ev == "MRequest":
            hist.setdefault(c, []).append(op_string(e["op"]))
            if e["ok"]:
                cur = {"case": c, "op": e["op"], "pre": e["st"], "graph": e["graph"], "extra": e.get("extra") or [],
                       "strays": e.get("strays") or [], "events": [], "hist": ";".join(hist[c]), "line": e["_line"]}
            else:
                out.append({"case": c, "op": e["op"], "refused": e.get("err", ""), "post": e["st"], "hist": ";".join(hist[c]),
                            "line": e["_line"]})
        elif ev == "MSettle":
            if cur is not None:
                cur.update({"post": e["st"], "status": e["status"], "tst": e["tst"], "settle_line": e["_line"]})
                out.append(cur)
            cur = None
        elif ev == "MPanic":
            out.append({"case": c, "op": e["op"], "panic": e.get("what", ""), "post": e["st"], "hist": ";".join(hist.get(c, []) + [op_string(e["op"])]),
                        "line": e["_line"]})
            cur = None
        elif cur is not None:
            cur["events"].append(e)
    return out


def ctx_string(st):
    parts = []
    for n in SNAPS:
        r = st["snaps"].get(n)
        if r and r["seq"]:
            parts.append("%s=%s@%d%s" % (n, r["seq"], r["cur"], "" if r["active"] else "!inactive"))
    rt = st["retain"]
    return "ctx{%s;retain=%s%s}" % (",".join(parts).replace(" ", ""), rt["t"][0], rt["v"])


def op_string(op):
    s = "%s%s(%s)" % (op["kind"], "[txn]" if op.get("txn") else "",
                      ",".join("%s->%d" % (x["snap"], x["rev"]) if op["kind"] != "remove-many" else x["snap"] for x in op["snaps"]))
    for f in op.get("faults") or []:
        s += "!s%dk%d%s" % (f["s"], f["k"], (":" + f["op"]) if f.get("op") else "")
    return s


# ----------------------------------------------------------------------------------------------- direct check

_C10_FIELDS = ("cur", "active", "chan", "dev", "jail", "classic", "try", "ignv", "cohort", "lastRefresh", "inhibited",
               "cfg", "apend", "linked")


def _restored_diffs(p, q, disc):
    diffs = []
    if q["seq"] != [r for r in p["seq"] if r not in disc]:
        diffs.append("seq")
    for f in _C10_FIELDS:
        if q[f] != p[f]:
            diffs.append(f)
    if sorted(q["mounted"]) != sorted(r for r in p["mounted"] if r not in disc):
        diffs.append("mounted")
    if sorted(q["block"]) != sorted(r for r in p["block"] if r not in disc):
        diffs.append("block")
    return diffs


def _completed_diffs(kind, rev, q, statuses):
    bad = []
    if any(s != "Done" for s in statuses):
        bad.append("tasks-not-all-Done")
    if kind == "remove-many":
        if q["seq"] or q["cur"] or q["mounted"] or q["linked"]:
            bad.append("still-installed")
    else:
        if q["cur"] != rev or not q["active"] or q["linked"] != rev or rev not in q["mounted"] or rev not in q["seq"]:
            bad.append("target-not-current")
    return bad


def direct_check(log):
    """-> ([Violation], counts). One violation per clause class (shortest history)."""
    found = {}
    counts = {"settled_changes": 0, "changes_with_failure": 0, "failed_snaps_checked_restored": 0,
              "healthy_snaps_completed_beside_a_failure": 0, "healthy_snaps_completed": 0,
              "transactional_changes_all_reverted": 0, "snaps_reverted_by_anothers_failure": 0,
              "tasks_aborted_in_flight": 0, "consistency_checks": 0, "refused": 0,
              "by_kind": {}}

    def report(clause, ch, detail, extra=None):
        key = "E01:%s: hist=%s" % (clause, ch["hist"])
        n = found.get(clause, (None, None, 0))[2] + 1
        rp = {"case": ch["case"], "history": ch["hist"], "op": ch.get("op"), "detail": detail}
        rp.update(extra or {})
        if clause not in found or len(key) < found[clause][0]:
            found[clause] = (len(key), Violation(key=key, desc="%s: %s" % (clause, detail), replay=rp), n)
        else:
            found[clause] = (found[clause][0], found[clause][1], n)

    for ch in changes_of(log):
        if "panic" in ch:
            report("Panic", ch, "the real entry point panicked: %s" % ch["panic"])
            continue
        if "refused" in ch:
            counts["refused"] += 1
            continue
        op, pre, post = ch["op"], ch["pre"]["snaps"], ch["post"]["snaps"]
        kind, txn = op["kind"], bool(op.get("txn"))
        counts["settled_changes"] += 1
        counts["by_kind"][kind + ("[txn]" if txn else "")] = counts["by_kind"].get(kind + ("[txn]" if txn else ""), 0) + 1
        names = [x["snap"] for x in op["snaps"]]
        revs = {x["snap"]: x["rev"] for x in op["snaps"]}
        # per-snap facts from the recorded events
        failed, disc = set(), {n: set() for n in names}
        label = {}
        for g in ch["graph"]:
            for j, t in enumerate(g["tasks"]):
                label[g["first"] + j] = (g["snap"], t)
        for e in ch["events"]:
            if e["ev"] == "MFail" and e.get("snap"):
                failed.add(e["snap"])
            if e["ev"] in ("MDo", "MDoAborted") and e["t"] in label and label[e["t"]][1]["k"] == "discard-snap":
                disc[label[e["t"]][0]].add(label[e["t"]][1]["r"])
            if e["ev"] == "MDoAborted":
                counts["tasks_aborted_in_flight"] += 1
            if e["ev"] == "MUnexpected":
                report("Unexpected", ch, e.get("what", ""))
        any_failed = bool(failed)
        counts["changes_with_failure"] += any_failed
        # (6) lane rule on the real graph
        lane_of = {}
        lanes_ok = True
        for g in ch["graph"]:
            ls = {tuple(x) for x in g["lanes"]}
            if len(ls) != 1 or len(next(iter(ls))) != 1 or next(iter(ls))[0] == 0:
                lanes_ok = False
            lane_of[g["snap"]] = sorted(ls)
        distinct = len({json.dumps(v) for v in lane_of.values()})
        if lanes_ok and len(names) > 1 and ((txn and distinct != 1) or (not txn and distinct != len(names))):
            lanes_ok = False
        if any(x["k"] == "check-rerefresh" and x["lanes"] != [0] for x in ch["extra"]):
            lanes_ok = False
        if not lanes_ok:
            report("LaneDiscipline", ch, "lanes per snap %s for transaction=%s" % (json.dumps(lane_of), "all-snaps" if txn else "per-snap"))
        # (5) change status
        if (ch["status"] == "Error") != any_failed or (ch["status"] == "Done") == any_failed:
            report("ChangeErrorIffFailed", ch, "change status %s, failed snaps %s" % (ch["status"], sorted(failed)))
        # statuses of each snap's tasks at settle
        st_of = {g["snap"]: ch["tst"][g["first"] - 1: g["first"] - 1 + len(g["tasks"])] for g in ch["graph"]}
        for n in names:
            p, q = pre[n], post[n]
            if n in failed and kind != "remove-many":
                d = _restored_diffs(p, q, disc[n])
                counts["failed_snaps_checked_restored"] += 1
                if d:
                    report("FailedSnapRestored", ch, "snap %s (its lane failed) differs in %s: before=%s after=%s" % (
                        n, d, json.dumps(p), json.dumps(q)), {"snap": n, "before": p, "after": q, "discarded": sorted(disc[n])})
            if n not in failed and (not txn or not any_failed):
                d = _completed_diffs(kind, revs[n], q, st_of.get(n, []))
                counts["healthy_snaps_completed"] += 1
                counts["healthy_snaps_completed_beside_a_failure"] += any_failed
                if d:
                    report("HealthySnapsComplete", ch, "snap %s (healthy lane%s) did not complete: %s; after=%s tasks=%s" % (
                        n, ", another snap failed" if any_failed else "", d, json.dumps(q), st_of.get(n)), {"snap": n, "after": q})
            if txn and any_failed:
                d = _restored_diffs(p, q, disc[n])
                counts["snaps_reverted_by_anothers_failure"] += (n not in failed)
                if d and n not in failed:
                    report("AllRevertedIfTransactional", ch, "transactional change failed in %s but snap %s was not reverted: %s; before=%s after=%s" % (
                        sorted(failed), n, d, json.dumps(p), json.dumps(q)), {"snap": n, "before": p, "after": q})
        if txn and any_failed:
            counts["transactional_changes_all_reverted"] += 1
        # (4) consistency of every snap, frame
        for n, q in post.items():
            counts["consistency_checks"] += 1
            bad = SQ._consistent(q)
            if bad:
                report("ConsistentAll", ch, "snap %s: record and system disagree (%s): %s" % (n, ",".join(bad), json.dumps(q)), {"snap": n, "after": q})
            if n not in names and q != pre[n]:
                report("ConsistentAll", ch, "snap %s is not part of the change but was modified: before=%s after=%s" % (
                    n, json.dumps(pre[n]), json.dumps(q)), {"snap": n})
    out = []
    for clause, (_, v, n) in sorted(found.items()):
        v.desc = "%s [%d occurrence(s) this run]" % (v.desc, n)
        out.append(v)
    return out, counts


# ----------------------------------------------------------------------------------------------- trace validation

def _chunks(events, maxlines):
    chunks, cur = [], []
    for e in events:
        if e["ev"] == "MReset" and len(cur) >= maxlines:
            chunks.append(cur)
            cur = []
        cur.append(e)
    if cur:
        chunks.append(cur)
    return chunks


def _strip(e):
    return {k: v for k, v in e.items() if k != "_line"}


def validate(ctx, log, what, njobs):
    """-> (cases validated, [Violation] (invariants on real states), [rejections])"""
    d = ctx.subdir("traces_" + what)
    per = max(400, len(log) // max(njobs, 1) + 1)
    jobs = []
    for ci, chnk in enumerate(_chunks(log, per)):
        p = os.path.join(d, "t%d.ndjson" % ci)
        common.write_ndjson(p, [_strip(e) for e in chnk])
        jobs.append((ci, p, chnk))

    def one(job):
        """validate a chunk; after a rejection / invariant violation go on with the histories that follow the stuck one"""
        ci, p, chnk = job
        res, part = [], 0
        while chnk:
            tv = tlc.validate_trace(ctx, "TraceMultiSnap", "TraceMultiSnap.cfg", p, timeout=ctx.pick(1500, 3000),
                                    name="trace_%s_%d_%d" % (what, ci, part))
            res.append((chnk, tv, p))
            if tv["accepted"] or part >= 6:
                break
            ln = min(max(tv["stuck_line"] or 1, 1), len(chnk))
            nxt = next((i for i in range(ln, len(chnk)) if chnk[i]["ev"] == "MReset"), None)
            if nxt is None:
                break
            chnk = chnk[nxt:]
            part += 1
            p = os.path.join(d, "t%d_%d.ndjson" % (ci, part))
            common.write_ndjson(p, [_strip(e) for e in chnk])
        return res
    with concurrent.futures.ThreadPoolExecutor(max_workers=ctx.pick(3, 6)) as ex:
        results = [r for rs in ex.map(one, jobs) for r in rs]
    ncases, violations, rejections = len({e["case"] for e in log}), [], []
    for chnk, tv, p in results:
        if tv["accepted"]:
            continue
        ln = tv["stuck_line"]
        ev = chnk[min(max(ln, 1), len(chnk)) - 1]
        h = history_upto(log, ev)
        if tv["invariant"]:
            violations.append(Violation(
                key="E01:%s: hist=%s" % (tv["invariant"], h),
                desc="invariant %s of MultiSnap is false on the REAL state after %s (case %s)" % (tv["invariant"], evdesc(ev), ev["case"]),
                replay={"case": ev["case"], "history": h, "event": {k: v for k, v in ev.items() if k not in ("st",)},
                        "real_state": ev.get("st"), "trace_file_line": ln}))
        else:
            rejections.append({"case": ev["case"], "history": h, "event": evdesc(ev), "line": ln, "file": p,
                               "tst": ev.get("tst"), "real_state_of_snap": (ev.get("st") or {}).get("snaps", {}).get(ev.get("snap", ""))})
    return ncases, violations, rejections


def evdesc(ev):
    s = ev["ev"]
    if "t" in ev:
        s += "(task %d%s%s)" % (ev["t"], (" of " + ev["snap"]) if ev.get("snap") else "", ("," + ev["mode"]) if "mode" in ev else "")
    if ev["ev"] == "MRequest":
        s += "(%s)" % op_string(ev["op"])
    return s


def history_upto(log, ev):
    parts = []
    for e in log:
        if e["case"] != ev["case"]:
            continue
        if e["_line"] > ev["_line"]:
            break
        if e["ev"] == "MCtx" and not parts:
            parts.append(ctx_string(e["st"]))
        if e["ev"] == "MRequest":
            parts.append(op_string(e["op"]))
    return ";".join(parts)


def corruption_control(ctx, log):
    """binding is real: corrupting one recorded field of a real trace must make validation reject at that line"""
    first = _chunks(log, 1)
    flat = []
    for chnk in first:
        flat += chnk
        if len(flat) > 150 and any(e["ev"] == "MFail" for e in flat):
            break
    out = []
    # (a) a task status inside the lane abort, (b) the projected record of the snap after link-snap
    ta = next((i for i, e in enumerate(flat) if e["ev"] == "MFail"), None)
    tb = next((i for i, e in enumerate(flat) if e["ev"] == "MDo" and e.get("st") and e["st"]["snaps"].get(e.get("snap"), {}).get("cur")), None)
    if ta is None or tb is None:
        raise InfraError("corruption control: no suitable events in the first histories")
    for name, idx, mut in (("abort-status", ta, "tst"), ("record", tb, "rec")):
        bad = json.loads(json.dumps([_strip(e) for e in flat]))
        if mut == "tst":
            v = bad[idx]["tst"]
            j = next(i for i, s in enumerate(v) if s in ("Hold", "Undo", "Abort"))
            v[j] = "Do"
        else:
            bad[idx]["st"]["snaps"][bad[idx]["snap"]]["chan"] = "corrupted/by-verif"
        d = ctx.subdir("corrupt_" + name)
        p = os.path.join(d, "bad.ndjson")
        common.write_ndjson(p, bad)
        tv = tlc.validate_trace(ctx, "TraceMultiSnap", "TraceMultiSnap.cfg", p, timeout=900, name="trace_corrupt_" + name)
        if tv["accepted"]:
            raise InfraError("corruption control (%s): a corrupted trace was accepted (binding is not effective)" % name)
        if tv["stuck_line"] != idx + 1:
            raise InfraError("corruption control (%s): rejected at line %s, expected %d" % (name, tv["stuck_line"], idx + 1))
        out.append({"what": name, "corrupted_line": idx + 1, "rejected_at": tv["stuck_line"]})
    return out


# ----------------------------------------------------------------------------------------------- driver

def _distinct_real_states(log):
    s = set()
    for e in log:
        for n, r in ((e.get("st") or {}).get("snaps") or {}).items():
            if r["seq"] or r["mounted"]:
                s.add(json.dumps(r, sort_keys=True))
    return len(s)


def run(ctx):
    conf_only = bool(os.environ.get("VERIF_E01_CONF_ONLY"))     # mutation runs: skip the TLC runs that do not depend on /repo
    # the design part (TLC on the spec) does not depend on /repo: it runs beside the build and the driver
    pool = concurrent.futures.ThreadPoolExecutor(max_workers=1)
    mc_future = None if conf_only else pool.submit(model_check, ctx)
    tb = build(ctx)

    if ctx.replay:
        with open(ctx.replay) as f:
            rp = json.load(f)
        histories = (rp.get("replay") or {}).get("histories") or []
        if not histories:
            raise InfraError("replay file has no histories")
    else:
        histories = directed(ctx) + random_histories(ctx, ctx.pick(8, 40))
    log, stats = run_harness(ctx, tb, histories, "all")
    ctx.log("driver: %d histories, %d events, %d multi-snap changes, %d with faults in %.0fs" % (
        stats["histories"], stats["events"], stats["changes"], stats["faults"], stats["wall"]))

    if mc_future is None:
        mc = {"states": 1, "transitions": 1, "coverage": {}, "constants": {}, "wall": 0.0, "depth": 0, "runs": []}
    else:
        mc = mc_future.result()
    pool.shutdown()
    violations, counts = direct_check(log)
    ncases, tviol, rejections = validate(ctx, log, "all", ctx.pick(3, 6))
    violations += tviol
    base = {h["id"]: h for h in histories}
    for v in violations:     # make every violation re-runnable: the history (with the enumerated fault) of its case
        case = (v.replay or {}).get("case", "")
        hid = case.split(".")[0]
        if hid in base:
            v.replay["histories"] = [base[hid]]
    if rejections and not violations:
        r = rejections[0]
        raise InfraError("needs triage: %d recorded trace(s) are not behaviours of TraceMultiSnap although no clause of E01 is violated "
                         "(the code left the specification); first: case %s at %s, history %s, statuses %s" % (
                             len(rejections), r["case"], r["event"], r["history"], r["tst"]))
    control = [] if (violations or ctx.replay) else corruption_control(ctx, log)

    if not ctx.replay:
        for k, least in (("failed_snaps_checked_restored", 20), ("healthy_snaps_completed_beside_a_failure", 10),
                         ("transactional_changes_all_reverted", 10), ("settled_changes", 40)):
            if counts[k] < least:
                raise InfraError("vacuity guard: only %d %s in the real executions (need %d)" % (counts[k], k, least))

    seen, uniq = set(), []
    for v in sorted(violations, key=lambda v: len(v.key)):
        cls = v.key.split(": hist=")[0]
        if cls not in seen:
            seen.add(cls)
            uniq.append(v)

    samples = []
    for ch in changes_of(log):
        if "status" in ch and ch["op"].get("faults") and len(samples) < 4 and len(ch["op"]["snaps"]) >= 2:
            samples.append({"history": ch["hist"], "change_status": ch["status"],
                            "after": {x["snap"]: {k: ch["post"]["snaps"][x["snap"]][k] for k in ("seq", "cur", "active", "linked", "mounted")}
                                      for x in ch["op"]["snaps"]}})
    cov = {
        "states": mc["states"], "transitions": mc["transitions"], "tlc_depth": mc["depth"], "tlc_wall_s": round(mc["wall"], 1),
        "tlc_runs": mc["runs"], "tlc_constants": mc["constants"], "action_coverage": mc["coverage"], "invariants": INVS,
        "traces_validated_against_impl": ncases, "real_events_validated": len(log),
        "real_multi_snap_changes": stats["changes"], "real_changes_with_injected_faults": stats["faults"],
        "histories": stats["histories"], "trace_rejections": len(rejections),
        "distinct_abstract_states_reached_by_real_executions": _distinct_real_states(log),
        "relevant_real_cases": counts, "corruption_control": control, "samples": samples,
    }
    return Result(level="model_checking", coverage=cov, violations=uniq, assumptions=[
        "backend is overlord/snapstate's fakeSnappyBackend (wrapped as in C10-C13: SetupSnap/LinkSnap can fail, data directories are "
        "real); store is fakeStore; hooks, interface and snapshot tasks are the fixture's no-op fakes (which kinds have an undo handler "
        "is the fixture's: run-hook has none there); check-rerefresh's store query is mocked (nothing to re-refresh)",
        "app snaps only (no snapd/base/kernel/gadget: arrangeSnapTaskSetsLinkageAndRestart adds no cross-snap waits); up to three "
        "snaps per change, at most one injected fault per snap, only in do-handlers; PartialDiscard (failure inside discard-snap of "
        "the last revision, known finding of C11) is not injected",
        "'task fails on entry' replicates TaskRunner.run's error branch (AbortLanes + ErrorStatus) from a blocked-predicate while the "
        "task is still in Do; backend-operation faults fail the real handler (task in Doing)",
        "model checking uses compact chains (tasks without effect on record/world dropped) and, after the last fault, one canonical "
        "order of independent steps; thorough also runs the unreduced and the uncompacted configurations",
    ])
