"""C37 -- path patterns match exactly their expansions; counts; rejection; precedence order-independent.

design      : PathPattern.tla -- declarative reference for interfaces/prompting/patterns:
              Expand(p) (built like parse.go/render.go: optimize() joins literals, drops node-equal
              alternatives, collapses one-alternative groups; enumeration order of RenderAllVariants),
              NumVariants/Accepted (limit 1000), PPM(v, path) for a brace-less v (the trailing-'/' rules of
              PathPatternMatches around doublestar.Match v4.6.1 semantics), Valid(s) (scanner/parser),
              RefMatch(p, path) == there is v in Expand(p) with PPM(v, path).
              TLC checks laws on the reference (PathPattern_mc.cfg, one state per pattern): NumVariants =
              Len(Expand), optimize() is neutral w.r.t. the set of expansions, expansions are valid brace-less
              patterns, trailing-'/' rules, escapes.
conformance : T->I  TLC tabulates the reference in factored form (PathPatternTable.tla): per pattern
                    NumVariants/Accepted/Expand; per distinct expansion the set of matching paths; per
                    pattern string Valid. The driver harness/ext/pathpat evaluates the real ParsePathPattern,
                    NumVariants, RenderAllVariants, PathPatternMatches on the same whole domain.
              laws  directly on the real outputs: match(p) = OR match(expansions) = OR match(enumerated
                    variants); NumVariants = callbacks <= 1000; Compare is a strict weak order on the
                    variants matching a path and HighestPrecedencePattern is order-independent.
              I->T  seeded random patterns beyond the bound (TracePathPattern, mode match) and recorded
                    Compare matrices + winners for every permutation of 2..4 matching variants (mode prec).
"""
import itertools
import json
import os
import random

from lib import common, goharness
from lib.common import Result, Violation, InfraError
from props import _reftables as rt
from props import _doublestar as dsq

PKG = "pathpat"
LIMIT = 1000

# ---------------------------------------------------------------------------------------------
# The bounded domain. Patterns are ASTs (see spec/PathPattern.tla): item = {"c": byte, "alts": []}
# or {"c": 0, "alts": [[item...], ...]}.


def ch(c):
    return {"c": c, "alts": []}


def grp(*alts):
    return {"c": 0, "alts": [list(a) for a in alts]}


def txt(s):
    """plain text (may contain '\\' escapes, wildcards, '/') -> items"""
    return [ch(ord(c)) for c in s]


def render(items):
    out = []
    for it in items:
        if it["c"]:
            out.append(chr(it["c"]))
        else:
            out.append("{" + ",".join(render(a) for a in it["alts"]) + "}")
    return "".join(out)


ATOMS8 = ["a", "b", "/", "?", "*", "**", "\\a", "\\*"]
ATOMS5 = ["a", "/", "?", "*", "**"]


def seqs(atoms, maxlen):
    for n in range(maxlen + 1):
        for t in itertools.product(atoms, repeat=n):
            yield "".join(t)


def paths(depth3):
    """'/', and every path of <= 2 segments over {a, b, ab} (with and without trailing '/'), plus
    3-segment paths over {a, b} (thorough: over {a, b, ab})."""
    out = ["/"]
    for n in (1, 2, 3):
        segs = ["a", "b", "ab"] if (n < 3 or depth3) else ["a", "b"]
        for t in itertools.product(segs, repeat=n):
            p = "/" + "/".join(t)
            out += [p, p + "/"]
    return out


ALTS = sorted(set(seqs(ATOMS5, 2)) | {"b", "\\*", "a/b"}, key=lambda s: (len(s), s))
PRE = ["", "a", "a/", "*", "**/", "?"]
SUF = ["", "a", "/", "/a", "*", "/**", "**"]
SMALL = ["", "a", "b", "/", "*", "**"]


def family_plain(maxatoms):
    for s in seqs(ATOMS8, maxatoms):
        yield txt("/" + s)


def family_one_group():
    """/pre{x,y}suf for all ordered pairs of alternatives (x = y included: node-equal duplicates)"""
    for pre in PRE:
        for suf in SUF:
            for x in ALTS:
                for y in ALTS:
                    yield txt("/" + pre) + [grp(txt(x), txt(y))] + txt(suf)


def family_three_alts():
    pool = ["", "a", "/", "*", "**", "/a", "a/", "**/"]
    for pre in ["", "a", "a/"]:
        for suf in ["", "a", "/a", "/"]:
            for t in itertools.product(pool, repeat=3):
                yield txt("/" + pre) + [grp(*[txt(x) for x in t])] + txt(suf)


def family_nested():
    for pre in ["", "a", "a/"]:
        for suf in ["", "/", "a"]:
            for x, y, z in itertools.product(SMALL, repeat=3):
                yield txt("/" + pre) + [grp(txt(x), [grp(txt(y), txt(z))])] + txt(suf)            # {x,{y,z}}
                yield txt("/" + pre) + [grp(txt(x) + [grp(txt(y), txt(z))], txt(x + y))] + txt(suf)  # {x{y,z},xy}
                yield txt("/" + pre) + [grp([grp(txt(y), txt(z))] + txt(x), txt(z))] + txt(suf)      # {{y,z}x,z}
    for w, x, y, z in itertools.product(["", "a", "/", "*"], repeat=4):
        yield txt("/") + [grp([grp(txt(w), txt(x))], [grp(txt(y), txt(z))])]                       # {{w,x},{y,z}}
        yield txt("/a") + [grp(txt(w), [grp(txt(x), [grp(txt(y), txt(z))])])]                       # {w,{x,{y,z}}}


def family_sibling_groups():
    """directed: alternatives that are (or contain, at the same place) groups whose lists are prefixes /
    extensions / permutations / duplicates of each other or differ only in the tail -- exercises the
    node-equality used by alt.optimize to drop duplicate alternatives (always included in full)."""
    def g(lst):
        return grp(*[txt(x) for x in lst])
    lists = [
        (["a", "b"], ["a", "b", "ab"]),          # earlier list is a strict prefix of the later one
        (["a", "b", "ab"], ["a", "b"]),          # later list is a strict prefix of the earlier one
        (["a", "b"], ["b", "a"]),                # permuted
        (["a", "b"], ["a", "b"]),                # duplicate groups (must count once)
        (["a", "b"], ["a", "ab"]),               # differ only in the tail
        (["", "a"], ["", "a", "b/**"]),          # prefix list with empty alternative and a doublestar tail
        (["a"], ["a", "b"]),                     # one-element list (collapses) vs its extension
        (["a", "b"], ["a", "b", ""]),            # extension by the empty alternative
    ]
    for l1, l2 in lists:
        for pre in ["/", "/a/"]:
            for suf in ["", "/", "b"]:
                yield txt(pre) + [grp([g(l1)], [g(l2)])] + txt(suf)                              # {{l1},{l2}}
                yield txt(pre) + [grp(txt("a") + [g(l1)], txt("a") + [g(l2)])] + txt(suf)        # {a{l1},a{l2}}
                yield txt(pre) + [grp([g(l1)] + txt("b"), [g(l2)] + txt("b"))] + txt(suf)        # {{l1}b,{l2}b}
            yield txt(pre) + [grp([g(l1)], [g(l2)], [g(l1)])]                                    # three siblings, first = third
            yield txt(pre) + [grp([grp([g(l1)], txt("b"))], [grp([g(l2)], txt("b"))])]           # one level deeper


def family_two_groups():
    pool = ["", "a", "/", "*", "**"]
    for mid in ["", "/", "a", "*"]:
        for w, x, y, z in itertools.product(pool, repeat=4):
            yield txt("/") + [grp(txt(w), txt(x))] + txt(mid) + [grp(txt(y), txt(z))]


def family_big():
    """around the limit of 1000 expansions (count only)"""
    def g(n, tag="a"):
        return grp(*[txt(tag + "%d" % i if n > 2 else (tag if i == 0 else "")) for i in range(n)])
    out = []
    out.append([x for i in range(10) for x in (ch(47), ch(120), g(2, "a"))])                      # /x{a,} ten times: 1024 > limit
    out.append([x for i in range(9) for x in (ch(47), ch(120), g(2, "a"))])                       # 512
    out.append(txt("/") + [g(10), ch(47), g(10, "b"), ch(47), g(10, "c")])                        # 1000 = limit
    out.append(txt("/") + [grp([g(10), ch(47), g(10, "b"), ch(47), g(10, "c")], txt("x"))])       # 1001
    out.append(txt("/") + [g(10), ch(47), g(10, "b"), ch(47), g(10, "c"), ch(47), g(2, "d")])     # 2000
    out.append(txt("/") + [grp([g(10), g(10, "b"), g(10, "c")], [g(10), g(10, "b"), g(10, "c")])])  # node-equal alternatives: 1000, not 2000
    out.append(txt("/") + [grp([g(10), g(10, "b"), g(10, "c")], [g(10), g(10, "b"), g(10, "d")])])  # 2000
    out.append(txt("/") + [g(10), g(10, "b"), g(5, "c"), g(4, "d")])                               # 2000
    out.append(txt("/") + [g(10), g(10, "b"), g(5, "c"), g(2, "d")])                               # 1000
    out.append(txt("/") + [g(10), g(10, "b"), g(9, "c")] )                                         # 900
    out.append(txt("/") + [grp(*[[g(10), g(10, "b")] for _ in range(11)])])                         # 11 node-equal alternatives of 100: 100
    out.append(txt("/") + [grp(*[[g(10), g(10, "b"), ch(48 + i)] for i in range(10)]), g(1, "z")])  # 10*100 = 1000
    out.append(txt("/") + [grp(*[[g(10), g(10, "b"), ch(48 + i)] for i in range(10)] + [txt("q")])])  # 1001
    return out


# ---------------------------------------------------------------------------------------------

STR_ALPHABET = "/a{},\\[*"          # pattern strings for the accept/reject table


def strings_domain(maxlen):
    out = []
    for n in range(maxlen + 1):
        for t in itertools.product(STR_ALPHABET, repeat=n):
            out.append("".join(t))
    # a few fixed shapes beyond the alphabet / length bound
    out += ["a", "a/b", "/a]", "/a\\]", "/a\\[b\\]", "/{a,{b,c}", "/{a,{b,c}}}", "/a/{b,c}/\\", "/a\\\\", "/a\\\\\\",
            "/{{{{{{a}}}}}}", "/" + "{" * 12 + "a" + "}" * 12, "/" + "{" * 12 + "a" + "}" * 11, "/a,b", "/{a,b},c",
            "/\\{a", "/\\}a", "/{\\},a}", "/{a\\,b}", "/{,}", "/{}", "/{{},{}}"]
    seen = set()
    res = []
    for s_ in out:
        if s_ not in seen:
            seen.add(s_)
            res.append(s_)
    return res


def build_domain(ctx, rnd):
    """-> list of (ast, big) without duplicates (by rendered string)"""
    fams = []
    if ctx.quick:
        fams.append(("plain", list(family_plain(3)), None))
        fams.append(("one-group", list(family_one_group()), 700))
        fams.append(("three-alts", list(family_three_alts()), 200))
        fams.append(("nested", list(family_nested()), 300))
        fams.append(("two-groups", list(family_two_groups()), 200))
        fams.append(("sibling-groups", list(family_sibling_groups()), None))
    else:
        fams.append(("plain", list(family_plain(4)), None))
        fams.append(("one-group", list(family_one_group()), 8000))
        fams.append(("three-alts", list(family_three_alts()), 4000))
        fams.append(("nested", list(family_nested()), 4000))
        fams.append(("two-groups", list(family_two_groups()), None))
        fams.append(("sibling-groups", list(family_sibling_groups()), None))
    seen = set()
    out = []
    sizes = {}
    for name, lst, k in fams:
        if k is not None and k < len(lst):
            lst = rnd.sample(lst, k)
        n0 = len(out)
        for a in lst:
            s_ = render(a)
            if s_ not in seen:
                seen.add(s_)
                out.append((a, False))
        sizes[name] = len(out) - n0
    for a in family_big():
        out.append((a, True))
    sizes["around-limit"] = len(family_big())
    return out, sizes


def codes(s_):
    return [ord(c) for c in s_]


def write_json(path, obj):
    with open(path, "w") as f:
        json.dump(obj, f, separators=(",", ":"))


def chunk(lst, n):
    per = (len(lst) + n - 1) // n if lst else 1
    return [lst[i:i + per] for i in range(0, len(lst), per)]


FEATURES = [("dupsep", "//"), ("stars3", "***"), ("dsds", "/**/**"), ("ds-star", "/**/*")]


def norm_class(ex, var):
    """Cause of a variant difference: the known normalisation rule(s) of parsePatternVariant at work, named
    only if the real variant string is exactly what the rules frozen in props/_doublestar.py produce;
    `unexpected` (other string) and `other` (no recognised rule) are never listed in known_findings.json."""
    return dsq.variant_cause(ex, var) or "other"


def match_class(direction, pattern, diffs):
    """`<direction>/<cause>` when the port of doublestar's in-place group substitution (props/_doublestar.py)
    reproduces the real result on every differing path, plain `<direction>` otherwise (never listed as known)."""
    cause = dsq.match_cause(pattern, [(d[0], d[1]) for d in diffs])
    return "%s/%s" % (direction, cause) if cause else direction


def table_violations(rows, out, totals, limit_tag=""):
    """Turn the NDJSON difference records of the drivers into Violations."""
    for r in rows:
        k = r.get("kind")
        if k == "glob":
            out.append(Violation(
                key="glob: PathPatternMatches(%s,%s)" % (rt.q(r["v"]), rt.q(r["path"])),
                desc="PathPatternMatches(%s,%s) = %s but the reference PPM (doublestar semantics + trailing-'/' rules) gives %s"
                     % (rt.q(r["v"]), rt.q(r["path"]), r["got"], r["exp"]), replay=r))
        elif k == "accept":
            cls = "accepts-invalid" if r["got_ok"] else "rejects-valid"
            out.append(Violation(
                key="%s: %s" % (cls, rt.q(r["p"])),
                desc="ParsePathPattern(%s) %s but the reference says it is %s%s"
                     % (rt.q(r["p"]), "succeeds" if r["got_ok"] else "fails (%s)" % r["err"],
                        "valid" if r["exp_ok"] else "invalid",
                        (" (%d expansions, limit %d)" % (r["ref_n"], LIMIT)) if r.get("ref_n", -1) >= 0 else ""), replay=r))
        elif k == "count":
            out.append(Violation(
                key="numvariants: %s" % rt.q(r["p"]),
                desc="%s: NumVariants() = %d, RenderAllVariants made %d callbacks (indices in order: %s), reference Len(Expand) = %s, limit %d"
                     % (rt.q(r["p"]), r["n"], r["calls"], r["idx_ok"], r["ref_n"] if r["ref_n"] >= 0 else "n/a", LIMIT), replay=r))
        elif k == "match":
            out.append(Violation(
                key="match[%s]: %s" % (match_class(r["dir"], r["p"], r.get("diffs") or [[r["path"], r["dir"] == "pattern-only"]]),
                                       rt.q(r["p"])),
                desc="PathPatternMatches(%s,%s) = %s but %s of its expansions %s matches that path (%d path(s) of the domain differ)"
                     % (rt.q(r["p"]), rt.q(r["path"]), r["dir"] == "pattern-only",
                        "none" if r["dir"] == "pattern-only" else "one", json.dumps(r["ex"]), r["npaths"]), replay=r))
        elif k == "normalise":
            if r["dir"] == "count":
                out.append(Violation(key="variant[count]: %s" % rt.q(r["p"]),
                                     desc="the variants enumerated for %s match differently from its expansions and their number differs" % rt.q(r["p"]),
                                     replay=r))
                continue
            out.append(Violation(
                key="variant[%s]: %s" % (norm_class(r["ex"], r["var"]), rt.q(r["ex"])),
                desc="expansion %s (of %s) is enumerated as variant %s, and PathPatternMatches(%s,%s) = %s but PathPatternMatches(%s,%s) = %s"
                     % (rt.q(r["ex"]), rt.q(r["p"]), rt.q(r["var"]), rt.q(r["ex"]), rt.q(r["path"]), r["dir"] == "expansion-only",
                        rt.q(r["var"]), rt.q(r["path"]), r["dir"] != "expansion-only"), replay=r))
        elif k == "variants":
            out.append(Violation(
                key="variants: PathPatternMatches(%s,%s)" % (rt.q(r["p"]), rt.q(r["path"])),
                desc="PathPatternMatches(%s,%s) = %s but the OR over its enumerated variants is %s"
                     % (rt.q(r["p"]), rt.q(r["path"]), r["pattern"], r["variants"]), replay=r))
        elif k == "hang":
            out.append(Violation(key="enumerate-hang: %s" % rt.q(r["p"]),
                                 desc="RenderAllVariants on the accepted pattern %s does not terminate (watchdog)" % rt.q(r["p"]), replay=r))
        elif k == "match-error":
            out.append(Violation(key="match-error", desc="PathPatternMatches returned an error %d times on parsed patterns" % r["n"], replay=r))
        elif k == "law":
            vs = r["variants"]
            out.append(Violation(
                key="precedence-%s: path=%s variants=%s" % (r["law"], rt.q(r["path"]), json.dumps(vs)),
                desc="on path %s the real PatternVariant.Compare / HighestPrecedencePattern violates '%s' for variants %s"
                     % (rt.q(r["path"]), r["law"], json.dumps(vs)), replay=r))
    return out


def klass(v):
    return v.key.split(":")[0]


def run(ctx):
    violations = []
    notes = []
    par = ctx.pick(4, 8)
    rnd = random.Random(ctx.seed)
    P = paths(not ctx.quick)
    pcodes = [codes(p) for p in P]
    dom, sizes = build_domain(ctx, rnd)
    ddir = ctx.subdir("domain")
    tabdir = ctx.subdir("tables")
    outdir = ctx.subdir("real")
    obsdir = ctx.subdir("obs")
    ctx.log("domain: %d patterns %s, %d paths" % (len(dom), sizes, len(P)))

    # ---- domain files: chunk i = a slice of the patterns (ASTs) + a slice of the pattern strings
    recs = [{"id": i + 1, "ast": a, "big": big} for i, (a, big) in enumerate(dom)]
    strs = strings_domain(ctx.pick(5, 6))
    nch = ctx.pick(2, 20)
    ex_chunks = chunk(recs, nch)
    st_chunks = chunk(strs, len(ex_chunks))
    while len(st_chunks) < len(ex_chunks):
        st_chunks.append([])
    ex_dom = []
    for i, c in enumerate(ex_chunks):
        pth = os.path.join(ddir, "pat_%02d.json" % i)
        write_json(pth, {"paths": pcodes, "patterns": c, "strings": [codes(x) for x in st_chunks[i]]})
        ex_dom.append(pth)
    # law domain: a small exhaustive core + a seeded sample of every family
    lawpats = [a for a in family_plain(ctx.pick(1, 2))]
    for fam in (family_one_group, family_three_alts, family_nested, family_two_groups):
        lawpats += rnd.sample(list(fam()), ctx.pick(12, 120))
    lawpats += family_big()[:2]
    lawrecs = [{"id": i + 1, "ast": a, "big": i >= len(lawpats) - 2} for i, a in enumerate(lawpats)]
    lawdom = os.path.join(ddir, "laws.json")
    write_json(lawdom, {"paths": pcodes, "patterns": lawrecs, "strings": []})
    empty = os.path.join(ddir, "empty.json")
    write_json(empty, {"paths": [], "patterns": [], "strings": []})

    def tab(mode, domfile, out, name):
        return lambda: rt.table(ctx, "PathPatternTable", "PathPatternTable.cfg", out,
                                {"VERIF_MODE": mode, "VERIF_DOMAIN": domfile}, name=name, timeout=ctx.pick(1200, 3000))

    # ---- phase 1 (parallel): build the driver, laws on the reference, expansion + Valid tables
    ex_tabs = [os.path.join(tabdir, "expand_%02d.json" % i) for i in range(len(ex_dom))]
    jobs = [lambda: goharness.ext_test_build(ctx, PKG),
            lambda: rt.laws(ctx, "PathPattern", "PathPattern_mc.cfg", env={"VERIF_DOMAIN": lawdom, "VERIF_MODE": "laws"},
                            min_states=len(lawrecs), workers=ctx.pick(1, 4), timeout=ctx.pick(1200, 3000))]
    jobs += [tab("expand", d, o, "tab_expand_%02d" % i) for i, (d, o) in enumerate(zip(ex_dom, ex_tabs))]
    res = rt.parallel(jobs, par)
    binary, mc = res[0], res[1]
    tlc_wall = sum(r.wall for r in res[1:])
    if mc.distinct != len(lawrecs):
        raise InfraError("laws: TLC explored %d states for %d patterns" % (mc.distinct, len(lawrecs)))
    ctx.log("laws on the reference: %d patterns ok (%.0fs); %d expansion/Valid tables" % (mc.distinct, mc.wall, len(ex_tabs)))

    # ---- real-only drivers (fast): accept/reject table, random observations, precedence
    randobs = os.path.join(obsdir, "random.ndjson")
    precobs = os.path.join(obsdir, "prec_all.ndjson")
    nrand = ctx.pick(200, 3000)
    jobs = [lambda: rt.drive(ctx, binary, "TestVerifC37Valid", os.path.join(outdir, "valid.ndjson"),
                             env={"VERIF_DOMAINS": ",".join(ex_dom), "VERIF_TABLES": ",".join(ex_tabs)}, timeout=1500),
            lambda: rt.drive(ctx, binary, "TestVerifC37Random", randobs, env={"VERIF_N": nrand, "VERIF_NPATHS": 6}, timeout=1500),
            lambda: rt.drive(ctx, binary, "TestVerifC37Precedence", precobs,
                             env={"VERIF_DOMAINS": ",".join(ex_dom), "VERIF_NSETS": ctx.pick(10, 150),
                                  "VERIF_POOL_MAX": ctx.pick(1500, 6000), "VERIF_TRIPLE_MAX": ctx.pick(120, 250)}, timeout=2400)]
    vrows, rrows, prows = rt.parallel(jobs, 3)

    vst = rt.stats_of(vrows)
    table_violations(vrows, violations, None)
    if vst["evaluations"] != len(strs):
        raise InfraError("Valid driver evaluated %d of %d strings" % (vst["evaluations"], len(strs)))
    if vst["accepted"] < 10 or vst["rejected"] < 10:
        raise InfraError("vacuity guard: Valid domain has %d accepted / %d rejected strings" % (vst["accepted"], vst["rejected"]))
    ctx.log("accept/reject: %d pattern strings (%d accepted, %d rejected), %d differences" % (len(strs), vst["accepted"], vst["rejected"], vst["bad"]))
    pst = rt.stats_of(prows)
    table_violations(prows, violations, None)
    if pst["sets"] < 10 or pst["max_matching"] < 3:
        raise InfraError("vacuity guard: precedence driver recorded %d sets, max %d matching variants" % (pst["sets"], pst["max_matching"]))
    ctx.log("precedence on real outputs: pool %d variants, %d compares, %d triples, %d permutations, %d law violations"
            % (pst["pool"], pst["compares"], pst["triples"], pst["permutations"], pst["law_violations"]))

    # ---- phase 2 (parallel): glob tables for the distinct expansions (T->I) and validation of the
    #      recorded observations (I->T). Binding canaries ride along as cases 0 and -1 of chunk 0.
    distinct = {}
    nexp = 0
    for t in ex_tabs:
        with open(t) as f:
            for row in json.load(f)["rows"]:
                for v in row["ex"]:
                    nexp += 1
                    distinct.setdefault(tuple(v), None)
    variants = sorted(distinct, key=lambda v: (len(v), v))
    gl_chunks = chunk(variants, ctx.pick(2, 20))
    gl_dom, gl_tabs = [], []
    for i, c in enumerate(gl_chunks):
        pth = os.path.join(ddir, "glob_%02d.json" % i)
        write_json(pth, {"paths": pcodes, "patterns": [], "strings": [list(v) for v in c]})
        gl_dom.append(pth)
        gl_tabs.append(os.path.join(tabdir, "glob_%02d.json" % i))

    sets = [r for r in prows if r.get("kind") == "set"]
    okcases = [o for o in rrows if o["ok"] and o["m"] and o["m"][0] in (0, 1)]
    if len(okcases) < 2 or len(sets) < 2:
        raise InfraError("drivers produced too few observations (%d accepted random patterns, %d sets)" % (len(okcases), len(sets)))
    c1 = json.loads(json.dumps(okcases[0]))
    c1["case"] = 0
    c1["m"][0] = 1 - c1["m"][0]                                     # one match result flipped
    c2 = json.loads(json.dumps(okcases[1]))
    c2["case"] = -1
    c2["n"] += 1                                                   # NumVariants and callbacks off by one
    c2["calls"] += 1
    s1 = json.loads(json.dumps(sets[0]))
    s1["case"] = 0
    s1["winners"][-1] = 1 + (s1["winners"][-1] % s1["k"])          # one permutation picks another variant
    s2 = json.loads(json.dumps(sets[1]))
    s2["case"] = -1
    s2["cmp"][0][1] = s2["cmp"][1][0]                              # asymmetry broken
    canaries = [c1, c2, s1, s2]
    nobs_chunks = ctx.pick(2, 12)
    r_parts = chunk(rrows, nobs_chunks)
    s_parts = chunk(sets, nobs_chunks)
    obs_files = []
    for i in range(max(len(r_parts), len(s_parts))):
        part = (canaries if i == 0 else []) + (r_parts[i] if i < len(r_parts) else []) + (s_parts[i] if i < len(s_parts) else [])
        pth = os.path.join(obsdir, "obs_%02d.ndjson" % i)
        common.write_ndjson(pth, part)
        obs_files.append((pth, len(part)))
    robs = {o["case"]: o for o in rrows}
    sobs = {o["case"]: o for o in sets}

    def val(pth, tag):
        return lambda: rt.validate_obs(ctx, "TracePathPattern", "TracePathPattern.cfg", pth,
                                       os.path.join(obsdir, "verdict_%s.json" % tag), name="obs_%s" % tag,
                                       env={"VERIF_DOMAIN": empty}, timeout=ctx.pick(1200, 3000))
    jobs = [tab("glob", d, o, "tab_glob_%02d" % i) for i, (d, o) in enumerate(zip(gl_dom, gl_tabs))]
    ng = len(jobs)
    jobs += [val(pth, "%02d" % i) for i, (pth, _n) in enumerate(obs_files)]
    res = rt.parallel(jobs, par)
    tlc_wall += sum(r.wall for r in res[:ng])
    ores = res[ng:]
    ctx.log("tabulated PPM for %d distinct expansions (of %d) x %d paths in %d TLC runs; %d observation files validated"
            % (len(variants), nexp, len(P), ng, len(obs_files)))

    # ---- phase 3: the real code on the whole tabulated domain; T->I canary = corrupted copies of
    #      one glob row and one expansion row, seen only by a second run of the Go driver
    with open(gl_tabs[0]) as f:
        g0 = json.load(f)
    with open(gl_dom[0]) as f:
        g0d = json.load(f)
    gi = next(i for i, row in enumerate(g0["rows"]) if row)          # a variant that matches something
    canary_v = "".join(chr(c) for c in g0d["strings"][gi])
    g0["rows"][gi] = g0["rows"][gi][1:]
    g0bad = os.path.join(tabdir, "glob_00_corrupt.json")
    write_json(g0bad, g0)
    ec = ei = None
    for ci, t in enumerate(ex_tabs):
        with open(t) as f:
            e0 = json.load(f)
        ei = next((i for i, row in enumerate(e0["rows"]) if row["n"] >= 2 and row["ex"]), None)
        if ei is not None:
            ec = ci
            break
    if ec is None:
        raise InfraError("vacuity guard: no pattern of the domain has two expansions")
    e0["rows"][ei]["n"] -= 1
    e0["rows"][ei]["ex"] = e0["rows"][ei]["ex"][:-1]
    canary_p = render(ex_chunks[ec][ei]["ast"])
    e0bad = os.path.join(tabdir, "expand_corrupt.json")
    write_json(e0bad, e0)

    def table_drv(tag, doms, exps, gtabs):
        return lambda: rt.drive(ctx, binary, "TestVerifC37Table", os.path.join(outdir, "table_%s.ndjson" % tag),
                                env={"VERIF_DOMAINS": ",".join(doms), "VERIF_EXPAND": ",".join(exps),
                                     "VERIF_GLOBDOM": ",".join(gl_dom), "VERIF_GLOB": ",".join(gtabs),
                                     "VERIF_MAX_MISMATCH": 100000}, timeout=2400)
    trows, crows = rt.parallel([table_drv("all", ex_dom, ex_tabs, gl_tabs),
                                table_drv("canary", [ex_dom[ec]], [e0bad], [g0bad] + gl_tabs[1:])], 2)
    canary_trouble = []      # presence tests; fatal (exit 2) only when the run found no violation at all, see the end
    if not any(r.get("kind") == "glob" and r["v"] == canary_v for r in crows):
        canary_trouble.append("a corrupted glob-table row for %r was not among the differences reported by the driver" % canary_v)
    if not any(r.get("kind") == "count" and r["p"] == canary_p for r in crows):
        canary_trouble.append("a corrupted expansion row for %r was not among the differences reported by the driver" % canary_p)
    tst = rt.stats_of(trows)
    if tst["patterns"] != len(dom):
        raise InfraError("table driver evaluated %d of %d patterns" % (tst["patterns"], len(dom)))
    table_violations(trows, violations, None)
    ctx.log("real code on %d patterns x %d paths: differences by kind %s" % (tst["patterns"], tst["paths"], tst["total"]))

    # ---- I->T verdicts
    checked = pchecked = rand_bad = 0
    canary_hit = set()
    for (v, _ok), (_pth, n) in zip(ores, obs_files):
        if v["checked"] != n:
            raise InfraError("I->T: %d observations written, %d validated" % (n, v["checked"]))
        for b in v["bad"]:
            if b["case"] <= 0:
                canary_hit.add((b["kind"], b["case"]))
                continue
            if b["kind"] == "set":
                o = sobs[b["case"]]
                failed = [k for k in ("noerror", "irreflexive", "asymmetric", "transitive", "tiesidentical", "winnersmax", "oneclass") if not b[k]]
                violations.append(Violation(
                    key="precedence-order: path=%s variants=%s" % (rt.q(o["path"]), json.dumps(o["vs"])),
                    desc="recorded Compare matrix / winners for variants %s on path %s rejected by TracePathPattern (%s)"
                         % (json.dumps(o["vs"]), rt.q(o["path"]), ",".join(failed)), replay=o))
                continue
            o = robs[b["case"]]
            rand_bad += 1
            if b["exp_ok"] != b["got_ok"]:
                cls = "accepts-invalid" if b["got_ok"] else "rejects-valid"
                violations.append(Violation(key="%s: %s" % (cls, rt.q(o["s"])),
                                            desc="ParsePathPattern(%s): accepted=%s, the reference says %s (%d expansions; random case %d, seed %d)"
                                                 % (rt.q(o["s"]), b["got_ok"], b["exp_ok"], b["exp_n"], b["case"], ctx.seed), replay=o))
            elif b["got_n"] != b["exp_n"] or b["got_n"] != b["got_calls"] or b["got_n"] > LIMIT:
                violations.append(Violation(key="numvariants: %s" % rt.q(o["s"]),
                                            desc="%s: NumVariants() = %d, callbacks = %d, reference Len(Expand) = %d (random case %d, seed %d)"
                                                 % (rt.q(o["s"]), b["got_n"], b["got_calls"], b["exp_n"], b["case"], ctx.seed), replay=o))
            else:
                j = next(i for i, (e, g) in enumerate(zip(b["exp_m"], b["got_m"])) if e != g)
                d = "pattern-only" if b["got_m"][j] == 1 else ("expansions-only" if b["got_m"][j] == 0 else "error")
                rdiffs = [(o["spaths"][i], g == 1) for i, (e, g) in enumerate(zip(b["exp_m"], b["got_m"])) if e != g]
                violations.append(Violation(
                    key="match[%s]: %s" % (match_class(d, o["s"], rdiffs) if d != "error" else d, rt.q(o["s"])),
                    desc="PathPatternMatches(%s,%s) = %s but RefMatch (some expansion matches) = %s (random case %d, seed %d)"
                         % (rt.q(o["s"]), rt.q(o["spaths"][j]), b["got_m"][j], b["exp_m"][j], b["case"], ctx.seed),
                    replay={"pattern": o["s"], "path": o["spaths"][j], "real": b["got_m"][j], "reference": b["exp_m"][j], "n": o["n"]}))
    want = {("match", 0), ("match", -1), ("set", 0), ("set", -1)}
    if not want <= canary_hit:
        canary_trouble.append("corrupted observations accepted by TracePathPattern: %s" % sorted(want - canary_hit))
    checked, pchecked = len(rrows), len(sets)
    if checked != nrand:
        raise InfraError("I->T: %d random observations requested, %d recorded" % (nrand, checked))
    rand_or_diff = sum(1 for o in rrows if o["ok"] and o["m"] != o["or_variants"])
    ctx.log("I->T: %d random patterns and %d precedence sets (all permutations) validated by TLC; %d random patterns differ from the "
            "reference, %d from the OR over their own variants" % (checked, pchecked, rand_bad, rand_or_diff))

    # ---- de-duplicate, cap per class
    seen = set()
    uniq = []
    for v in violations:
        if v.key not in seen:
            seen.add(v.key)
            uniq.append(v)
    uniq.sort(key=lambda v: (len(v.key), v.key))
    byclass = {}
    for v in uniq:
        byclass[klass(v)] = byclass.get(klass(v), 0) + 1
    cap = 25
    kept = []
    cnt = {}
    for v in uniq:
        c = klass(v)
        cnt[c] = cnt.get(c, 0) + 1
        if cnt[c] <= cap:
            kept.append(v)
    rank = {}
    order = []
    for v in kept:
        rank[klass(v)] = rank.get(klass(v), 0) + 1
        order.append((rank[klass(v)], klass(v), v))
    kept = [v for _r, _c, v in sorted(order, key=lambda x: (x[0], x[1]))]
    if canary_trouble and not kept:
        raise InfraError("binding canary: " + "; ".join(canary_trouble))
    if canary_trouble:
        notes.append("binding canary trouble (not fatal, the run has violations): " + "; ".join(canary_trouble))
    if len(kept) < len(uniq):
        notes.append("%d distinct violation keys in %d classes; the %d shortest keys of every class are reported (see violations_by_class)"
                     % (len(uniq), len(byclass), cap))

    samples = []
    for o in rrows[:3]:
        if o["ok"] and o["spaths"]:
            samples.append({"pattern": o["s"], "NumVariants": o["n"], "path": o["spaths"][0], "PathPatternMatches": o["m"][0]})
    for sset in sets[:2]:
        samples.append({"path": sset["path"], "variants": sset["vs"], "Compare": sset["cmp"],
                        "HighestPrecedencePattern(every permutation)": sorted(set(sset["vs"][w - 1] for w in sset["winners"] if w))})
    for r in trows:
        if r.get("kind") in ("match", "normalise") and len(samples) < 8:
            samples.append({k: r[k] for k in r if k != "ex" or len(r["ex"]) < 6})

    evals = tst["evaluations"] + vst["evaluations"] + pst["compares"] + pst["permutations"] + pst["highest_calls"] \
        + sum(1 + len(o["m"]) for o in rrows)
    cov = {
        "evaluations": evals,
        "distinct_nontrivial": tst["distinct_match_sets"],
        "rule": "real PathPatternMatches(p,path) == OR over Expand(p) of PathPatternMatches(v,path) == OR over the enumerated "
                "variants; real brace-less matching == PathPattern!PPM; NumVariants == callbacks == Len(PathPattern!Expand) <= 1000; "
                "ParsePathPattern accepts exactly PathPattern!Valid /\\ Accepted; Compare is a strict weak order on the variants "
                "matching a path and HighestPrecedencePattern returns its maximum for every permutation",
        "samples": samples,
        "domain": {"patterns": len(dom), "families": sizes, "paths": len(P), "pattern_strings_accept_reject": len(strs),
                   "distinct_expansions": len(variants), "expansions": nexp},
        "table": {k: tst[k] for k in ("patterns", "accepted", "rejected", "count_only", "variants", "glob_strings", "paths",
                                      "distinct_match_sets", "order_exact", "refmatch_diff_pairs",
                                      "pattern_vs_variants_diff_pairs", "hist", "total", "match_errors")},
        "accept_reject": {k: vst[k] for k in ("evaluations", "accepted", "rejected", "bad", "reasons")},
        "precedence_on_real": {k: pst[k] for k in pst if k != "kind"},
        "random_observations_validated_by_tlc": checked,
        "random_differences": rand_bad,
        "random_patterns_differing_from_own_variants": rand_or_diff,
        "precedence_sets_validated_by_tlc": pchecked,
        "violations_by_class": byclass,
        "tlc_law_states": mc.distinct,
        "tlc_law_invariants": ["CountIsLen", "OptimizeNeutral", "ExpansionsPlain", "RenderedValid", "SlashRules",
                               "EscapeIsLiteral", "EscapedStarLiteral"],
        "tlc_constants": {"Limit": LIMIT, "paths": len(P), "law_patterns": len(lawrecs)},
        "tlc_table_runs": len(ex_tabs) + len(gl_tabs),
        "tlc_observation_runs": len(obs_files),
        "tlc_jvm_seconds": round(tlc_wall),
        "binding_canaries": "corrupted glob row, corrupted expansion row, corrupted random observations (match bit, count) and "
                            "corrupted precedence observations (winner, asymmetry) all rejected and named",
    }
    return Result(level="exploration", coverage=cov,
                  assumptions=[
                      "brace-less matching is the behaviour of doublestar v4.6.1 Match as transcribed in PathPattern!DS (including its "
                      "end-of-name rule: what is left of the pattern must be one of \"\", *, **, /**, **/, /**/), calibrated on the whole domain",
                      "paths contain no repeated '/', no wildcard or escape characters (path alphabet a b / in the table, "
                      "a-c x-z . - _ 0 in random cases); pattern bytes are ASCII",
                      "precedence is checked on the real Compare outputs (I->T): the reference states the order laws, it does not "
                      "re-derive the regular-expression submatches",
                  ],
                  violations=kept, notes=notes)
