"""C37 -- path patterns match exactly their expansions; counts; rejection; precedence order-independent.

(work in progress: generator)
"""
import itertools
import json
import os
import random

from lib import common, goharness
from lib.common import Result, Violation, InfraError
from props import _reftables as rt

PKG = "pathpat"
LIMIT = 1000

# ---------------------------------------------------------------------------------------------
# The bounded domain. Patterns are ASTs (see spec/PathPattern.tla): item = {"c": byte, "alts": []}
# or {"c": 0, "alts": [[item...], ...]}.


def ch(c):
    return {"c": c, "alts": []}


def grp(*alts):
    return {"c": 0, "alts": [list(a) for a in alts]}


def txt(s):
    """plain text (may contain '\\' escapes, wildcards, '/') -> items"""
    return [ch(ord(c)) for c in s]


def render(items):
    out = []
    for it in items:
        if it["c"]:
            out.append(chr(it["c"]))
        else:
            out.append("{" + ",".join(render(a) for a in it["alts"]) + "}")
    return "".join(out)


ATOMS8 = ["a", "b", "/", "?", "*", "**", "\\a", "\\*"]
ATOMS5 = ["a", "/", "?", "*", "**"]


def seqs(atoms, maxlen):
    for n in range(maxlen + 1):
        for t in itertools.product(atoms, repeat=n):
            yield "".join(t)


def paths(depth3):
    """'/', and every path of <= 2 segments over {a, b, ab} (with and without trailing '/'), plus
    3-segment paths over {a, b} (thorough: over {a, b, ab})."""
    out = ["/"]
    for n in (1, 2, 3):
        segs = ["a", "b", "ab"] if (n < 3 or depth3) else ["a", "b"]
        for t in itertools.product(segs, repeat=n):
            p = "/" + "/".join(t)
            out += [p, p + "/"]
    return out


ALTS = sorted(set(seqs(ATOMS5, 2)) | {"b", "\\*", "a/b"}, key=lambda s: (len(s), s))
PRE = ["", "a", "a/", "*", "**/", "?"]
SUF = ["", "a", "/", "/a", "*", "/**", "**"]
SMALL = ["", "a", "b", "/", "*", "**"]


def family_plain(maxatoms):
    for s in seqs(ATOMS8, maxatoms):
        yield txt("/" + s)


def family_one_group():
    """/pre{x,y}suf for all ordered pairs of alternatives (x = y included: node-equal duplicates)"""
    for pre in PRE:
        for suf in SUF:
            for x in ALTS:
                for y in ALTS:
                    yield txt("/" + pre) + [grp(txt(x), txt(y))] + txt(suf)


def family_three_alts():
    pool = ["", "a", "/", "*", "**", "/a", "a/", "**/"]
    for pre in ["", "a", "a/"]:
        for suf in ["", "a", "/a", "/"]:
            for t in itertools.product(pool, repeat=3):
                yield txt("/" + pre) + [grp(*[txt(x) for x in t])] + txt(suf)


def family_nested():
    for pre in ["", "a", "a/"]:
        for suf in ["", "/", "a"]:
            for x, y, z in itertools.product(SMALL, repeat=3):
                yield txt("/" + pre) + [grp(txt(x), [grp(txt(y), txt(z))])] + txt(suf)            # {x,{y,z}}
                yield txt("/" + pre) + [grp(txt(x) + [grp(txt(y), txt(z))], txt(x + y))] + txt(suf)  # {x{y,z},xy}
                yield txt("/" + pre) + [grp([grp(txt(y), txt(z))] + txt(x), txt(z))] + txt(suf)      # {{y,z}x,z}
    for w, x, y, z in itertools.product(["", "a", "/", "*"], repeat=4):
        yield txt("/") + [grp([grp(txt(w), txt(x))], [grp(txt(y), txt(z))])]                       # {{w,x},{y,z}}
        yield txt("/a") + [grp(txt(w), [grp(txt(x), [grp(txt(y), txt(z))])])]                       # {w,{x,{y,z}}}


def family_two_groups():
    pool = ["", "a", "/", "*", "**"]
    for mid in ["", "/", "a", "*"]:
        for w, x, y, z in itertools.product(pool, repeat=4):
            yield txt("/") + [grp(txt(w), txt(x))] + txt(mid) + [grp(txt(y), txt(z))]


def family_big():
    """around the limit of 1000 expansions (count only)"""
    def g(n, tag="a"):
        return grp(*[txt(tag + "%d" % i if n > 2 else (tag if i == 0 else "")) for i in range(n)])
    out = []
    out.append(txt("/") + [x for i in range(10) for x in (g(2, "a"), ch(47))])                    # 2^10 = 1024 > limit
    out.append(txt("/") + [x for i in range(9) for x in (g(2, "a"), ch(47))])                     # 512
    out.append(txt("/") + [g(10), ch(47), g(10, "b"), ch(47), g(10, "c")])                        # 1000 = limit
    out.append(txt("/") + [grp([g(10), ch(47), g(10, "b"), ch(47), g(10, "c")], txt("x"))])       # 1001
    out.append(txt("/") + [g(10), ch(47), g(10, "b"), ch(47), g(10, "c"), ch(47), g(2, "d")])     # 2000
    out.append(txt("/") + [grp([g(10), g(10, "b"), g(10, "c")], [g(10), g(10, "b"), g(10, "c")])])  # node-equal alternatives: 1000, not 2000
    out.append(txt("/") + [grp([g(10), g(10, "b"), g(10, "c")], [g(10), g(10, "b"), g(10, "d")])])  # 2000
    out.append(txt("/") + [g(10), g(10, "b"), g(5, "c"), g(4, "d")])                               # 2000
    out.append(txt("/") + [g(10), g(10, "b"), g(5, "c"), g(2, "d")])                               # 1000
    out.append(txt("/") + [g(10), g(10, "b"), g(9, "c")] )                                         # 900
    out.append(txt("/") + [grp(*[[g(10), g(10, "b")] for _ in range(11)])])                         # 11 node-equal alternatives of 100: 100
    out.append(txt("/") + [grp(*[[g(10), g(10, "b"), ch(48 + i)] for i in range(10)]), g(1, "z")])  # 10*100 = 1000
    out.append(txt("/") + [grp(*[[g(10), g(10, "b"), ch(48 + i)] for i in range(10)] + [txt("q")])])  # 1001
    return out
