"""E02 -- the aliases state machine (spec: Aliases.tla, trace spec: TraceAliases.tla).

Statement (from the doc comments of overlord/snapstate/aliasesv2.go, handlers.go "aliases v2", snapmgr.go SnapState):
 (a) at every settled state the aliases on the system are exactly those the recorded per-snap alias state
     (AutoAliasesDisabled, AliasesPending, Aliases with Auto/Manual targets) implies           -> SysMatchesState,
     NoPendingWhenSettled
 (b) no alias name is ever enabled for two snaps at once; conflicts are refused or resolved by prefer, which disables
     the other snap's aliases; no alias shadows the command namespace of an installed snap      -> NoDoubleAlias,
     NoNamespaceClash
 (c) manual aliases survive refreshes and override auto ones; auto aliases follow the snap-declaration across
     refreshes unless disabled                                                                -> RefreshKeepsManualFollowsDecl
 (d) a failed alias-changing change restores the previous alias state and system view          -> FailedChangeRestores

design:       TLC checks (a)-(d) on Aliases exhaustively (2 snaps, 2-3 alias names, 2 apps, every request kind, a
              fault on entry / at a backend alias operation of any task).  Faults inside prefer-aliases' SECOND backend
              operation are kept in a separate config that is EXPECTED to produce a counterexample (finding F1).
conformance:  the overlay driver TestVerifAliases drives the REAL snapstate.Alias / RemoveManualAlias /
              DisableAllAliases / Prefer / Install / Update / UpdateMany / Remove through the real task runner with
              the snap-declaration auto-aliases mocked through snapstate.AutoAliases, the alias backend operations
              executed by the real backend.Backend, and faults; every finished task is logged with the real per-snap
              alias state and the symlinks on disk.  TLC validates the log against TraceAliases: each step must be the
              spec's step (strict) and (a)-(d) are evaluated on the real states.
"""
import json
import os

from lib import common, tlc, goharness
from lib.common import Result, Violation, InfraError
from props import _conformance as conf

OVERLAY = [os.path.join(common.HARNESS, "overlay", "snapstate", "zz_verif_aliases_test.go")]
INVS = ["TypeOK", "SysMatchesState", "NoPendingWhenSettled", "NoDoubleAlias", "NoNamespaceClash",
        "RefreshKeepsManualFollowsDecl", "FailedChangeRestores"]
ACTIONS = ["Decl", "RequestRefused", "Request", "ADo", "AUndo", "Settle"]
WORKERS = 4     # shared machine


def _op_summary(op):
    k = op["kind"]
    if k == "alias":
        return "alias(%s.%s,%s)" % (op["s"], op["app"], op["n"])
    if k == "unalias":
        return "unalias(%s)" % op["n"]
    if k == "install":
        return "install(%s,%s)" % (op["s"], op["flag"])
    if k == "refreshdecl":
        return "refresh-all"
    return "%s(%s)" % (k, op["s"])


def _steps(evs):
    """driver replay format (VERIF_REPLAY) + a readable history of the case events `evs`"""
    steps, hist, inst = [], [], []
    for e in evs:
        if e["ev"] == "Reset":
            inst = sorted(s for s, v in e["st"]["inst"].items() if v)
        elif e["ev"] == "Decl":
            steps.append({"decl": {"s": e["s"], "d": e["d"]}})
            hist.append("decl(%s)=%s" % (e["s"], json.dumps({k: v for k, v in e["d"].items() if v}, sort_keys=True)))
        elif e["ev"] == "Request":
            steps.append({"op": e["op"]})
            h = _op_summary(e["op"])
            if e.get("fault", {}).get("idx"):
                t = e["tasks"][e["fault"]["idx"] - 1]
                h += " [fault %s at %s%s]" % (e["fault"]["mode"], t["real"], "(%s)" % t["s"] if t["s"] else "")
            if not e["ok"]:
                h += " -> refused"
            hist.append(h)
        elif e["ev"] == "Settle":
            hist[-1] += " -> %s" % e["status"]
    return inst, steps, hist


def _last_request(evs):
    for e in reversed(evs):
        if e["ev"] == "Request":
            return e
    return None


def _fault_tag(req, evs=None):
    """the injected fault of request `req`; "nofault" if none was armed or the armed one never hit (evs: events of the case)"""
    if req is None:
        return "-"
    f = req.get("fault", {})
    if not f.get("idx"):
        return "nofault"
    if evs is not None:
        hit, seen = False, False
        for e in evs:
            if e is req:
                seen = True
            elif seen and e["ev"] == "Fail" and e.get("mode") in ("entry", "op"):
                hit = True
            elif seen and e["ev"] in ("Settle", "Request"):
                break
        if not hit:
            return "nofault"
    return "%s@%s" % (req["tasks"][f["idx"] - 1]["real"], f["mode"])


def _state_brief(st):
    rec = {s: {"dis": r["dis"], "pend": r["pend"], "al": {n: e for n, e in r["al"].items() if e["m"] or e["a"]}}
           for s, r in st["rec"].items() if st["inst"][s]}
    return {"state": rec, "system": {n: "%s.%s" % (t["s"], t["a"]) for n, t in st["sys"].items() if t["s"]}}


def _mk_violation(rows, line, inv, mode):
    evs = conf.case_events(rows, line)
    req = _last_request(evs)
    inst, steps, hist = _steps(evs)
    opsum = _op_summary(req["op"]) if req else "-"
    ftag = _fault_tag(req, evs)
    key = "E02/%s/%s %s" % (inv, ftag, opsum)
    # an earlier change of the history that failed with an injected fault is part of the input
    prev, cur = None, None
    for e in evs:
        if e["ev"] == "Request" and e["ok"]:
            cur = e
        elif e["ev"] == "Settle" and cur is not None:
            if e["status"] == "Error" and cur.get("fault", {}).get("idx") and cur is not req:
                prev = cur
            cur = None
    if prev is not None:
        key += " after %s %s" % (_fault_tag(prev, evs), _op_summary(prev["op"]))
    last = evs[-1]
    desc = ("real snapstate alias code violates %s after %s (fault: %s); %s; history: %s"
            % (inv, opsum, ftag, json.dumps(_state_brief(last["st"]), sort_keys=True), " ; ".join(hist)))
    return Violation(key=key, desc=desc,
                     replay={"history": {"id": "replay", "inst": inst, "steps": steps}, "readable": hist,
                             "invariant": inv, "line": line, "mode": mode, "case": last["case"],
                             "real_post_state": last["st"]})


def _first_per_case(rows, pairs):
    """later violations of the same invariant in the same history are consequences of the first one"""
    seen, out = set(), []
    for line, inv in sorted(pairs):
        k = (rows[line - 1]["case"], inv)
        if k not in seen:
            seen.add(k)
            out.append((line, inv))
    return out


def _viol_lines(out):
    """VERIF-VIOL lines printed by TraceAliases!Monitor: (line of the event whose post-state violates, invariant)"""
    res = set()
    for ln in out.split("\n"):
        ln = ln.strip()
        if ln.startswith('<<"VERIF-VIOL"'):
            parts = ln.strip("<>").split(",")
            res.add((int(parts[1].strip()), parts[2].strip().strip('"')))
    return sorted(res)


def _corrupt(rows, rng):
    cands = [i for i, r in enumerate(rows) if r["ev"] == "Do" and r.get("k") == "alias"]
    if not cands:
        return None
    i = rng.choice(cands)
    # the manual target the real alias task stored: flip it
    for s, rec in sorted(rows[i]["st"]["rec"].items()):
        for n, e in sorted(rec["al"].items()):
            if e["m"]:
                e["m"] = "c1" if e["m"] != "c1" else "c2"
                return "line %d: rec[%s].al[%s].manual flipped" % (i + 1, s, n)
    return None


def _validate(ctx, cfg, rows, path, name, timeout):
    """strict pass; on a stuck step a lenient pass classifies it. Returns (violations, n_states)"""
    violations = []
    tv = tlc.validate_trace(ctx, "TraceAliases", cfg, path, timeout=timeout, name="strict_" + name)
    for line, inv in _first_per_case(rows, _viol_lines(tv["res"].out)):
        violations.append(_mk_violation(rows, line, inv, "strict"))
    if tv["accepted"]:
        return violations, tv["res"].distinct
    if tv["invariant"]:
        raise InfraError("trace validation %s: unexpected invariant stop %s" % (name, tv["invariant"]))
    stuck = tv["stuck_line"]
    lv = tlc.validate_trace(ctx, "TraceAliases", cfg, path, timeout=timeout, name="lenient_" + name,
                            env={"VERIF_STRICT": "0"})
    if not lv["accepted"]:
        raise InfraError("alias trace %s: lenient pass stuck at line %s (driver log inconsistent); strict stuck at %s"
                         % (name, lv["stuck_line"], stuck))
    seen = set(v.key for v in violations)
    new = []
    for line, inv in _first_per_case(rows, _viol_lines(lv["res"].out)):
        v = _mk_violation(rows, line, inv, "lenient (strict validation stuck at line %d)" % stuck)
        if v.key not in seen:
            seen.add(v.key)
            new.append(v)
    if not new:
        evs = conf.case_events(rows, stuck)
        _, _, hist = _steps(evs)
        last = evs[-1]
        raise InfraError("alias trace %s: real step %s(idx=%s, %s) at line %d deviates from Aliases.tla without violating "
                         "any E02 invariant -- model/code divergence to triage (history: %s)"
                         % (name, last["ev"], last.get("idx"), last.get("k") or last.get("op"), stuck, " ; ".join(hist)))
    return violations + new, lv["res"].distinct


def _design_main(ctx):
    cfg = ctx.pick("Aliases_mc.cfg", "Aliases_mc_thorough.cfg")
    if ctx.selftest or ctx.replay:
        cfg = "Aliases_mc_tiny.cfg"
    mc = tlc.run(ctx, "Aliases", cfg, coverage=True, workers=WORKERS, timeout=ctx.pick(1800, 7200), heap=ctx.pick("6g", "10g"))
    if not mc.ok:
        raise InfraError("spec-level counterexample in Aliases/%s: %s" % (cfg, mc.summary()))
    tlc.require_coverage(mc, ACTIONS)
    ctx.log("TLC %s: %d distinct / %d generated, depth %d, %.0fs" % (cfg, mc.distinct, mc.generated, mc.depth, mc.wall))
    return cfg, mc


def _design_small(ctx):
    extra = {}
    if ctx.selftest or ctx.replay:
        return extra, None
    # finding F1 at design level: with a fault at the SECOND backend operation of prefer-aliases the spec (a faithful
    # transcription of doPreferAliases) has a counterexample to (a)/(d); TLC must find it, otherwise the spec no longer
    # transcribes the code (or the code was repaired: then AfterFailedOp has to follow).
    bad = tlc.run(ctx, "Aliases", "Aliases_mc_op2.cfg", workers=1, timeout=1800, name="tlc_op2")
    if bad.kind != "invariant" or bad.name not in ("FailedChangeRestores", "SysMatchesState"):
        raise InfraError("expected a FailedChangeRestores/SysMatchesState counterexample with op2 faults, got %s" % bad.summary())
    ctx.log("TLC Aliases_mc_op2.cfg: expected counterexample to %s found (%d states)" % (bad.name, len(bad.trace)))
    # finding F2 at design level: remove failing at discard-snap (after clear-snap), then removed again
    bad2 = tlc.run(ctx, "Aliases", "Aliases_mc_f2.cfg", workers=1, timeout=1800, name="tlc_f2")
    if bad2.kind != "invariant" or bad2.name != "SysMatchesState":
        raise InfraError("expected a SysMatchesState counterexample with late remove faults, got %s" % bad2.summary())
    ctx.log("TLC Aliases_mc_f2.cfg: expected counterexample to %s found (%d states)" % (bad2.name, len(bad2.trace)))
    extra["expected_counterexample_f2"] = {"invariant": bad2.name, "length": len(bad2.trace)}
    for nm, c in (("namespace", "Aliases_mc_ns.cfg"), ("raaux", "Aliases_mc_raaux.cfg")):
        r = tlc.run(ctx, "Aliases", c, workers=ctx.pick(1, 2), timeout=ctx.pick(1800, 3600), name="tlc_" + nm)
        if not r.ok:
            raise InfraError("spec-level counterexample in Aliases/%s: %s" % (c, r.summary()))
        extra[nm] = {"config": c, "states": r.distinct, "transitions": r.generated, "wall_s": round(r.wall, 1)}
        ctx.log("TLC %s: %d distinct / %d generated, %.0fs" % (c, r.distinct, r.generated, r.wall))
    return extra, bad


def run(ctx):
    # the three parts are independent: run them side by side (TLC: 4 + 1 workers, trace validation: 1)
    from concurrent.futures import ThreadPoolExecutor
    with ThreadPoolExecutor(3) as ex:
        f_main = ex.submit(_design_main, ctx)
        f_small = ex.submit(_design_small, ctx)
        f_conf = ex.submit(_conformance, ctx)
        cfg, mc = f_main.result()
        extra, bad = f_small.result()
        uniq, totals, samples, corrupt, n_states = f_conf.result()
    notes = [] if bad is None else [
             "design: a failure of prefer-aliases' second backend operation breaks %s (TLC counterexample of %d states, "
             "Aliases_mc_op2.cfg)" % (bad.name, len(bad.trace)),
             "design: a remove failing at discard-snap followed by another remove leaves aliases of the removed snap on the "
             "system (TLC counterexample to SysMatchesState, Aliases_mc_f2.cfg)"]
    return _result(ctx, cfg, mc, extra, bad, uniq, totals, samples, corrupt, n_states, notes)


def _conformance(ctx):
    # ---------------------------------------------------------------- conformance
    tb = goharness.overlay_test_build(ctx, "overlord/snapstate", OVERLAY)
    cwd = os.path.join(common.REPO, "overlord", "snapstate")
    tdir = ctx.subdir("traces")
    plan = [("default", "TraceAliases.cfg", {"VERIF_N": ctx.pick(25, 500), "VERIF_ENUM": ctx.pick(3, 60), "VERIF_LEN": ctx.pick(7, 9),
                                             "VERIF_DIRECTED": 2, "VERIF_RAAUX": 0}),
            ("raaux", "TraceAliasesRAAUX.cfg", {"VERIF_N": ctx.pick(8, 150), "VERIF_ENUM": ctx.pick(1, 20), "VERIF_LEN": 7,
                                                "VERIF_DIRECTED": ctx.pick(1, 2), "VERIF_RAAUX": 1})]
    if ctx.replay:
        with open(ctx.replay) as f:
            rp = json.load(f)
        hp = os.path.join(tdir, "replay_in.json")
        with open(hp, "w") as f:
            json.dump([rp["replay"]["history"]], f)
        plan = [("replay", "TraceAliases.cfg", {"VERIF_REPLAY": hp, "VERIF_RAAUX": 0})]
    violations, totals, samples, corrupt = [], {}, [], None
    n_states = 0
    for mode, tcfg, env in plan:
        out = os.path.join(tdir, "aliases_%s.ndjson" % mode)
        env = dict(env)
        env["VERIF_OUT"] = out
        rc, o = goharness.run_test_bin(ctx, tb, "^TestVerifAliases$", cwd=cwd, timeout=ctx.pick(1500, 7200), env=env)
        goharness.check_driver(rc, o, "aliases driver (%s)" % mode)
        st = conf.stats_line(o)
        rows = conf.load(out)
        for k, v in st.items():
            if isinstance(v, dict):
                d = totals.setdefault(k, {})
                for kk, vv in v.items():
                    d[kk] = d.get(kk, 0) + vv
            elif k != "wall_s":
                totals[k] = totals.get(k, 0) + v
        ctx.log("driver %s: %d histories, %d changes (%d failed, %d faults), %d events" %
                (mode, st["traces"], st["changes"], st["failed_changes"], st["faults"], st["events"]))
        vs, n = _validate(ctx, tcfg, rows, out, mode, ctx.pick(1800, 7200))
        n_states += n
        ctx.log("trace validation %s: %d events, %d violating (line, invariant) pairs" % (mode, len(rows), len(vs)))
        violations.extend(vs)
        if mode == "default":
            for i, ev in enumerate(rows):
                if ev["ev"] == "Settle" and len(samples) < 5 and (ev["status"] == "Error") == (len(samples) % 2 == 1):
                    evs = conf.case_events(rows, i + 1)
                    req = _last_request(evs)
                    samples.append({"request": _op_summary(req["op"]), "fault": _fault_tag(req), "status": ev["status"],
                                    "after": _state_brief(ev["st"])})
            if not vs:
                corrupt = conf.corruption_check(ctx, "TraceAliases", tcfg, out, _corrupt, "aliases")
            else:
                # binding self-check on a prefix without violations
                corrupt = conf.corruption_check(ctx, "TraceAliases", tcfg, out, _corrupt, "aliases", limit=200)
    if not ctx.replay:
        need = ["alias", "unalias", "disable-aliases", "prefer-aliases", "refresh-aliases", "prune-auto-aliases",
                "set-auto-aliases", "setup-aliases", "remove-aliases", "link-snap", "discard-snap"]
        missing = [k for k in need if totals.get("task_kinds", {}).get(k, 0) == 0]
        if missing or totals.get("failed_changes", 0) < 20 or totals.get("distinct_settled_states", 0) < 20:
            raise InfraError("vacuity guard: real executions too thin (missing task kinds %s): %s" % (missing, totals))

    seen, uniq = set(), []
    for v in violations:
        if v.key not in seen:
            seen.add(v.key)
            uniq.append(v)
    if not samples:
        samples = [{"violating_case": uniq[0].key}] if uniq else [{"note": "replay run"}]
    return uniq, totals, samples, corrupt, n_states


def _result(ctx, cfg, mc, extra, bad, uniq, totals, samples, corrupt, n_states, notes):
    return Result(
        level="model_checking",
        coverage={
            "states": mc.distinct, "transitions": mc.generated, "depth": mc.depth, "tlc_wall_s": round(mc.wall, 1),
            "tlc_config": cfg, "tlc_extra_configs": extra,
            "tlc_constants": {"Snaps": 2, "Names": ctx.pick(2, 2), "Apps": 2, "faults": "entry/op1 at any task",
                              "requests_per_history": ctx.pick(2, 3)},
            "expected_counterexample_op2": None if bad is None else {"invariant": bad.name, "length": len(bad.trace)},
            "action_coverage": tlc.coverage_summary(mc),
            "invariants": INVS,
            "traces_validated_against_impl": totals.get("traces", 0),
            "real_changes": totals.get("changes", 0), "real_failed_changes": totals.get("failed_changes", 0),
            "real_faults_injected": totals.get("faults", 0), "real_refused_requests": totals.get("refused", 0),
            "real_events": totals.get("events", 0), "trace_states_validated": n_states,
            "distinct_real_settled_states": totals.get("distinct_settled_states", 0),
            "real_request_kinds": totals.get("request_kinds", {}), "real_task_kinds": totals.get("task_kinds", {}),
            "real_failed_by_kind": totals.get("failed_kinds", {}),
            "binding_selfcheck": corrupt,
            "samples": samples,
        },
        assumptions=[
            "two snaps, one change at a time (conflicting concurrent changes are refused by CheckChangeConflict: C14)",
            "applications c1/c2 exist in every revision (alias to a missing app / a daemon is covered as a refused alias only)",
            "the system view is the set of symlinks the real backend.Backend creates in dirs.SnapBinariesDir of the test root; "
            "the rest of the backend is the package's fakeSnappyBackend",
            "faults: a task fails on entry, or a backend alias operation fails BEFORE touching the disk; no faults inside undo handlers; "
            "the exhaustive TLC configs exclude a fault at discard-snap (after clear-snap) and at prefer-aliases' second backend "
            "operation: both are explored by configs that are expected to (and do) produce the counterexamples F2 / F1",
            "(d) is demanded for the lanes that failed: a prune-auto-aliases task (lane 0) that finished before the refresh "
            "of the transfer target (own lane) failed stays done, as the lane design of doUpdate implies",
            "tasks that do not touch aliases are not logged individually: their effect (none expected) shows in the next logged state",
        ],
        violations=uniq, notes=notes)
