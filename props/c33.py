"""C33 -- version comparison is a consistent Debian-style ordering; epochs rejected.

design      : DebVersion.tla -- reference = Debian policy ordering (non-digit parts under Order, digit parts
              by value, missing part = empty/0, split at the last '-', epoch => rejected). TLC checks
              reflexive / antisymmetric / transitive / congruence / epoch / '~'-first / numeric / revision-split
              invariants on all strings of length <= 2 over {0 1 a b . + ~ - :} (all 753 571 triples).
conformance : T->I  TLC tabulates Ref over Dom x Dom (length <= 3 exhaustively in quick + a seeded slice of
                    length <= 4 rows; all 7381^2 pairs in thorough); the driver evaluates
                    strutil.VersionCompare on every pair.
              laws  reflexive/antisymmetric/transitive/... checked directly on the REAL outputs
                    (all triples over length <= 2 (quick) / <= 3 (thorough) + seeded random longer versions).
              I->T  seeded random pairs of longer versions over a wider alphabet, validated by TraceDebVersion.
              consumers: sign convention of snapdtool.systemSnapSupportsReExec and
                    snapstate.changeIsSnapdDowngrade on pairs taken from the table (overlay drivers).
Scope of "orders exactly as Debian": both versions pass snap.ValidateVersion (re-stated in the spec as
SnapValid and cross-checked) and have no epoch. Differences on other strings (e.g. "1." or "") are
counted in evidence but are not violations.
"""
import json
import os
import re

from lib import common, goharness
from lib.common import Result, Violation, InfraError
from props import _reftables as rt

ALPHABET = "01ab.+~-:"


def n_strings(maxlen):
    return sum(len(ALPHABET) ** l for l in range(maxlen + 1))


# ---- classification of a deviation (only to give violations of one root cause a common key prefix)

def _next_frag(s):
    if not s:
        return "", "", False
    dig = s[0].isdigit()
    i = 1
    while i < len(s) and s[i].isdigit() == dig:
        i += 1
    return s[:i], s[i:], dig


def _split(v):
    i = v.rfind("-")
    return (v, "0") if i < 0 else (v[:i], v[i + 1:])


def deviation_class(a, b):
    """'trailing-empty-numeric' when, walking the fragments the way compareSubversion does, the first
    fragment pair that is not equal is <numeric fragment> against <exhausted string>: Debian reads the
    missing numeric part as 0, the code orders the exhausted string below any digit."""
    for x, y in zip(_split(a), _split(b)):
        while True:
            fa, x, na = _next_frag(x)
            fb, y, nb = _next_frag(y)
            if fa == "" and fb == "":
                break
            if (na and fb == "") or (nb and fa == ""):
                return "trailing-empty-numeric"
            if na and nb:
                if int(fa) == int(fb):
                    continue
                return "other"
            if fa == fb:
                continue
            return "other"
    return "other"


def pair_key(a, b, exp, got):
    if exp == 2 or got == 2:
        cls = "epoch"
    else:
        cls = deviation_class(a, b)
    return "%s: VersionCompare(%s,%s)" % (cls, rt.q(a), rt.q(b))


def _slices(n, rows_per_chunk, lo=1, hi=None):
    hi = hi or n
    out = []
    while lo <= hi:
        out.append((lo, min(hi, lo + rows_per_chunk - 1)))
        lo += rows_per_chunk
    return out


def run(ctx):
    violations = []
    notes = []
    par = ctx.pick(6, 8)

    binary = rt.build(ctx)

    # ---- I->T inputs first (cheap): seeded random pairs beyond the bound, recorded from the real code
    obsdir = ctx.subdir("obs")
    allobs = os.path.join(obsdir, "all.ndjson")
    nrand = ctx.pick(4000, 120000)
    rt.drive(ctx, binary, "TestVerifC33Random", allobs, env={"VERIF_N": nrand})
    chunks, nobs = rt.split_ndjson(allobs, ctx.pick(2, 12), obsdir)
    obs = {o["case"]: o for o in common.read_ndjson(allobs)}
    # negative control of the I->T binding, riding in the first chunk: case 0 = case 1 with a corrupted
    # result (must be rejected and named); cases -1..-k = the consumer pairs with their hard-coded Debian
    # order (must be accepted: validates the constants used in step 6)
    corrupt = dict(obs[1])
    corrupt["case"] = 0
    corrupt["res"] = {-1: 0, 0: 1, 1: 0, 2: 0}[obs[1]["res"]]
    extra = [corrupt] + [{"case": -(i + 1), "a": [ord(c) for c in a], "b": [ord(c) for c in b], "res": r}
                         for i, (a, b, r) in enumerate(CONSUMER_PAIRS)]
    with open(chunks[0], "a") as f:
        for e in extra:
            f.write(json.dumps(e) + "\n")

    def val(i, p):
        return lambda: rt.validate_obs(ctx, "TraceDebVersion", "TraceDebVersion.cfg", p,
                                       os.path.join(obsdir, "verdict_%02d.json" % i), name="obs_%02d" % i, timeout=ctx.pick(2400, 7200))

    # ---- T->I tables
    tabdir = ctx.subdir("tables")
    tjobs = []
    tables = []

    def mk(maxlen, lo, hi, tag):
        out = os.path.join(tabdir, "t_%s_%d_%d.json" % (tag, lo, hi))
        tables.append(out)
        return lambda: rt.table(ctx, "DebVersionTable", "DebVersionTable.cfg", out,
                                {"VERIF_MAXLEN": maxlen, "VERIF_LO": lo, "VERIF_HI": hi},
                                name="tab_%s_%d" % (tag, lo), timeout=ctx.pick(2400, 7200))

    n3, n4 = n_strings(3), n_strings(4)
    if ctx.quick:
        for lo, hi in _slices(n3, 410):
            tjobs.append(mk(3, lo, hi, "l3"))
        # a seeded slice of rows of the length<=4 matrix (each row = all 7381 partners)
        width = 48
        start = n3 + 1 + (ctx.seed * 7919) % (n4 - n3 - width)
        tjobs.append(mk(4, start, start + width - 1, "l4"))
        table_desc = "all pairs of length<=3 (820^2) + rows %d..%d of the length<=4 matrix (x7381)" % (start, start + width - 1)
    else:
        for lo, hi in _slices(n4, 250):
            tjobs.append(mk(4, lo, hi, "l4"))
        table_desc = "all pairs of length<=4 (7381^2)"

    # ---- design (laws on the reference), tables and observation validation: all TLC, side by side
    ljob = lambda: rt.laws(ctx, "DebVersion", "DebVersion_mc.cfg", env={"VERIF_MAXLEN": "2"}, min_states=n_strings(2),
                           timeout=ctx.pick(2400, 7200), workers=2)
    vjobs = [val(i, p) for i, p in enumerate(chunks)]
    # the two overlay test binaries of the consumers are linked while TLC runs (one thread, sequentially)
    res = rt.parallel([lambda: _consumer_bins(ctx), ljob] + vjobs + tjobs, par + 1)
    cbins = res[0]
    res = res[1:]
    mc = res[0]
    vres = res[1:1 + len(vjobs)]
    tres = res[1 + len(vjobs):]
    ctx.log("TLC: laws on the reference hold on %d strings (%.0fs); %d table runs (%s; %.0fs JVM time); %d observation runs"
            % (mc.distinct, mc.wall, len(tjobs), table_desc, sum(r.wall for r in tres), len(vjobs)))

    # ---- real code on the whole tabulated domain
    outdir = ctx.subdir("real")
    ndrv = ctx.pick(1, 6)
    groups = [tables[i::ndrv] for i in range(ndrv)]
    groups = [g for g in groups if g]

    def drv(i, g):
        return lambda: rt.drive(ctx, binary, "TestVerifC33Table", os.path.join(outdir, "table_%d.ndjson" % i),
                                env={"VERIF_TABLES": ",".join(g), "VERIF_MAX_MISMATCH": ctx.pick(20000, 4000)},
                                timeout=ctx.pick(2400, 7200))
    rows = []
    evals = nontrivial = in_scope = mism_in = mism_out = 0
    hist = {"lt": 0, "eq": 0, "gt": 0, "err": 0}
    for part in rt.parallel([drv(i, g) for i, g in enumerate(groups)], len(groups)):
        st = rt.stats_of(part)
        evals += st["evaluations"]
        nontrivial += st["nontrivial"]
        in_scope += st["in_scope"]
        mism_in += st["mismatch_in_scope"]
        mism_out += st["mismatch_out_of_scope"]
        for k in hist:
            hist[k] += st["hist"][k]
        rows += part
    drift = [r for r in rows if r.get("kind") == "scope-drift"]
    if drift:
        raise InfraError("the spec's SnapValid differs from snap.ValidateVersion (scope of the statement drifted): %s" % drift[:3])
    out_samples = []
    classes = {}
    for r in rows:
        if r.get("kind") != "mismatch":
            continue
        if not r["scope"]:
            if len(out_samples) < 5:
                out_samples.append("VersionCompare(%s,%s)=%d, Debian %d" % (rt.q(r["a"]), rt.q(r["b"]), r["got"], r["exp"]))
            continue
        key = pair_key(r["a"], r["b"], r["exp"], r["got"])
        classes[key.split(":")[0]] = classes.get(key.split(":")[0], 0) + 1
        violations.append(Violation(
            key=key,
            desc="strutil.VersionCompare(%s,%s) = %s but Debian version ordering (DebVersion!Ref) gives %s"
                 % (rt.q(r["a"]), rt.q(r["b"]), _show(r["got"]), _show(r["exp"])),
            replay={"call": "strutil.VersionCompare", "a": r["a"], "b": r["b"], "real": r["got"], "reference": r["exp"],
                    "how": "go test: strutil.VersionCompare(a, b); dpkg --compare-versions a <op> b"}))
    ctx.log("real VersionCompare on %d pairs: %d in-scope differences %s, %d outside the statement's scope"
            % (evals, mism_in, classes, mism_out))

    # negative control of the T->I binding: corrupt one entry of (a copy of) the first table, the driver must name it
    with open(tables[0]) as f:
        ct = json.load(f)
    assert ct["lo"] == 1
    ct["rows"][3][4] = {-1: 1, 0: 1, 1: -1, 2: 0}[ct["rows"][3][4]]      # pair ("a","b")
    bad_canary = os.path.join(tabdir, "canary_corrupt.json")
    with open(bad_canary, "w") as f:
        json.dump(ct, f)
    crow = rt.drive(ctx, binary, "TestVerifC33Table", os.path.join(outdir, "canary.ndjson"), env={"VERIF_TABLES": bad_canary})
    canary_trouble = []      # fatal (exit 2) only when the run found no violation at all, see the end
    if not any(r.get("kind") == "mismatch" and (r["a"], r["b"]) == ("a", "b") for r in crow):
        canary_trouble.append("a corrupted table entry for (\"a\",\"b\") was not among the differences reported by the driver")

    # ---- laws directly on the real outputs
    lrows = rt.drive(ctx, binary, "TestVerifC33Laws", os.path.join(outdir, "laws.ndjson"),
                     env={"VERIF_LAWLEN": ctx.pick(2, 3), "VERIF_NRAND": ctx.pick(150, 400)}, timeout=ctx.pick(2400, 7200))
    lst = rt.stats_of(lrows)
    for r in lrows:
        if r.get("kind") == "law":
            violations.append(Violation(key=r["key"], desc="real strutil.VersionCompare violates the %s law on %s"
                                        % (r["law"], r["args"]), replay=r))
    ctx.log("laws on real outputs: %d strings, %d pairs, %d triples, %d violations"
            % (lst["strings"], lst["pairs"], lst["triples"], lst["law_violations"]))

    # ---- I->T verdicts
    checked = 0
    rand_bad = rand_out = 0
    canary_seen = False
    for v, _ok in vres:
        checked += v["checked"]
        for b in v["bad"]:
            if b["case"] == 0:
                canary_seen = True
                continue
            if b["case"] < 0:
                raise InfraError("hard-coded Debian order of consumer pair %s disagrees with DebVersion!Ref (%s)"
                                 % (CONSUMER_PAIRS[-b["case"] - 1], b))
            o = obs[b["case"]]
            scope = (b["va"] and b["vb"]) or b["exp"] == 2 or b["got"] == 2
            if b["va"] != o["va"] or b["vb"] != o["vb"]:
                raise InfraError("SnapValid differs from snap.ValidateVersion on %r / %r" % (o["sa"], o["sb"]))
            if not scope:
                rand_out += 1
                continue
            rand_bad += 1
            violations.append(Violation(
                key=pair_key(o["sa"], o["sb"], b["exp"], b["got"]),
                desc="strutil.VersionCompare(%s,%s) = %s but Debian version ordering gives %s (random case %d, seed %d)"
                     % (rt.q(o["sa"]), rt.q(o["sb"]), _show(b["got"]), _show(b["exp"]), b["case"], ctx.seed),
                replay={"call": "strutil.VersionCompare", "a": o["sa"], "b": o["sb"], "real": b["got"], "reference": b["exp"]}))
    if not canary_seen:
        canary_trouble.append("a corrupted observation (case 0) was accepted by TraceDebVersion")
    checked -= len(extra)
    if checked != nobs or nobs < nrand:      # nobs = directed boundary-number pairs + nrand random pairs
        raise InfraError("I->T: %d observations recorded, %d written, %d validated" % (nrand, nobs, checked))
    ctx.log("I->T: %d random observations validated by TLC, %d in-scope differences, %d outside scope" % (checked, rand_bad, rand_out))

    # ---- consumers: sign convention
    cons = _consumers(ctx, violations, cbins)

    samples = []
    for o in list(obs.values())[:4]:
        samples.append({"a": o["sa"], "b": o["sb"], "VersionCompare": _show(o["res"])})
    for r in rows:
        if r.get("kind") == "mismatch" and r["scope"] and len(samples) < 7:
            samples.append({"a": r["a"], "b": r["b"], "VersionCompare": _show(r["got"]), "reference": _show(r["exp"])})

    # de-duplicate violations by key (a pair can be seen by the table and by the random run)
    seen = set()
    uniq = []
    for v in violations:
        if v.key not in seen:
            seen.add(v.key)
            uniq.append(v)
    # the known class last, so that anything else is among the first violations printed
    uniq.sort(key=lambda v: (v.key.startswith("trailing-empty-numeric:"), len(v.key), v.key))
    by_class = {}
    for v in uniq:
        c = v.key.split(":")[0].split(" ")[0]
        by_class[c] = by_class.get(c, 0) + 1
    ctx.log("violations by class: %s" % (by_class or "none"))
    if canary_trouble and not uniq:
        raise InfraError("binding canary: " + "; ".join(canary_trouble))

    cov = {
        "evaluations": evals + lst["pairs"] + checked + cons["evaluations"],
        "distinct_nontrivial": nontrivial,
        "rule": "real strutil.VersionCompare(a,b) == DebVersion!Ref(a,b) (Debian policy ordering; 2 = rejected for an epoch) "
                "for every tabulated pair; ordering laws hold on the reference (TLC) and on the real outputs (driver)",
        "samples": samples,
        "table_domain": table_desc,
        "table_pairs": evals,
        "pairs_in_statement_scope": in_scope,
        "real_result_histogram": hist,
        "differences_in_scope": mism_in,
        "differences_in_scope_by_class": classes,
        "differences_outside_scope": mism_out,
        "differences_outside_scope_samples": out_samples,
        "law_check_on_real": {k: lst[k] for k in ("strings", "pairs", "triples", "law_violations")},
        "random_observations_validated_by_tlc": checked,
        "random_differences_in_scope": rand_bad,
        "random_differences_outside_scope": rand_out,
        "tlc_law_states": mc.distinct,
        "tlc_law_domain": "strings of length<=2 over %s (%d), all triples" % (ALPHABET, n_strings(2)),
        "tlc_constants": {"Alphabet": ALPHABET, "MaxLen_laws": 2, "MaxLen_table": ctx.pick(3, 4)},
        "tlc_table_runs": len(tjobs),
        "consumers": cons,
        "violations_by_class": by_class,
        "binding_canaries": ("corrupted table entry and corrupted observation both rejected" if not canary_trouble
                             else "TROUBLE (run has violations): " + "; ".join(canary_trouble)),
    }
    return Result(level="exploration", coverage=cov,
                  assumptions=[
                      "reference = Debian policy 5.6.12 ordering, calibrated during development against dpkg --compare-versions (no run-time dependency)",
                      "'exactly as Debian' is demanded only for pairs of versions that pass snap.ValidateVersion and carry no epoch; "
                      "':' elsewhere in a version is ordered as an ordinary non-letter (natural extension of verrevcmp; Debian itself rejects such versions)",
                      "numeric parts are compared as digit strings of arbitrary length in the reference (no integer conversion); random and directed inputs carry digit runs of up to 24 digits",
                  ],
                  violations=uniq, notes=notes)


def _show(r):
    return "error" if r == 2 else str(r)


CONSUMER_PAIRS = [  # (our/current version, other version, Debian order)
    ("2.63", "2.62", 1), ("2.62", "2.63", -1), ("2.63", "2.63", 0), ("2.63~pre1", "2.63", -1), ("2.63", "2.63~pre1", 1),
    ("2.63+git1", "2.63", 1), ("2.9", "2.10", -1), ("2.10", "2.9", 1), ("2.63-1", "2.63-2", -1),
    ("2.63+git100.abc~ubuntu16.04", "2.63+git99.abc~ubuntu16.04", 1), ("1:2.63", "2.63", 2), ("2.63", "1:2.62", 2)]


def _consumer_bins(ctx):
    if os.environ.get("VERIF_SKIP_OVERLAY"):
        return None
    tool = os.path.join(common.HARNESS, "overlay", "snapdtool", "zz_verif_c33_test.go")
    snapst = os.path.join(common.HARNESS, "overlay", "snapstate", "zz_verif_reftables_test.go")
    return (goharness.overlay_test_build(ctx, "snapdtool", [tool]),
            goharness.overlay_test_build(ctx, "overlord/snapstate", [snapst]))


def _consumers(ctx, violations, cbins):
    """Sign convention of the two consumers on fixed pairs (overlay drivers, in-package).
    systemSnapSupportsReExec(Version=a, snap's version=b) must be true iff a <= b (and false on error);
    a pending snapd refresh from a to b is an exclusive 'downgrade' iff a > b (error => the check fails)."""
    out = {"evaluations": 0}
    if os.environ.get("VERIF_SKIP_OVERLAY"):        # development aid for mutation demos that do not touch the consumers
        ctx.log("WARNING: consumer overlay drivers skipped (VERIF_SKIP_OVERLAY set) -- not a complete run")
        out["skipped"] = "VERIF_SKIP_OVERLAY"
        return out
    d = ctx.subdir("cons")
    spec = os.path.join(d, "pairs.json")
    with open(spec, "w") as f:
        json.dump([{"a": a, "b": b} for a, b, _ in CONSUMER_PAIRS], f)
    # (the hard-coded orders are validated against DebVersion!Ref by TLC: cases -1..-k of observation chunk 0)
    ref = {(a, b): r for a, b, r in CONSUMER_PAIRS}
    b = cbins[0]
    rows = rt.drive(ctx, b, "TestVerifC33ReExec", os.path.join(d, "snapdtool.ndjson"), env={"VERIF_PAIRS": spec},
                    cwd=os.path.join(common.REPO, "snapdtool"))
    _consumer_rows(ctx, rows, violations, out, "systemSnapSupportsReExec", lambda r: ref[r] in (-1, 0), ref)
    b = cbins[1]
    rows = rt.drive(ctx, b, "TestVerifC33Downgrade", os.path.join(d, "snapstate.ndjson"), env={"VERIF_PAIRS": spec},
                    cwd=os.path.join(common.REPO, "overlord/snapstate"), timeout=900)
    _consumer_rows(ctx, rows, violations, out, "changeIsSnapdDowngrade", lambda r: ref[r] == 1, ref)
    return out


def _consumer_rows(ctx, rows, violations, out, what, want_of, ref):
    n = 0
    for r in rows:
        if r.get("kind") != "consumer":
            continue
        n += 1
        k = (r["a"], r["b"])
        want = want_of(k)
        bad = r["got"] != want
        if "failed" in r and r["failed"] != (ref[k] == 2):
            bad = True            # the check must fail exactly when the comparison is rejected
        if bad:
            violations.append(Violation(
                key="consumer %s(%s,%s)" % (what, rt.q(r["a"]), rt.q(r["b"])),
                desc="%s with current=%s other=%s returned %s (failed=%s); Debian order %s requires %s"
                     % (what, rt.q(r["a"]), rt.q(r["b"]), r["got"], r.get("failed"), _show(ref[k]), want), replay=r))
    if n != len(ref):
        raise InfraError("consumer driver %s evaluated %d of %d pairs" % (what, n, len(ref)))
    out[what] = n
    out["evaluations"] += n
    ctx.log("consumer %s: %d pairs" % (what, n))
