"""C35 -- revisions and epochs round-trip; epoch compatibility is set intersection.

design      : RevEpoch.tla -- declarative reference for snap.Revision (String / ParseRevision / JSON string and
              bare-number forms / YAML scalar) and snap.Epoch (Validate per the type's doc comment, String,
              MarshalJSON, structured and short forms with their defaults, CanRead = read set meets write set with
              empty meaning {0}). TLC checks the laws of the statement on the reference, one state per input:
              revisions -12..12 + boundary values, all strings of length <= 3 (thorough 4) over {0 1 2 x - + . *}
              + fixed words, all raw epochs with read/write in {nil} + sequences over 0..3 of length <= 3
              (thorough 4; unsorted / duplicates / explicitly empty included) + 10/11-element boundary shapes,
              all 289 x 289 CanRead pairs.
conformance : T->I  TLC tabulates the reference over the same domain (inputs included in the table); the driver
                    harness/ext/revepoch evaluates the REAL functions on every input and reports each difference.
              laws  round trips / rejection / valid => self-read / CanRead <=> intersection checked directly on
                    the REAL outputs, including the int64 / uint32 boundary values TLC's integers cannot hold.
              I->T  seeded random revisions, revision strings, epochs (<= 12 entries from 0..40 and large
                    numbers) and short forms, validated by TraceRevEpoch.
Scope notes : ParseRevision goes through strconv.Atoi, so it also accepts a leading '+' and leading zeros
              ("+1", "01", "x+1", "x01"). These spellings denote a revision unambiguously and the statement does
              not clearly call them invalid: the reference models the accepted language as coded, demands that
              every accepted string re-reads canonically as the same revision, and the accepted non-canonical
              spellings are counted in evidence (non_canonical_spellings_accepted), not reported as violations.
"""
import json
import os

from lib import common, goharness
from lib.common import Result, Violation, InfraError
from props import _reftables as rt

PKG = "revepoch"
STR_ALPHABET = "012x-+.*"
N_WORDS = 37
N_BOUNDARY = 19
TLC_TIMEOUT = 2400


def n_strings(maxlen):
    return sum(len(STR_ALPHABET) ** l for l in range(maxlen + 1)) + N_WORDS


def n_epochs(listlen):
    nl = 1 + sum(4 ** l for l in range(listlen + 1))
    return nl * nl + N_BOUNDARY


def _chunks(n, k):
    per = (n + k - 1) // k
    return [(lo, min(n, lo + per - 1)) for lo in range(1, n + 1, per)]


def _violations_from(rows, kind, what):
    out = []
    for r in rows:
        if r.get("kind") != kind:
            continue
        out.append(Violation(
            key=r["key"],
            desc="%s: %s gives %s, %s requires %s" % (r["class"], r["call"], r["got"], what, r["exp"]),
            replay={"class": r["class"], "call": r["call"], "real": r["got"], "expected": r["exp"],
                    "how": "go test in /verif/harness/ext/revepoch (package snap of the tree under test)"}))
    return out


def _field_diff(exp, got):
    return sorted(k for k in set(exp) | set(got) if exp.get(k) != got.get(k))


def _txt(codes):
    return "".join(chr(c) for c in codes)


def _obs_name(o):
    if o["kind"] == "rev":
        return "Revision{%d}" % o["n"]
    if o["kind"] == "revstr":
        return "ParseRevision(%s)" % rt.q(o["text"])
    if o["kind"] == "short":
        return "epoch short form %s" % rt.q(o["text"])
    return o["text"]


def _obs_violation(o, b, seed):
    """One rejected observation -> Violation keyed by class and the specific input."""
    fields = _field_diff(b["exp"], b["got"])
    if not fields and not b["laws"]:
        fields = ["law"]
    prio = ["valid", "self", "canread", "canread_rev", "rt", "law", "str", "json", "doc", "ydoc", "back", "jback", "yback", "s", "rev", "jq", "bare", "e"]
    fields.sort(key=lambda k: (prio.index(k) if k in prio else len(prio), k))
    f = fields[0]
    kind = o["kind"]
    name = _obs_name(o)
    if kind == "rev":
        cls = {"s": "rev-string", "json": "rev-json-marshal", "yaml": "rev-yaml-marshal", "back": "rev-roundtrip",
               "jback": "rev-json-roundtrip", "yback": "rev-yaml-roundtrip"}.get(f, "rev-roundtrip")
    elif kind == "revstr":
        e, g = b["exp"].get(f, {}), b["got"].get(f, {})
        pre = {"rev": "rev", "jq": "rev-json", "bare": "rev-json-bare"}.get(f, "rev")
        cls = pre + ("-accepts-invalid" if g.get("ok") and not e.get("ok") else
                     "-rejects-valid" if e.get("ok") and not g.get("ok") else "-value")
    elif kind == "short":
        cls = "epoch-short" if f == "e" else "epoch-short-json"
    else:
        cls = {"valid": "epoch-validate", "str": "epoch-string", "json": "epoch-json-marshal", "rt": "epoch-json-roundtrip",
               "self": "epoch-selfread", "canread": "epoch-canread", "canread_rev": "epoch-canread",
               "doc": "epoch-parse-json", "ydoc": "epoch-parse-yaml", "law": "epoch-json-roundtrip"}.get(f, "epoch")
        if f == "canread":
            name = "%s vs %s" % (o["text"], o["otext"])
        elif f == "canread_rev":
            name = "%s vs %s" % (o["otext"], o["text"])

    def show(v):
        return _txt(v) if isinstance(v, list) and v and all(isinstance(c, int) for c in v) and f in ("s", "json", "yaml", "str") else json.dumps(v, sort_keys=True)
    return Violation(
        key="%s: %s" % (cls, name),
        desc="%s: real %s = %s, reference (RevEpoch.tla) requires %s (random case %d, seed %d; differing fields %s)"
             % (cls, f, show(b["got"].get(f)), show(b["exp"].get(f)), b["case"], seed, fields),
        replay={"observation": o, "reference": b["exp"], "laws_on_real": b["laws"]})


def run(ctx):
    violations = []
    par = ctx.pick(3, 9)
    maxlen = ctx.pick(3, 4)
    listlen = ctx.pick(3, 4)
    nep = n_epochs(listlen)
    dom_env = {"VERIF_MAXLEN": maxlen, "VERIF_LISTLEN": listlen}

    # ---- 1. design (laws on the reference) and 2. T->I tables: module RevEpochTable with RevEpoch_mc.cfg does
    #         both in one JVM -- the law invariants are checked on, and the reference tabulated over, the same
    #         inputs (VERIF_KINDS: rev 1 + str 2 + ep 4 + cr 8; epochs sliced VERIF_LO..VERIF_HI). With the Go build.
    tabdir = ctx.subdir("tables")
    n_rsc = 31 + n_strings(maxlen) + 289
    tables = []
    expected_states = []

    def lawtab(kinds, lo, hi, tag, nstates):
        out = os.path.join(tabdir, "t_%s.json" % tag)
        tables.append(out)
        expected_states.append(nstates)
        env = dict(dom_env)
        env.update({"VERIF_KINDS": kinds, "VERIF_LO": lo, "VERIF_HI": hi})
        return lambda: rt.table(ctx, "RevEpochTable", "RevEpoch_mc.cfg", out, env, name="lawtab_" + tag, timeout=TLC_TIMEOUT)
    jobs = []
    if ctx.quick:
        jobs.append(lawtab(15, 1, nep, "all", n_rsc + nep))
    else:
        jobs.append(lawtab(11, 1, 1, "rev_str_cr", n_rsc))
        for lo, hi in _chunks(nep, 8):
            jobs.append(lawtab(4, lo, hi, "ep_%d" % lo, hi - lo + 1))
    # history dimension (spec/RevEpochHistory.tla): every history of 1..K decodes into ONE reused destination;
    # TLC checks the invariants on every history and exports histories + per-text denotation
    histlen = ctx.pick(2, 3)
    hist_table = os.path.join(tabdir, "t_history.json")
    hjob = lambda: rt.table(ctx, "RevEpochHistory", "RevEpochHistory.cfg", hist_table, {"VERIF_HISTLEN": histlen},
                            name="history", timeout=TLC_TIMEOUT)
    res = rt.parallel([lambda: goharness.ext_test_build(ctx, PKG)] + jobs + [hjob], par + 1)
    binary = res[0]
    mcs = res[1:-1]
    hmc = res[-1]
    want_hist = sum(16 ** k for k in range(histlen + 1))
    if hmc.distinct != want_hist:
        raise InfraError("history spec: TLC explored %d states, expected %d" % (hmc.distinct, want_hist))
    for m, want_states in zip(mcs, expected_states):
        if m.distinct != want_states:        # vacuity guard: one state per input, invariants evaluated on each
            raise InfraError("laws: TLC explored %d inputs in %s, expected %d" % (m.distinct, m.dir, want_states))
    law_states = sum(m.distinct for m in mcs)
    tlc_wall = sum(m.wall for m in mcs)
    ctx.log("laws on the reference: %d inputs (one state each, 15 invariants), ok; reference tabulated; %d TLC runs (%.0fs JVM wall in total)"
            % (law_states, len(jobs), tlc_wall))

    # ---- 3. real code on the whole tabulated domain
    outdir = ctx.subdir("real")
    ndrv = ctx.pick(1, 4)
    groups = [g for g in (tables[i::ndrv] for i in range(ndrv)) if g]

    def drv(i, g):
        return lambda: rt.drive(ctx, binary, "TestVerifC35Table", os.path.join(outdir, "table_%d.ndjson" % i),
                                env={"VERIF_TABLES": ",".join(g)}, timeout=1500)
    rows = []
    tst = {}
    by_class = {}
    for part in rt.parallel([drv(i, g) for i, g in enumerate(groups)], len(groups)):
        st = rt.stats_of(part)
        for k, v in st.items():
            if isinstance(v, int) and not isinstance(v, bool):
                tst[k] = tst.get(k, 0) + v
        for k, v in st["by_class"].items():
            by_class[k] = by_class.get(k, 0) + v
        rows += part
    expect = {"revisions": 31, "strings": n_strings(maxlen), "epochs": nep, "canread_pairs": 289 * 289}
    for k, v in expect.items():
        if tst.get(k) != v:
            raise InfraError("table driver evaluated %s=%s, expected %d (domain drift between TLC and the driver)" % (k, tst.get(k), v))
    violations += _violations_from(rows, "mismatch", "the reference (RevEpoch.tla)")
    noncanon = [r["sample"] for r in rows if r.get("kind") == "noncanonical"]
    ctx.log("real code on the tabulated domain: %d evaluations, %d differences %s; %d non-canonical revision spellings accepted"
            % (tst["evaluations"], tst["mismatches"], by_class, tst["non_canonical_accepted"]))

    # negative control of the T->I binding: corrupt entries of the table, the driver must name them
    with open(tables[0]) as f:
        ct = json.load(f)
    ct["epochs"], ct["crdom"], ct["canread"] = [], [], []
    ct["revs"] = ct["revs"][:14]
    ct["revs"][9]["s"] = [120, 52]                      # Revision{-3}.String() "x3" -> "x4"
    srow = [r for r in ct["strs"] if _txt(r["s"]) == "x0"][0]
    srow["rev"] = {"ok": True, "n": 0}                    # claim ParseRevision("x0") is valid
    ct["strs"] = [srow]
    bad_canary = os.path.join(tabdir, "canary_corrupt.json")
    with open(bad_canary, "w") as f:
        json.dump(ct, f)
    crow = rt.drive(ctx, binary, "TestVerifC35Table", os.path.join(outdir, "canary.ndjson"), env={"VERIF_TABLES": bad_canary})
    ckeys = set(r["key"] for r in crow if r.get("kind") == "mismatch")
    want = {"rev-string: Revision{-3}.String()", 'rev-rejects-valid: ParseRevision("x0")'}
    # (only demanded when the real code agreed with the table: if it did not, the differences reported above already
    #  show that the binding is live, and a canary entry could coincide with what a broken tree really does)
    canary_trouble = []      # presence tests; fatal (exit 2) only when the run found no violation at all, see the end
    if not want <= ckeys:
        canary_trouble.append("corrupted table entries %s not among the differences reported by the driver" % sorted(want - ckeys))

    # ---- 4. laws directly on the real outputs
    lrows = rt.drive(ctx, binary, "TestVerifC35Laws", os.path.join(outdir, "laws.ndjson"),
                     env={"VERIF_LAWLEN": ctx.pick(4, 5), "VERIF_NRAND": ctx.pick(500, 20000),
                          "VERIF_LAW_REVS": ctx.pick(2000, 200000)}, timeout=1500)
    lst = rt.stats_of(lrows)
    violations += _violations_from(lrows, "law", "the statement")
    ctx.log("laws on real outputs: %d revisions, %d strings, %d epochs (%d valid), %d CanRead pairs, %d documents: %d violations %s"
            % (lst["revisions"], lst["strings"], lst["epochs"], lst["valid_epochs"], lst["canread_pairs"], lst["documents"],
               lst["law_violations"], lst["by_class"]))

    # ---- 4b. history dimension on the real code: a reused destination, copies kept after each decode
    hrows = rt.drive(ctx, binary, "TestVerifC35History", os.path.join(outdir, "history.ndjson"),
                     env={"VERIF_TABLES": hist_table, "VERIF_MAX_MISMATCH": 60}, timeout=1500)
    hst = rt.stats_of(hrows)
    for r in hrows:
        if r.get("kind") == "history":
            violations.append(Violation(
                key=r["key"],
                desc="decoding %s into one reused snap.Epoch: the kept value is %s, the text denotes %s"
                     % (r["call"], r["got"], r["exp"]), replay=r))
    ctx.log("history: %d histories (<= %d decodes into one destination, json/yaml in every assignment) replayed, %d copies judged, "
            "%d differences %s; TLC: %d history states, 3 invariants"
            % (hst["histories_replayed"], histlen, hst["copies_judged"], hst["mismatches"], hst["by_class"], hmc.distinct))

    # ---- 5. I->T: seeded random inputs beyond the bound
    obsdir = ctx.subdir("obs")
    allobs = os.path.join(obsdir, "all.ndjson")
    nrand = ctx.pick(3000, 40000)
    rt.drive(ctx, binary, "TestVerifC35Random", allobs, env={"VERIF_N": nrand})
    chunks, nobs = rt.split_ndjson(allobs, ctx.pick(2, 8), obsdir)
    obs = {o["case"]: o for o in common.read_ndjson(allobs)}

    def val(i, p):
        return lambda: rt.validate_obs(ctx, "TraceRevEpoch", "TraceRevEpoch.cfg", p,
                                       os.path.join(obsdir, "verdict_%02d.json" % i), name="obs_%02d" % i, timeout=TLC_TIMEOUT)
    # negative control of the I->T binding: corrupted observations must be rejected, and named
    c_rev = json.loads(json.dumps(next(o for o in obs.values() if o["kind"] == "rev")))
    c_rev["got"]["back"]["n"] += 1
    c_ep = json.loads(json.dumps(next(o for o in obs.values() if o["kind"] == "epoch")))
    c_ep["got"]["canread"] = not c_ep["got"]["canread"]
    c_ep2 = json.loads(json.dumps(next((o for o in obs.values() if o["kind"] == "epoch" and o["got"]["valid"]), c_ep)))
    c_ep2["got"]["valid"] = not c_ep2["got"]["valid"]
    cpath = os.path.join(obsdir, "corrupt.ndjson")
    others = [o for o in list(obs.values())[:12] if o["case"] not in (c_rev["case"], c_ep["case"], c_ep2["case"])]
    common.write_ndjson(cpath, [c_rev, c_ep, c_ep2] + others)
    cjob = lambda: rt.validate_obs(ctx, "TraceRevEpoch", "TraceRevEpoch.cfg", cpath,
                                   os.path.join(obsdir, "verdict_corrupt.json"), name="obs_corrupt", timeout=TLC_TIMEOUT)
    vres = rt.parallel([cjob] + [val(i, p) for i, p in enumerate(chunks)], par)
    checked = rand_bad = 0
    for v, _ok in vres[1:]:
        checked += v["checked"]
        for b in v["bad"]:
            rand_bad += 1
            violations.append(_obs_violation(obs[b["case"]], b, ctx.seed))
    cv, _ = vres[0]
    cbad = sorted(b["case"] for b in cv["bad"])
    canary_cases = sorted({c_rev["case"], c_ep["case"], c_ep2["case"]})
    # (demanded only when every genuine observation was accepted, for the same reason as above)
    if not set(canary_cases) <= set(cbad):
        canary_trouble.append("corrupted observations %s, TraceRevEpoch rejected only %s" % (canary_cases, cbad))
    if checked != nobs or nobs != nrand:
        raise InfraError("I->T: %d observations requested, %d written, %d validated" % (nrand, nobs, checked))
    kinds = {}
    valid_rand = 0
    for o in obs.values():
        kinds[o["kind"]] = kinds.get(o["kind"], 0) + 1
        if o["kind"] == "epoch" and o["got"]["valid"]:
            valid_rand += 1
    if valid_rand < kinds.get("epoch", 0) // 10 and not violations:
        raise InfraError("vacuity guard: only %d of %d random epochs are valid" % (valid_rand, kinds.get("epoch", 0)))
    ctx.log("I->T: %d random observations %s validated by TLC, %d rejected" % (checked, kinds, rand_bad))

    # ---- evidence
    samples = []
    ep_s = [o for o in obs.values() if o["kind"] == "epoch" and o["got"]["valid"] and len(o["e"]["r"]["l"]) > 2][:2]
    for o in ep_s:
        samples.append({"epoch": o["text"], "other": o["otext"], "Validate": "ok", "String": _txt(o["got"]["str"]),
                        "CanRead(other)": o["got"]["canread"], "other.CanRead(epoch)": o["got"]["canread_rev"]})
    for o in [o for o in obs.values() if o["kind"] == "epoch" and not o["got"]["valid"]][:1]:
        samples.append({"epoch": o["text"], "Validate": "error", "json.Unmarshal(json.Marshal(epoch))": "error" if not o["got"]["rt"]["ok"] else "ok"})
    for o in [o for o in obs.values() if o["kind"] == "revstr"][:2]:
        samples.append({"ParseRevision": o["text"], "result": o["got"]["rev"]})
    for o in [o for o in obs.values() if o["kind"] == "short" and o["got"]["e"]["ok"]][:1]:
        samples.append({"short": o["text"], "epoch": {"read": o["got"]["e"]["r"], "write": o["got"]["e"]["w"]}})
    for v in violations[:3]:
        samples.append({"violation": v.key, "desc": v.desc})

    seen = set()
    uniq = []
    for v in violations:
        if v.key not in seen:
            seen.add(v.key)
            uniq.append(v)
    uniq.sort(key=lambda v: (len(v.key), v.key))
    if canary_trouble and not uniq:
        raise InfraError("binding canary: " + "; ".join(canary_trouble))

    law_evals = lst["revisions"] * 5 + lst["strings"] + lst["epochs"] + lst["valid_epochs"] * 4 + lst["canread_pairs"] + lst["documents"]
    cov = {
        "evaluations": tst["evaluations"] + law_evals + checked + hst["evaluations"],
        "history": {"max_decodes_into_one_destination": histlen, "tlc_states": hmc.distinct,
                    "histories_replayed": hst["histories_replayed"], "copies_judged": hst["copies_judged"],
                    "differences": hst["mismatches"]},
        "distinct_nontrivial": tst["distinct"],
        "rule": "every real result (String/ParseRevision/JSON/YAML of snap.Revision; Validate/String/MarshalJSON/"
                "UnmarshalJSON/UnmarshalYAML/CanRead of snap.Epoch) equals the RevEpoch.tla reference on the whole "
                "tabulated domain; the statement's laws hold on the reference (TLC invariants) and on the real outputs (driver)",
        "samples": samples,
        "table_domain": "revisions -12..12 + 6 boundary values; %d strings (length<=%d over %s + %d fixed words); "
                        "%d raw epochs (read/write in nil + sequences over 0..3 of length<=%d, + %d boundary shapes); "
                        "289x289 CanRead pairs" % (n_strings(maxlen), maxlen, STR_ALPHABET, N_WORDS, nep, listlen, N_BOUNDARY),
        "table_evaluations": tst["evaluations"],
        "table_differences": tst["mismatches"],
        "table_differences_by_class": by_class,
        "revision_strings_accepted": tst["strings_accepted"],
        "revision_strings_rejected": tst["strings_rejected"],
        "non_canonical_spellings_accepted": {"count": tst["non_canonical_accepted"], "samples": noncanon,
                                             "judgement": "leading '+' / leading zeros accepted by strconv.Atoi; unambiguous, "
                                                          "re-read canonically; judged outside the statement (observation, not a violation)"},
        "valid_epochs_in_table": tst["valid_epochs"],
        "canread_true_in_table": tst["canread_true"],
        "law_check_on_real": {k: lst[k] for k in ("revisions", "strings", "epochs", "valid_epochs", "canread_pairs", "documents", "law_violations")},
        "random_observations_validated_by_tlc": checked,
        "random_observations_by_kind": kinds,
        "random_valid_epochs": valid_rand,
        "random_rejected": rand_bad,
        "tlc_law_states": law_states,
        "tlc_law_invariants": 15,
        "tlc_constants": {"MaxLen": maxlen, "ListLen": listlen, "RevBound": 12, "StrAlphabet": STR_ALPHABET},
        "tlc_runs": {"laws_and_tables": len(jobs), "trace": len(chunks) + 1},
        "tlc_wall_s": {"laws_and_tables": round(tlc_wall, 1)},
        "binding_canaries": {"corrupted_table_entries_reported": sorted(want & ckeys), "corrupted_observations": canary_cases,
                             "corrupted_observations_rejected": cbad},
    }
    return Result(level="exploration", coverage=cov,
                  assumptions=[
                      "'valid epoch' = the rules of snap.Epoch's doc comment (no explicitly empty list; zero epoch; else <= 10 entries, "
                      "strictly increasing, read and write lists as given intersect)",
                      "the accepted revision language is modelled as coded (optional '+', leading zeros); see non_canonical_spellings_accepted",
                      "bare JSON integers are read as revisions (as coded; used by old state files); JSON null / YAML null documents are not exercised",
                      "TLC integers are 32-bit: numbers in the reference stay < 10^9; int64 / uint32 boundary values are checked only "
                      "by the driver's direct law checks",
                      "YAML is gopkg.in/yaml.v2 as vendored by snapd; its quoting of numeric-looking scalars is part of the expected Marshal output",
                  ],
                  violations=uniq)
