"""C15 -- snap-initiated refresh holds are bounded (spec: RefreshHold.tla, trace spec: TraceRefreshHold.tla).

design:       TLC checks OtherBound / GlobalBound / UntilBound / RefusedAtBound / SystemSurvivesRefresh /
              SystemLasts exhaustively on RefreshHold (default durations, as every production caller issues them),
              plus GlobalBound & co. with explicit durations.
conformance:  the overlay driver TestVerifHold (harness/overlay/snapstate/zz_verif_hold_test.go) calls the REAL
              HoldRefresh / HoldRefreshesBySystem / ProceedWithRefresh / resetGatingForRefreshed / pruneGating under a
              mocked clock and logs, per call, the result and the projected snaps-hold state together with what
              the REAL HeldSnaps / LongestGatingHold / SystemHold return.  TLC validates the log against
              TraceRefreshHold: each step must be the spec's action (strict) and every invariant is evaluated on
              the real states.
"""
import json
import os

from lib import common, tlc, goharness
from lib.common import Result, Violation, InfraError
from props import _conformance as conf

OVERLAY = [os.path.join(common.HARNESS, "overlay", "snapstate", "zz_verif_hold_test.go")]
CTL_OVERLAY = [os.path.join(common.HARNESS, "overlay", "ctlcmd", "zz_verif_hold_ctl_test.go")]
INVS = ["TypeOK", "OtherBound", "GlobalBound", "UntilBound", "RefusedAtBound", "SystemSurvivesRefresh", "SystemLasts"]


def _ev_summary(ev):
    return "%s(%s)" % (ev["ev"], json.dumps(ev.get("args", {}), sort_keys=True, separators=(",", ":")))


def _violation(rows, r, what):
    evs = conf.case_events(rows, r["line"])
    last = evs[-1]
    hist = [_ev_summary(e) for e in evs]
    if r["kind"] == "violation":
        key = "C15/%s/%s@now=%s" % (r["invariant"], _ev_summary(last), last["st"]["now"])
        desc = ("real snapstate hold code violates %s after %s (clock %sh; HeldSnaps=%s); history of %d real calls in replay"
                % (r["invariant"], _ev_summary(last), last["st"]["now"], json.dumps(last["st"]["reported"][0]), len(evs)))
    else:
        key = "C15/step/%s@now=%s" % (_ev_summary(last), last["st"]["now"])
        desc = "real step %s result=%s is not a step of RefreshHold (%s)" % (_ev_summary(last), last.get("res"), what)
    return Violation(key=key, desc=desc, replay={"history": hist, "last_event": last, "classification": r})


def _corrupt(rows, rng):
    cands = [i for i, r in enumerate(rows) if r["ev"] == "Hold" and r["res"]["ok"]]
    if not cands:
        return None
    i = rng.choice(cands)
    s = rows[i]["args"]["S"][0]
    g = rows[i]["args"]["g"]
    rows[i]["st"]["hold"][s][g]["until"] += 1
    return "line %d: hold[%s][%s].until + 1h" % (i + 1, s, g)


def _dedupe(vs):
    seen, out = set(), []
    for v in vs:
        if v.key not in seen:
            seen.add(v.key)
            out.append(v)
    return out


def run(ctx):
    workers = ctx.pick(8, 16)
    notes = []
    # ---------------------------------------------------------------- design
    cfg = ctx.pick("RefreshHold_mc.cfg", "RefreshHold_mc_thorough.cfg")
    mc = tlc.run(ctx, "RefreshHold", cfg, coverage=True, workers=workers, timeout=ctx.pick(1800, 7200),
                 heap=ctx.pick("6g", "12g"))
    if not mc.ok:
        raise InfraError("spec-level counterexample in RefreshHold/%s: %s" % (cfg, mc.summary()))
    tlc.require_coverage(mc, ["AHold", "ASystemHold", "AProceed", "ARefreshed", "APrune", "ATick"])
    ctx.log("TLC %s: %d distinct / %d generated, %.0fs" % (cfg, mc.distinct, mc.generated, mc.wall))
    mcx = tlc.run(ctx, "RefreshHold", "RefreshHold_mc_explicit.cfg", workers=workers, timeout=ctx.pick(1800, 3600),
                  name="tlc_explicit")
    if not mcx.ok:
        raise InfraError("spec-level counterexample in RefreshHold_mc_explicit: %s" % mcx.summary())
    mc3 = None
    deep = None
    if not ctx.quick:
        mc3 = tlc.run(ctx, "RefreshHold", "RefreshHold_mc_thorough3.cfg", workers=workers, timeout=3600, name="tlc_3snaps")
        if not mc3.ok:
            raise InfraError("spec-level counterexample in RefreshHold_mc_thorough3: %s" % mc3.summary())
        deep = tlc.run(ctx, "RefreshHold", "RefreshHold_mc_deep.cfg", workers=workers, timeout=7200, heap="12g", name="tlc_deep")
        if not deep.ok:
            raise InfraError("spec-level counterexample in RefreshHold_mc_deep: %s" % deep.summary())
        ctx.log("TLC RefreshHold_mc_deep.cfg: %d distinct / %d generated, %.0fs" % (deep.distinct, deep.generated, deep.wall))
        # documented expectation: with explicit durations the 48h bound can be exceeded (no production caller
        # passes one); TLC must find that counterexample, otherwise the spec no longer transcribes the code.
        bad = tlc.run(ctx, "RefreshHold", "RefreshHold_mc_explicit_other.cfg", workers=workers, timeout=1800,
                      name="tlc_explicit_other")
        if bad.kind != "invariant" or bad.name != "OtherBound":
            raise InfraError("expected OtherBound counterexample with explicit durations, got %s" % bad.summary())
        notes.append("explicit-duration HoldRefresh can exceed the 48h bound (TLC counterexample of %d states); "
                     "no production caller passes a duration" % len(bad.trace))

    # ---------------------------------------------------------------- conformance
    tb = goharness.overlay_test_build(ctx, "overlord/snapstate", OVERLAY)
    cwd = os.path.join(common.REPO, "overlord", "snapstate")
    tdir = ctx.subdir("traces")
    violations = []
    divergences = []
    totals = {"traces": 0, "calls": 0, "refused": 0, "distinct_hold_states": 0, "events": 0}
    samples = []
    corrupt = None
    real_refreshes = 0
    failed_refreshes = 0
    hook_runs = 0
    # phase 1: run the four drivers against the real code
    plan = (("default", "TraceRefreshHold.cfg", ctx.pick(120, 1500), ctx.pick(32, 40)),
            ("explicit", "TraceRefreshHoldExplicit.cfg", ctx.pick(30, 400), ctx.pick(32, 40)),
            # refreshes through the real snapstate.Update + task runner (link-snap)
            ("realrefresh", "TraceRefreshHold.cfg", ctx.pick(6, 48), 14),
            # whole gate-auto-refresh hook runs: real hook handler + real snapctl refresh --hold/--proceed
            ("hookrun", "TraceRefreshHold.cfg", ctx.pick(40, 1500), 14))
    groups = {}          # trace cfg -> rows (modes sharing a cfg are validated in one TLC run; every history starts
    case_base = 0        # with a Reset event, so concatenation is a behaviour of the trace spec)
    for mode, tcfg, n, length in plan:
        out = os.path.join(tdir, "hold_%s.ndjson" % mode)
        entry = {"realrefresh": "^TestVerifHoldReal$", "hookrun": "^TestVerifHoldCtl$"}.get(mode, "^TestVerifHold$")
        if mode == "hookrun":
            tb = goharness.overlay_test_build(ctx, "overlord/hookstate/ctlcmd", CTL_OVERLAY)
            cwd = os.path.join(common.REPO, "overlord", "hookstate", "ctlcmd")
        rc, o = goharness.run_test_bin(ctx, tb, entry, cwd=cwd, timeout=1800,
                                       env={"VERIF_OUT": out, "VERIF_N": n, "VERIF_LEN": length,
                                            "VERIF_EXPLICIT": "1" if mode == "explicit" else "0"})
        goharness.check_driver(rc, o, "hold driver (%s)" % mode)
        st = conf.stats_line(o)
        rows = conf.load(out)
        for k in ("traces", "calls", "refused", "distinct_hold_states"):
            totals[k] += st[k]
        real_refreshes += st.get("real_refreshes", 0)
        failed_refreshes += st.get("failed_undone_refreshes", 0)
        if mode == "hookrun":
            hook_runs = st["calls"]
        totals["events"] += len(rows)
        for ev in rows:
            ev["case"] += case_base
            ev["mode"] = mode
        case_base += st["traces"]
        groups.setdefault(tcfg, []).extend(rows)
        if mode == "default":
            for ev in rows:
                if ev["ev"] == "Hold" and len(samples) < 4 and (not ev["res"]["ok"] or len(samples) % 2 == 0):
                    samples.append({"call": _ev_summary(ev), "clock_h": ev["st"]["now"], "result": ev["res"],
                                    "held_snaps_auto": ev["st"]["reported"][0]})
    # phase 2: validate against the trace spec
    for tcfg, rows in groups.items():
        name = tcfg.replace("TraceRefreshHold", "hold").replace(".cfg", "") or "hold"
        out = os.path.join(tdir, "%s_all.ndjson" % name)
        common.write_ndjson(out, rows)
        r = conf.two_pass(ctx, "TraceRefreshHold", tcfg, out, name, timeout=ctx.pick(1800, 7200))
        ctx.log("trace validation %s (%s): %d events, accepted=%s"
                % (tcfg, "+".join(sorted(set(ev["mode"] for ev in rows))), len(rows), r["accepted"]))
        if not r["accepted"]:
            mode = rows[r["line"] - 1]["mode"]
            if r["kind"] == "stuck":
                raise InfraError("hold trace %s: lenient pass stuck at line %s (driver log inconsistent)" % (mode, r.get("lenient_line")))
            if r["kind"] == "divergence":
                evs = conf.case_events(rows, r["line"])
                divergences.append("hold trace %s: real step %s (result %s) deviates from RefreshHold at line %d without "
                                   "violating any C15 invariant -- model/code divergence to triage (history: %s)"
                                   % (mode, _ev_summary(evs[-1]), evs[-1]["res"], r["line"],
                                      " ; ".join(_ev_summary(e) for e in evs[-6:])))
                continue
            violations.append(_violation(rows, r, mode))
        elif tcfg == "TraceRefreshHold.cfg" and not violations and not divergences:
            corrupt = conf.corruption_check(ctx, "TraceRefreshHold", tcfg, out, _corrupt, "hold")
    if divergences and not violations:
        raise InfraError(divergences[0])
    if totals["refused"] < 5 or totals["distinct_hold_states"] < 20:
        raise InfraError("vacuity guard: real executions too thin: %s" % totals)

    violations = _dedupe(violations)
    if not samples and violations:
        samples = [{"violating_case": violations[0].key}]
    return Result(
        level="model_checking",
        coverage={
            "states": mc.distinct, "transitions": mc.generated, "tlc_wall_s": round(mc.wall, 1), "tlc_config": cfg,
            "tlc_explicit_states": mcx.distinct, "tlc_3snaps_states": mc3.distinct if mc3 else None,
            "tlc_deep_states": deep.distinct if deep else None, "tlc_deep_transitions": deep.generated if deep else None,
            "action_coverage": tlc.coverage_summary(mc),
            "invariants": INVS,
            "traces_validated_against_impl": totals["traces"],
            "real_calls": totals["calls"], "refreshes_through_real_task_runner": real_refreshes,
            "of_which_failed_and_undone_after_link_snap": failed_refreshes,
            "real_gate_auto_refresh_hook_runs": hook_runs, "real_events": totals["events"], "real_refusals": totals["refused"],
            "distinct_real_hold_states": totals["distinct_hold_states"],
            "binding_selfcheck": corrupt,
            "samples": samples,
        },
        assumptions=[
            "time in whole hours; clock mocked through snapstate.MockTimeNow",
            "OtherBound (48h) is claimed for default-duration holds only, as issued by snapctl refresh --hold and the "
            "gate-auto-refresh error path (both pass holdDuration=0); explicit durations are bound for the 90-day rule only",
            "a hold episode of g on s is the lifetime of the entry snaps-hold[s][g] (a refusal or --proceed ends it)",
            "system holds requested for a time strictly in the future",
            "the 90-day invariants are judged against the spec's own lastRefresh (moved only by a SUCCESSFUL refresh), not "
            "against what the code reports as last refresh; the two are compared in the strict pass",
            "hookrun traces use the real clock: time advances by shifting the stored timestamps, values are rounded to whole "
            "virtual hours and ticks never land exactly on a boundary there (exact boundaries are covered by the mocked-clock traces)",
            "refresh = resetGatingForRefreshed (as doInstall calls it) + LastRefreshTime update (as doLinkSnap does) in the "
            "fast driver; the realrefresh traces go through snapstate.Update and the real link-snap handler instead",
        ],
        violations=violations, notes=notes)
