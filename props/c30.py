"""C30: registry views enforce access and rejected writes change nothing (see _registryview.py)."""
from props import _registryview


def run(ctx):
    return _registryview.run(ctx)
