"""C21: interface connection decisions follow the declared policy rules (spec/IfacePolicy.tla)."""
from props import _ifacepolicy


def run(ctx):
    return _ifacepolicy.run(ctx)
