"""C19 -- shared logic: AssertDB.tla (design) + T->I replay of TLC behaviours into two real assertion
databases (memory backstore, filesystem backstore)."""
import glob
import json
import os
import re

from lib import common, tlc, goharness, findings, tlaparse
from lib.common import InfraError, Violation

OVERLAY = ["/verif/harness/overlay/asserts/zz_verif_assertdb_test.go"]
PREDEF_REV = 1      # must equal PredefRev in the cfgs

# Order-preserving materialisations of the abstract sequence numbers 1..5 as concrete `sequence` headers.
# The spec stays small; the real side uses awkward numbers that straddle digit counts, so that an
# on-disk enumeration ordered as strings (or any per-digit artefact) disagrees with the numeric order.
SEQ_MAPS = [[2, 10, 100, 101, 1000], [9, 10, 11, 99, 100], [1, 2, 3, 4, 5], [8, 9, 10, 20, 100], [3, 20, 100, 1000, 10000],
            [1, 10, 11, 100, 111]]


def seq_map(seed, case):
    return SEQ_MAPS[(seed + case) % len(SEQ_MAPS)]


_last_re = re.compile(r'^/\\ last = (.*?)(?=^\s*$|^/\\ |\Z)', re.M | re.S)


_cov_re = re.compile(r'^<(\w+) line \d+, col \d+ to line \d+, col \d+ of module \w+(?: \([\d ]+\))?>: (\d+):(\d+)', re.M)


def action_coverage(res):
    """lib.tlc's coverage regex misses TLC's `<Add line .. of module M (105 8 109 44)>: d:t` form (action
    with a location suffix); parse it here. -> {action: total}"""
    cov = {}
    for m in _cov_re.finditer(res.out):
        cov[m.group(1)] = cov.get(m.group(1), 0) + int(m.group(3))
    return cov


def require_actions(res, names):
    cov = action_coverage(res)
    missing = [n for n in names if cov.get(n, 0) == 0]
    if missing:
        raise InfraError("vacuity guard: action(s) never taken in %s: %s" % (res.dir, ", ".join(missing)))
    return cov


def behaviours_from_sim(res):
    """-> list of behaviours; each a list of `last` records (python dicts) in order (Init dropped)."""
    out = []
    for f in sorted(glob.glob(os.path.join(res.dir, "sim_*"))):
        with open(f) as fh:
            txt = fh.read()
        ops = []
        for m in _last_re.finditer(txt):
            v = tlaparse.parse_value(m.group(1).strip())
            if v.get("op") == "Init":
                continue
            ops.append(v)
        out.append(ops)
    return out


def _norm_many(many):
    s = set()
    for h in (many or []):
        i = h["id"]
        s.add((i["t"], i["k"], int(i["n"]), int(h["rev"]), int(h["fmt"])))
    return sorted(s)


def norm_expected(last):
    """Project the spec's result record to the fields that are observable for this result class."""
    r = last["res"]
    k = r["r"]
    if k in ("ok", "clash-trusted", "clash-predefined", "notfound"):
        return {"r": k}
    if k == "revision":
        return {"r": k, "rev": r["rev"], "cur": r["cur"]}
    if k == "unsupported":
        return {"r": k, "fmt": r["fmt"], "upd": bool(r["upd"])}
    if k == "found":
        if last["op"] == "FindMany":
            return {"r": k, "many": _norm_many(r["many"])}
        return {"r": k, "rev": r["rev"], "fmt": r["fmt"], "n": r["n"]}
    raise InfraError("unknown spec result class %r" % (k,))


def norm_real(op, r):
    k = r["r"]
    if k in ("ok", "clash-trusted", "clash-predefined", "notfound"):
        return {"r": k}
    if k == "revision":
        return {"r": k, "rev": r["rev"], "cur": r["cur"]}
    if k == "unsupported":
        return {"r": k, "fmt": r["fmt"], "upd": bool(r["upd"])}
    if k == "found":
        if op == "FindMany":
            return {"r": k, "many": _norm_many(r.get("many"))}
        return {"r": k, "rev": r["rev"], "fmt": r["fmt"], "n": r["n"]}
    return {"r": k, "msg": r.get("msg", "")}


def op_line(case, i, last):
    d = {"case": case, "i": i, "op": last["op"]}
    for k in ("id", "rev", "fmt", "mf", "after", "par", "typ", "key"):
        if k in last:
            d[k] = last[k]
    d["exp"] = norm_expected(last)
    return d


def show(op):
    o = op["op"]
    if "id" in op and op["id"]:
        i = op["id"]
        ids = "%s/%s" % (i["t"], i["k"]) + ("/%d" % i["n"] if i["t"] == "seq" else "")
    if o == "Add":
        return "Add(%s,rev=%d,fmt=%d)" % (ids, op["rev"], op["fmt"])
    if o == "FindMaxFormat":
        return "FindMaxFormat(%s,mf=%d)" % (ids, op["mf"])
    if o in ("Find", "FindPredefined", "FindTrusted"):
        return "%s(%s)" % (o, ids)
    if o == "FindMany":
        return "FindMany(%s,key=%s,par=%d)" % (op["typ"], op.get("key", ""), op["par"])
    if o == "FindSequence":
        return "FindSequence(%s,after=%d,mf=%d)" % (op["key"], op["after"], op["mf"])
    return o


def _refinement_op(op):
    """Operations whose exact result the statement does not fix (format-limited views)."""
    if op["op"] == "FindMaxFormat":
        return True
    if op["op"] == "FindSequence" and op["mf"] not in (-1, 2):
        return True
    return False


def classify(op, exp, mem, fs):
    """-> None | ("violation"|"spec-mismatch", text).

    The statement of C19 demands: (1) mem and fs agree on every result; (2) what Find/FindMany/
    FindSequence return is the highest revision successfully added (= the spec's answer as long as
    all earlier Adds had the spec's outcome, TLC-checked invariant Monotone); (3) an Add of a revision
    <= current, or clashing with trusted/predefined, is refused.  It does NOT demand that an Add the
    spec accepts is accepted, nor the details of error values, nor the format-limited views: a
    disagreement there with both stores agreeing is a spec/code mismatch to triage (exit 2)."""
    if mem != fs:
        return ("violation", "memory and filesystem backstores disagree: mem=%s fs=%s (spec=%s)" % (mem, fs, exp))
    real = mem
    if real == exp:
        return None
    if op["op"] == "Add":
        if exp["r"] != "ok" and real["r"] == "ok":
            return ("violation", "Add that must be refused (%s) was accepted" % exp["r"])
        return ("spec-mismatch", "Add outcome differs from the spec: spec=%s real=%s" % (exp, real))
    if real["r"] in ("wrong-identity", "inconsistent-assertion"):
        return ("violation", "lookup returned a wrong assertion: %s" % real)
    if _refinement_op(op):
        return ("spec-mismatch", "format-limited lookup differs from the spec: spec=%s real=%s" % (exp, real))
    return ("violation", "lookup result is not the highest revision added: spec=%s real=%s" % (exp, real))


def run_driver(ctx, cases, tag):
    """cases: list of lists of op dicts (op_line format). Runs them on the two real databases.
    -> (rows with "mem"/"fs" results, stats)"""
    d = ctx.subdir("dbreplay_" + tag)
    inp, outp = os.path.join(d, "ops.ndjson"), os.path.join(d, "res.ndjson")
    tmp = os.path.join(d, "fs")
    os.makedirs(tmp)
    rows = []
    for c, ops in enumerate(cases):
        rows.append({"case": c, "op": "Reset", "predef_rev": PREDEF_REV, "seqmap": seq_map(ctx.seed, c)})
        rows.extend(ops)
    common.write_ndjson(inp, rows)
    tb = goharness.overlay_test_build(ctx, "asserts", OVERLAY)
    rc, o = goharness.run_test_bin(ctx, tb, "^TestVerifAssertDB$", cwd=os.path.join(common.REPO, "asserts"),
                                   env={"VERIF_IN": inp, "VERIF_OUT": outp, "VERIF_TMP": tmp},
                                   timeout=ctx.pick(900, 3000))
    goharness.check_driver(rc, o, "assertdb driver")
    m = re.search(r'VERIF-STATS cases=(\d+) ops=(\d+) signed=(\d+)', o)
    if not m:
        raise InfraError("assertdb driver printed no stats:\n%s" % common.tail(o, 20))
    got = common.read_ndjson(outp)
    for r in got:       # the concrete sequence numbers used for this behaviour (for replay files)
        r["seqmap"] = seq_map(ctx.seed, r["case"])
    n_ops = sum(len(b) for b in cases)
    if len(got) != n_ops or int(m.group(2)) != n_ops:
        raise InfraError("assertdb driver answered %d of %d operations" % (len(got), n_ops))
    return got, {"real_ops": 2 * n_ops, "signed_assertions": int(m.group(3))}


def replay(ctx, behaviours, tag="sim"):
    """T->I: apply TLC behaviours to the real databases. -> (evaluation, stats, rows)"""
    cases = [[op_line(c, i, last) for i, last in enumerate(ops)] for c, ops in enumerate(behaviours)]
    got, stats = run_driver(ctx, cases, tag)
    return evaluate(behaviours, got), stats, got


def random_histories(ctx, n, depth):
    """I->T generator, beyond the TLC constants of the exhaustive/simulate configs (must stay inside
    TraceAssertDB.cfg: 3 plain keys, 2 sequence keys x 5, revisions 0..6)."""
    import random
    rnd = random.Random(ctx.seed * 7919 + 17)
    cases = []
    for c in range(n):
        plain = rnd.sample(["a", "b", "c"], rnd.randint(1, 3))
        skeys = rnd.sample(["s", "t"], rnd.randint(1, 2))
        nseq = rnd.randint(2, 5)
        def some_id(storable_bias=0.85):
            x = rnd.random()
            if x < storable_bias / 2:
                return {"t": "plain", "k": rnd.choice(plain), "n": 0}
            if x < storable_bias:
                return {"t": "seq", "k": rnd.choice(skeys), "n": rnd.randint(1, nseq)}
            return rnd.choice([{"t": "predef", "k": "p", "n": 0}, {"t": "trusted", "k": "canonical", "n": 0}])
        ops = []
        for i in range(depth):
            x = rnd.random()
            d = {"case": c, "i": i}
            if x < 0.5:
                ident = some_id()
                fm = {"plain": [0, 0, 1, 1, 2], "predef": [0, 1, 2], "trusted": [0], "seq": [0, 0, 1, 2, 2, 3]}[ident["t"]]
                d.update(op="Add", id=ident, rev=rnd.randint(0, 6), fmt=rnd.choice(fm))
            elif x < 0.6:
                d.update(op="Find", id=some_id(0.9))
            elif x < 0.68:
                ident = some_id(1.0)
                d.update(op="FindMaxFormat", id=ident, mf=rnd.randint(0, 2 if ident["t"] == "seq" else 1))
            elif x < 0.72:
                d.update(op=rnd.choice(["FindPredefined", "FindTrusted"]), id=some_id(0.5))
            elif x < 0.84:
                typ = rnd.choice(["plain", "seq"])
                key = rnd.choice([""] + (plain + ["p"] if typ == "plain" else skeys))
                d.update(op="FindMany", typ=typ, key=key, par=rnd.choice([-1, 0, 1]))
            else:
                d.update(op="FindSequence", key=rnd.choice(skeys), after=rnd.randint(-1, nseq), mf=rnd.randint(-1, 2))
            ops.append(d)
        cases.append(ops)
    return cases


def trace_validate(ctx, cases):
    """I->T: random histories on the real databases, validated by TLC against TraceAssertDB.
    -> (violations, mismatches, stats)"""
    got, stats = run_driver(ctx, cases, "rand")
    violations, mismatches = [], []
    events = []
    line_of = []
    cur = None
    dead = set()          # cases already reported (mem != fs): dropped from the trace
    by_case = {}
    for r in got:
        by_case.setdefault(r["case"], []).append(r)
    for c in sorted(by_case):
        rows = by_case[c]
        hist = []
        kept = []
        for r in rows:
            mem, fs = norm_real(r["op"], r["mem"]), norm_real(r["op"], r["fs"])
            if mem != fs or mem["r"] in ("error", "wrong-identity", "inconsistent-assertion"):
                where = "%s after [%s]" % (show(r), " ".join(hist))
                why = ("memory and filesystem backstores disagree: mem=%s fs=%s" % (mem, fs)) if mem != fs else \
                    "lookup returned a wrong assertion / unexpected error: %s" % mem
                violations.append(Violation(key=where, desc="%s: %s" % (where, why),
                                            replay={"case": c, "i": r["i"], "mem": r["mem"], "fs": r["fs"], "concrete_sequence_numbers": r.get("seqmap"),
                                                    "behaviour": [show(x) for x in rows[:r["i"] + 1]]}))
                break
            kept.append(r)
            if r["op"] == "Add" and mem["r"] == "ok":
                hist.append(_hist_item(r))
        events.append({"ev": "Reset", "case": c})
        line_of.append((c, -1))
        for r in kept:
            ev = {"ev": r["op"], "case": c, "i": r["i"]}
            for k in ("id", "rev", "fmt", "mf", "after", "par", "typ", "key"):
                if k in r and r[k] is not None:
                    ev[k] = r[k]
            if r["op"] == "FindMany":
                ev.setdefault("key", "")
            res = dict(r["mem"])
            res["many"] = res.get("many") or []
            res.pop("msg", None)
            ev["res"] = res
            events.append(ev)
            line_of.append((c, r["i"]))
    d = ctx.subdir("dbtrace")
    tpath = os.path.join(d, "trace.ndjson")
    common.write_ndjson(tpath, events)
    n_cases = len(by_case)
    tv = tlc.validate_trace(ctx, "TraceAssertDB", "TraceAssertDB.cfg", tpath, timeout=ctx.pick(900, 3000))
    while not tv["accepted"]:
        c, i = line_of[tv["stuck_line"] - 1]
        rows = by_case[c]
        r = rows[i] if i >= 0 else None
        if r is None:
            raise InfraError("trace validation stuck on a Reset line (%d)" % tv["stuck_line"])
        hist = [_hist_item(x) for x in rows[:i] if x["op"] == "Add" and x["mem"]["r"] == "ok"]
        where = "%s after [%s]" % (show(r), " ".join(hist))
        real = norm_real(r["op"], r["mem"])
        rec = {"case": c, "i": i, "op": show(r), "real": r["mem"], "tlc": tv["invariant"] or "step not allowed by AssertDB",
               "behaviour": [show(x) for x in rows[:i + 1]]}
        if tv["invariant"]:
            violations.append(Violation(key=where, desc="%s: real state violates %s" % (where, tv["invariant"]), replay=rec))
        elif r["op"] == "Add" and real["r"] != "ok":
            mismatches.append(dict(rec, why="Add refused differently from the spec"))
        elif r["op"] != "Add" and _refinement_op(r):
            mismatches.append(dict(rec, why="format-limited lookup differs from the spec"))
        else:
            violations.append(Violation(key=where, desc="%s: real result %s is not what AssertDB allows (%s)" % (
                where, real, "accepted an Add that must be refused" if r["op"] == "Add" else "not the highest revision added"),
                replay=rec))
        # drop the offending case and validate the rest (at most a few rounds)
        if len(violations) + len(mismatches) >= 5:
            break
        keep = [(e, lo) for e, lo in zip(events, line_of) if e["case"] != c]
        events, line_of = [k[0] for k in keep], [k[1] for k in keep]
        if not events:
            break
        common.write_ndjson(tpath, events)
        tv = tlc.validate_trace(ctx, "TraceAssertDB", "TraceAssertDB.cfg", tpath, timeout=ctx.pick(900, 3000),
                                name="trace_TraceAssertDB_%d" % (len(violations) + len(mismatches)))
    stats.update({"histories": n_cases, "events": len(events)})
    return violations, mismatches, stats, events


def _hist_item(r):
    i = r["id"]
    return "%s/%s%s:r%df%d" % (i["t"], i["k"], ("/%d" % i["n"]) if i["t"] == "seq" else "", r["rev"], r["fmt"])


def evaluate(behaviours, got):
    """Compare real results (list of output rows) with the expectations. -> dict(violations, mismatches, classes, abstract_states)"""
    by_case = {}
    for r in got:
        by_case.setdefault(r["case"], []).append(r)
    violations, mismatches = [], []
    classes = {}
    states = set()
    for c, ops in enumerate(behaviours):
        rows = by_case.get(c, [])
        hist = []        # successful real adds so far (on the memory db)
        added = {}
        for r in rows:
            op = r
            exp = r["exp"]
            if exp.get("r") == "found" and "many" in exp:
                exp = dict(exp, many=[tuple(x) for x in exp["many"]])
            mem, fs = norm_real(r["op"], r["mem"]), norm_real(r["op"], r["fs"])
            classes[(r["op"], mem["r"])] = classes.get((r["op"], mem["r"]), 0) + 1
            verdict = classify(op, exp, mem, fs)
            if verdict is not None:
                where = "%s after [%s]" % (show(op), " ".join(hist))
                rec = {"case": c, "i": r["i"], "op": show(op), "history": list(hist), "spec": exp, "mem": r["mem"],
                       "fs": r["fs"], "why": verdict[1], "concrete_sequence_numbers": r.get("seqmap"),
                       "behaviour": [show(x) for x in rows[:r["i"] + 1]]}
                if verdict[0] == "violation":
                    violations.append(Violation(key=where, desc="%s: %s" % (where, verdict[1]), replay=rec))
                else:
                    mismatches.append(rec)
                break    # later steps of this behaviour are no longer comparable
            if r["op"] == "Add" and mem["r"] == "ok":
                i = r["id"]
                hist.append("%s/%s%s:r%df%d" % (i["t"], i["k"], ("/%d" % i["n"]) if i["t"] == "seq" else "",
                                                  r["rev"], r["fmt"]))
                added[(i["t"], i["k"], i["n"], r["fmt"])] = r["rev"]
                states.add(tuple(sorted(added.items())))
    return {"violations": violations, "mismatches": mismatches, "classes": classes, "abstract_states": len(states)}


REQUIRED_CLASSES = [("Add", "ok"), ("Add", "revision"), ("Add", "unsupported"), ("Add", "clash-trusted"),
                    ("Add", "clash-predefined"), ("Find", "found"), ("Find", "notfound"),
                    ("FindMaxFormat", "found"), ("FindMany", "found"), ("FindMany", "notfound"),
                    ("FindSequence", "found"), ("FindSequence", "notfound"), ("FindPredefined", "found"),
                    ("FindPredefined", "notfound"), ("FindTrusted", "found"), ("FindTrusted", "notfound")]


def run(ctx):
    # 1. design: exhaustive TLC on the write actions with all read properties as quantified invariants
    cfg = ctx.pick("AssertDB_mc.cfg", "AssertDB_mc_thorough.cfg")
    if os.environ.get("VERIF_DEV_FAST"):      # developer shortcut for mutation loops: smallest design run
        cfg = "AssertDB_mc.cfg"
    mc = tlc.run(ctx, "AssertDB", cfg, coverage=True, workers=ctx.pick(8, 16), timeout=ctx.pick(900, 3000))
    if not mc.ok:
        raise InfraError("spec-level counterexample in AssertDB (%s): %s\n%s" % (cfg, mc.summary(), common.tail(mc.out, 30)))
    cov_actions = require_actions(mc, ["Add"])
    ctx.log("TLC %s: %d distinct / %d generated states, depth %d, %.0fs" % (cfg, mc.distinct, mc.generated, mc.depth, mc.wall))

    # 2. T->I: behaviours of the full spec (reads + writes) from tlc -simulate, replayed on two real dbs
    num, depth = ctx.pick((250, 24), (3000, 30))
    sim = tlc.run(ctx, "AssertDB", "AssertDB_sim.cfg", simulate={"num": num, "file": True}, depth=depth,
                  seed=ctx.seed, workers=1, timeout=ctx.pick(900, 3000), name="tlc_AssertDB_sim")
    if not sim.ok:
        raise InfraError("tlc -simulate failed: %s\n%s" % (sim.summary(), common.tail(sim.out, 30)))
    behaviours = behaviours_from_sim(sim)
    if len(behaviours) < num:
        raise InfraError("expected %d simulated behaviours, parsed %d" % (num, len(behaviours)))
    ev, stats, got = replay(ctx, behaviours)
    ctx.log("replayed %d behaviours / %d real operations; %d violations, %d spec mismatches" % (
        len(behaviours), stats["real_ops"], len(ev["violations"]), len(ev["mismatches"])))

    # 3. I->T: random histories beyond the TLC bounds on the real databases, validated against TraceAssertDB
    nh, dh = ctx.pick((150, 40), (2000, 50))
    tviol, tmis, tstats, events = trace_validate(ctx, random_histories(ctx, nh, dh))
    ctx.log("trace-validated %d random histories / %d events; %d violations, %d spec mismatches" % (
        tstats["histories"], tstats["events"], len(tviol), len(tmis)))
    ev["violations"].extend(tviol)
    ev["mismatches"].extend(tmis)

    # binding self-check: corrupt one recorded real result and make sure the comparison rejects it
    neg = negative_control(behaviours, got)
    if not tviol and not tmis:
        neg = neg and trace_negative_control(ctx, events)

    # guards are enforced unless there is a violation that is not a listed known finding (which exits 1 anyway)
    if not findings.classify(ctx.prop, ev["violations"])[1]:
        if ev["mismatches"]:
            m = ev["mismatches"][0]
            raise InfraError("real code and AssertDB.tla disagree where the statement does not decide (triage): %s -- %s"
                             % (m["op"], m["why"]) + "\n" + json.dumps(m, default=str)[:1500])
        missing = [c for c in REQUIRED_CLASSES if ev["classes"].get(c, 0) == 0]
        if missing:
            raise InfraError("vacuity guard: result classes never observed on the real code: %s" % missing)
        if not neg:
            raise InfraError("binding self-check failed: a corrupted real result was not rejected")

    samples = []
    for r in got:
        if len(samples) >= 5:
            break
        if (r["op"], r["mem"]["r"]) in (("Add", "revision"), ("FindSequence", "found"), ("Add", "clash-predefined"),
                                        ("FindMany", "found"), ("Add", "unsupported")) and \
                not any(s["op"].split("(")[0] == r["op"] and s["real_mem"]["r"] == r["mem"]["r"] for s in samples):
            samples.append({"case": r["case"], "step": r["i"], "op": show(r), "spec": r["exp"],
                            "real_mem": r["mem"], "real_fs": r["fs"]})
    cov = {
        "states": mc.distinct, "transitions": mc.generated, "depth": mc.depth,
        "tlc_config": cfg, "tlc_wall_s": round(mc.wall, 1),
        "action_coverage": cov_actions,
        "traces_validated_against_impl": len(behaviours) + tstats["histories"],
        "random_histories_trace_validated": tstats["histories"], "random_history_events": tstats["events"],
        "random_history_real_operations": tstats["real_ops"],
        "simulated_behaviours": len(behaviours), "behaviour_depth": depth,
        "real_operations": stats["real_ops"], "distinct_signed_assertions": stats["signed_assertions"],
        "distinct_abstract_db_states_reached_by_real_code": ev["abstract_states"],
        "result_classes_observed": {"%s/%s" % k: v for k, v in sorted(ev["classes"].items())},
        "negative_control_corrupted_result_rejected": neg,
        "spec_mismatches": len(ev["mismatches"]),
        "samples": samples,
    }
    return common.Result(
        level="model_checking", coverage=cov, violations=ev["violations"],
        assumptions=[
            "assertions are test-only / test-only-seq / account, signed with a real RSA key trusted by both databases",
            "one general backstore per database (no stacked backstores); single goroutine",
            "revisions 0..3, formats 0..3, sequence numbers 1..3, 2 plain keys, 2 sequence keys in replayed behaviours; "
            "abstract sequence numbers are materialised through seeded order-preserving maps onto concrete numbers that "
            "straddle digit counts (e.g. 2,10,100 / 9,10,11,99,100); FindSequence `after` also takes values between members",
            "error values other than the classes {revision(used,current), unsupported(format,update), clash-trusted, "
            "clash-predefined, notfound} are not compared",
        ])


def trace_negative_control(ctx, events):
    """Corrupt one logged result of a real trace (found revision + 1): TraceAssertDB must reject it."""
    import copy
    ev2 = copy.deepcopy(events[:400])
    for e in ev2:
        if e["ev"] == "Find" and e["res"]["r"] == "found" and e["id"]["t"] in ("plain", "seq"):
            e["res"]["rev"] += 1
            break
    else:
        return False
    p = os.path.join(ctx.subdir("dbtrace_neg"), "trace.ndjson")
    common.write_ndjson(p, ev2)
    tv = tlc.validate_trace(ctx, "TraceAssertDB", "TraceAssertDB.cfg", p, timeout=900, name="trace_TraceAssertDB_neg")
    return not tv["accepted"]


def negative_control(behaviours, got):
    """Corrupt one real 'found' result (revision+1) in a copy of the observations: evaluate() must flag it."""
    import copy
    for idx, r in enumerate(got):
        if r["op"] == "Find" and r["mem"]["r"] == "found" and r["id"]["t"] in ("plain", "seq"):
            g2 = copy.deepcopy(got)
            g2[idx]["mem"]["rev"] += 1
            g2[idx]["fs"]["rev"] += 1
            ev = evaluate(behaviours, g2)
            return any(v.replay["case"] == r["case"] and v.replay["i"] == r["i"] for v in ev["violations"])
    return False
