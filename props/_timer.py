"""C16 -- refresh timer: shared machinery (see /verif/notes/C16.md, DESIGN.md section 6).

Layers
  design      RefreshTimerMC (RefreshTimer.tla with small abstract timers): TLC, invariants + action property
  queries     TimerMenu.tla (T->I: bounded schedule ASTs) -> real String/ParseSchedule/Schedule.Next/timeutil.Next
              -> NDJSON -> TimerQueries.tla (I->T: contract over the declarative Windows of TimerWindows.tla)
  round trip  real Parse(String(x)) vs x: normalised AST (Go) and Windows on a 60-day horizon (TimerRoundTrip.tla)
  grammar     TimerTokens.tla enumerates token strings, ValidTimer decides; real ParseSchedule on the same strings
  protocol    real autoRefresh.Ensure under seeded scenarios -> TraceRefreshTimer.tla (I->T)
"""
import collections
import json
import os
import re
import time
from concurrent.futures import ThreadPoolExecutor

from lib import common, tlc, goharness
from lib.common import Result, Violation, InfraError

TIMEUTIL_OVERLAY = os.path.join(common.HARNESS, "overlay", "timeutil", "zz_verif_timer_test.go")
SNAPSTATE_OVERLAY = os.path.join(common.HARNESS, "overlay", "snapstate", "zz_verif_timer_test.go")

ENSURE_BRANCHES = ["DoEnsureInFlight", "DoEnsureHeld", "DoEnsureWait", "DoEnsureMeteredSkip", "DoEnsureTooSoon",
                   "DoEnsureLaunchOK", "DoEnsureLaunchNetErr", "DoEnsureLaunchHeld"]
ENV_ACTIONS = ["DoTick", "DoChangeDone", "DoExternalInFlight", "DoSetHold", "DoScheduleChanged", "DoRestart",
               "DoSetLastRefresh"]


def _load_json(path, what):
    if not os.path.exists(path):
        raise InfraError("%s: TLC did not write %s" % (what, path))
    with open(path) as f:
        return json.load(f)


def _tlc_table(ctx, module, env, name, timeout, what, heap=None):
    """Run a constant-level (table) module; any failure is infrastructure (the verdicts are in its JSON output)."""
    r = tlc.run(ctx, module, module + ".cfg", workers=1, env=env, timeout=timeout, name=name, heap=heap)
    if not r.ok:
        raise InfraError("%s: TLC did not finish cleanly: %s\n%s" % (what, r.summary(), common.tail(r.out, 25)))
    return r


# ----------------------------------------------------------------------------------------------- design

def design(ctx):
    cfg = ctx.pick("RefreshTimer_mc.cfg", "RefreshTimer_mc_thorough.cfg")
    mc = tlc.run(ctx, "RefreshTimerMC", cfg, workers=ctx.pick(4, 8), coverage=True,
                 timeout=ctx.pick(1800, 5400))
    if not mc.ok:
        raise InfraError("spec-level counterexample / failure in RefreshTimerMC (%s): %s\n%s" % (
            cfg, mc.summary(), common.tail(mc.out, 30)))
    tlc.require_coverage(mc, ENSURE_BRANCHES + ENV_ACTIONS)
    return mc


# ----------------------------------------------------------------------------------------------- queries

def diagnose_not_a_window(timer, w):
    """Name the one deviation we know: a part of a "/N"-split clock span that crosses midnight is anchored
    on the morning of the *same* day instead of the following day (timeutil.ClockSpan.ClockSpans wraps the
    clock at 24h, ClockSpan.Window anchors every part on the same date)."""
    for sched, win in zip(timer, w):
        for cs in sched["cs"]:
            if cs["split"] <= 1 or cs["s"] == cs["e"]:
                continue
            span = cs["e"] - cs["s"] if cs["e"] >= cs["s"] else 1440 - (cs["s"] - cs["e"])
            part = span // cs["split"]
            for i in range(cs["split"]):
                m = cs["s"] + (i * span) // cs["split"]
                if m >= 1440 and win["s"] % 86400 == (m - 1440) * 60 and win["e"] - win["s"] == part * 60:
                    return "split-part-after-midnight-anchored-on-same-day", "%02d:%02d%s%02d:%02d/%d" % (
                        cs["s"] // 60, cs["s"] % 60, "~" if cs["spread"] else "-", cs["e"] // 60, cs["e"] % 60, cs["split"])
    return None, None


def queries(ctx, tb, menu_path):
    d = ctx.subdir("queries")
    scheds, qfile, rtfile = [os.path.join(d, n) for n in ("timers.ndjson", "queries.ndjson", "roundtrip.ndjson")]
    env = {"VERIF_MODE": "queries", "VERIF_MENU": menu_path, "VERIF_SCHEDS": scheds, "VERIF_OUT": qfile,
           "VERIF_RT": rtfile, "VERIF_N": ctx.pick(10000, 400000), "VERIF_SINGLES": ctx.pick(300, 100000),
           "VERIF_PAIRS": ctx.pick(60, 1500)}
    rc, o = goharness.run_test_bin(ctx, tb, "^TestVerifTimer$", env=env, timeout=ctx.pick(300, 1500))
    goharness.check_driver(rc, o, "timeutil query driver")
    timers = common.read_ndjson(scheds)
    with open(qfile) as f:
        lines = f.readlines()
    nchunks = ctx.pick(2, 8)
    per = (len(lines) + nchunks - 1) // nchunks
    chunks = []
    for k in range(nchunks):
        part = lines[k * per:(k + 1) * per]
        if not part:
            continue
        p = os.path.join(d, "chunk%d.ndjson" % k)
        with open(p, "w") as f:
            f.writelines(part)
        chunks.append((k, p, k * per))

    def validate(c):
        k, p, off = c
        res = os.path.join(d, "res%d.json" % k)
        _tlc_table(ctx, "TimerQueries", {"VERIF_SCHEDS": scheds, "VERIF_TRACE": p, "VERIF_OUT": res},
                   "tlc_queries_%d" % k, ctx.pick(900, 3000), "query validation chunk %d" % k, heap="3g")
        return off, _load_json(res, "query validation")

    with ThreadPoolExecutor(max_workers=ctx.pick(2, 4)) as ex:
        results = list(ex.map(validate, chunks))

    stats = collections.Counter()
    bad = []
    for off, r in results:
        for k, v in r["stats"].items():
            stats[k] += v
        for b in r["bad"]:
            bad.append((off + b["i"] - 1, b["why"]))
    bad.sort()
    if stats["n"] != len(lines):
        raise InfraError("query validation looked at %d of %d records" % (stats["n"], len(lines)))
    # vacuity: every branch of the contract must have been exercised by real queries
    for k in ("fallback", "overdue", "started", "spread"):
        if stats[k] == 0:
            raise InfraError("vacuity guard: no query exercised the %r case" % k)

    violations = []
    seen = set()
    classes = collections.Counter()
    for idx, why in bad:
        q = json.loads(lines[idx])
        t = timers[q["t"] - 1]
        diag, span = diagnose_not_a_window(t["timer"], q["w"]) if why == "not-a-window" else (None, None)
        label = diag or why
        classes[label] += 1
        # a diagnosed (named) deviation is reported once per offending clock span; anything else once per
        # (clause, timer string), the key naming the clause, the timer and the first failing query
        group = (label, span) if diag else (label, t["str"])
        if group in seen:
            continue
        seen.add(group)
        if diag:
            key = "%s: clock span %s" % (label, span)
        else:
            key = "%s: timer=%s %s" % (label, t["str"], q["case"][len(t["str"]) + 1:])
        violations.append(Violation(
            key=key,
            desc="refresh.timer=%r (%s): real Schedule.Next/timeutil.Next result violates the window contract: %s" % (
                t["str"], q["case"][len(t["str"]) + 1:], label),
            replay={"kind": "query", "why": why, "class": label, "timer_str": t["str"], "timer_ast": t["timer"],
                    "query": q, "how": "timeutil.MockTimeNow(now); sched.Next(last); timeutil.Next(sched,last,max); "
                    "times are seconds since 2018-01-01T00:00:00Z"}))
    distinct = set()
    samples = []
    for i, ln in enumerate(lines):
        q = json.loads(ln)
        distinct.add((q["t"], tuple((w["s"], w["e"]) for w in q["w"]), q["dlo"] == 0))
        if i % max(1, len(lines) // 4) == 0 and len(samples) < 4:
            samples.append({"timer": timers[q["t"] - 1]["str"], "last": q["last"], "now": q["now"], "max": q["max"],
                            "windows": q["w"], "delay_s": [q["dlo"], q["dhi"]]})
    info = {"queries": len(lines), "timers": len(timers), "query_stats": dict(stats),
            "query_failure_classes": dict(classes), "distinct_outcomes": len(distinct), "samples": samples}
    return violations, info, rtfile, (scheds, qfile, lines)


def roundtrip(ctx, files, label):
    """files: list of NDJSON round-trip record files written by the Go driver."""
    d = ctx.subdir("roundtrip_" + label)
    allp = os.path.join(d, "all.ndjson")
    recs = []
    with open(allp, "w") as out:
        for p in files:
            for r in common.read_ndjson(p):
                recs.append(r)
                out.write(json.dumps({"case": r["case"], "a": r["a"], "b": r["b"], "d1": r["d1"], "d2": r["d2"]},
                                     separators=(",", ":")) + "\n")
    res = os.path.join(d, "res.json")
    _tlc_table(ctx, "TimerRoundTrip", {"VERIF_TRACE": allp, "VERIF_OUT": res}, "tlc_roundtrip_" + label,
               ctx.pick(900, 3000), "round-trip validation", heap="4g")
    r = _load_json(res, "round-trip validation")
    if r["n"] != len(recs):
        raise InfraError("round-trip validation looked at %d of %d records" % (r["n"], len(recs)))
    if r["nonempty"] < len(recs) // 2:
        raise InfraError("vacuity guard: most round-trip horizons contain no window (%d of %d)" % (r["nonempty"], len(recs)))
    violations = []
    badsem = {b["i"] - 1 for b in r["bad"]}
    for i, rec in enumerate(recs):
        why = None
        if rec.get("err"):
            why = "formatted timer not accepted: " + rec["err"]
        elif i in badsem:
            why = "different windows on days %d..%d" % (rec["d1"], rec["d2"])
        elif not rec["ast_equal"]:
            why = "different schedule (AST) after format+parse"
        if why:
            violations.append(Violation(
                key="roundtrip: %s -> %s" % (rec["str"], rec.get("str2", "?")),
                desc="Parse(String(x)) differs from x for timer %r (formatted %r): %s" % (rec["str"], rec.get("str2"), why),
                replay={"kind": "roundtrip", "record": rec, "why": why}))
    return violations, {"roundtrips": len(recs), "roundtrips_with_windows": r["nonempty"]}


# ----------------------------------------------------------------------------------------------- grammar

TOKEN_CLASS = {"mon": "wday", "mon1": "wdaynumber", "fri4": "wdaynumber", "sun5": "wdaynumber", "mon6": "wday+6",
               "fri0": "wday+0", "-": "-", "~": "~", ",": ",", "09:00": "time", "24:00": "time", "23:59": "time",
               "24:01": "24:01", "25:00": "25:00", "/2": "/count", "/10": "/count", "/0": "/0"}


def grammar(ctx, tb, alpha, maxlen):
    d = ctx.subdir("grammar_%s%d" % (alpha, maxlen))
    table = os.path.join(d, "valid.json")
    _tlc_table(ctx, "TimerTokens", {"VERIF_OUT": table, "VERIF_ALPHA": alpha, "VERIF_MAXLEN": str(maxlen)},
               "tlc_tokens_%s%d" % (alpha, maxlen), ctx.pick(900, 3000), "token table %s/%d" % (alpha, maxlen),
               heap="4g")
    tab = _load_json(table, "token table")
    alphabet = tab["alphabet"]
    valid = {tuple(v) for v in tab["valid"]}
    acc, rt = os.path.join(d, "accepted.ndjson"), os.path.join(d, "roundtrip.ndjson")
    rc, o = goharness.run_test_bin(ctx, tb, "^TestVerifTimer$", timeout=ctx.pick(300, 1200),
                                   env={"VERIF_MODE": "tokens", "VERIF_TOKENS": table, "VERIF_OUT": acc, "VERIF_RT": rt})
    goharness.check_driver(rc, o, "timeutil token driver")
    m = re.search(r"VERIF total=(\d+) accepted=(\d+)", o)
    if not m or int(m.group(1)) != tab["total"]:
        raise InfraError("token driver enumerated %s strings, TLC %d" % (m and m.group(1), tab["total"]))
    accepted = {tuple(r["toks"]) for r in common.read_ndjson(acc)}
    if not valid or not accepted:
        raise InfraError("vacuity guard: no valid / no accepted timer in the token table")

    def text(toks):
        return "".join(alphabet[i - 1] for i in toks)

    def frags(toks):
        out, cur = [], []
        for i in toks:
            if alphabet[i - 1] == ",":
                out.append(tuple(cur))
                cur = []
            else:
                cur.append(i)
        out.append(tuple(cur))
        return out

    wrongly_accepted = accepted - valid
    wrongly_rejected = valid - accepted
    violations = []
    for group, verb in ((wrongly_accepted, "accepts a timer outside the documented grammar"),
                        (wrongly_rejected, "rejects a timer of the documented grammar")):
        for toks in sorted(group, key=lambda t: (len(t), t)):
            # report root causes only: skip strings one of whose comma-separated fragments already disagrees alone
            if any(f != toks and f in group for f in frags(toks)):
                continue
            s = text(toks)
            cls = " ".join(TOKEN_CLASS.get(alphabet[i - 1], alphabet[i - 1]) for i in toks)
            violations.append(Violation(
                key="timer-grammar [%s]: ParseSchedule(%r) %s" % (cls, s, "accepted" if group is wrongly_accepted else "rejected"),
                desc="ParseSchedule %s: %r (token classes: %s); %d strings of this table disagree in this direction" % (
                    verb, s, cls, len(group)),
                replay={"kind": "grammar", "input": s, "tokens": [alphabet[i - 1] for i in toks], "alphabet": alpha,
                        "recogniser": "TimerWindows!ValidTimer", "real": "timeutil.ParseSchedule"}))
    info = {"strings": tab["total"], "valid_per_grammar": len(valid), "accepted_by_parser": len(accepted),
            "wrongly_accepted": len(wrongly_accepted), "wrongly_rejected": len(wrongly_rejected),
            "samples": [{"input": text(t), "spec": t in valid, "real": t in accepted}
                        for t in (sorted(valid)[:2] + sorted(wrongly_accepted)[:1])]}
    return violations, info, rt


# ----------------------------------------------------------------------------------------------- protocol

def protocol(ctx):
    tb = goharness.overlay_test_build(ctx, "overlord/snapstate", [SNAPSTATE_OVERLAY])
    d = ctx.subdir("protocol")
    timers, trace = os.path.join(d, "timers.ndjson"), os.path.join(d, "trace.ndjson")
    rc, o = goharness.run_test_bin(ctx, tb, "^TestVerifTimer$", cwd=os.path.join(common.REPO, "overlord/snapstate"),
                                   env={"VERIF_SCHEDS": timers, "VERIF_OUT": trace, "VERIF_N": ctx.pick(60, 1500)},
                                   timeout=ctx.pick(300, 1200))
    goharness.check_driver(rc, o, "autoRefresh.Ensure driver")
    evs = common.read_ndjson(trace)
    violations, info = validate_protocol_trace(ctx, timers, trace, evs, "protocol")
    return violations, info, (timers, trace, evs)


def validate_protocol_trace(ctx, timers, trace, evs, name, guard=True):
    tv = tlc.validate_trace(ctx, "TraceRefreshTimer", "TraceRefreshTimer.cfg", trace, env={"VERIF_SCHEDS": timers},
                            timeout=ctx.pick(900, 3000), name="trace_" + name)
    res = tv["res"]
    ensures = [e for e in evs if e["ev"] == "Ensure"]
    branches = collections.Counter()
    for e in ensures:
        branches["slow" if e["slow"] else "launch-" + e["out"] if e["attempted"] else
                 "inflight" if e["inflight"] and not e["attempted"] else "no-launch"] += 1
    info = {"protocol_events": len(evs), "protocol_ensure_passes": len(ensures),
            "protocol_scenarios": sum(1 for e in evs if e["ev"] == "Restart"),
            "protocol_slow_passes_skipped": branches["slow"], "protocol_observed": dict(branches),
            "protocol_trace_states": res.distinct}
    violations = []
    if not tv["accepted"]:
        line = None
        if tv["invariant"]:
            # the state that violates the invariant is the post-state of line l-1
            for st in reversed(res.trace):
                if "l" in st.get("vars", {}):
                    line = int(st["vars"]["l"]) - 1
                    break
        else:
            m = re.search(r'"STUCK",\s*(\d+)', res.out)
            if m:
                line = int(m.group(1))
        if line is None or not (1 <= line <= len(evs)):
            raise InfraError("protocol trace rejected but the line could not be located: %s\n%s" % (
                res.summary(), common.tail(res.out, 30)))
        ev = evs[line - 1]
        ctxt = evs[max(0, line - 4):line]
        violations.append(Violation(
            key="protocol %s: %s" % (tv["invariant"] or "step-not-allowed", ev.get("case", "line %d" % line)),
            desc="recorded autoRefresh.Ensure step is not a step of RefreshTimer.tla / breaks %s (trace line %d)" % (
                tv["invariant"] or "the next-state relation", line),
            replay={"kind": "protocol", "line": line, "event": ev, "preceding": ctxt, "invariant": tv["invariant"]}))
    elif guard and len(ensures) - branches["slow"] < max(5, len(ensures) // 2):
        raise InfraError("too many Ensure passes were too slow to be bracketed (%d of %d): overloaded machine" % (
            branches["slow"], len(ensures)))
    return violations, info


# ----------------------------------------------------------------------------------------------- binding self-test

def corruption_selftest(ctx, qfiles, pfiles):
    """Corrupting one recorded field of a real observation must make validation reject (binding is real)."""
    notes = []
    scheds, qfile, lines = qfiles
    d = ctx.subdir("selftest")
    # 1. a query record: move the reported window by one minute
    q = json.loads(lines[0])
    q["w"][0]["s"] += 60
    p = os.path.join(d, "q_corrupt.ndjson")
    with open(p, "w") as f:
        f.write(json.dumps(q) + "\n")
        f.writelines(lines[1:50])
    res = os.path.join(d, "q_res.json")
    _tlc_table(ctx, "TimerQueries", {"VERIF_SCHEDS": scheds, "VERIF_TRACE": p, "VERIF_OUT": res}, "tlc_selftest_q", 900,
               "selftest")
    r = _load_json(res, "selftest")
    if not any(b["i"] == 1 for b in r["bad"]):
        raise InfraError("selftest: a corrupted query record (window start +60s) was NOT rejected")
    notes.append("selftest: corrupted query record (window start +60s) rejected as %s" % [b["why"] for b in r["bad"] if b["i"] == 1][0])
    # 2. a protocol record: flip the recorded "the store was contacted" flag of one Ensure pass (whether a pass
    #    launches is fully determined by the spec; a shifted nextRefresh inside a long window would be allowed)
    if pfiles:
        timers, trace, evs = pfiles
        for i, e in enumerate(evs):
            if e["ev"] == "Ensure" and not e["slow"]:
                evs2 = [dict(x) for x in evs[:i + 1]]
                evs2[i]["attempted"] = not evs2[i]["attempted"]
                p2 = os.path.join(d, "p_corrupt.ndjson")
                common.write_ndjson(p2, evs2)
                v, _ = validate_protocol_trace(ctx, timers, p2, evs2, "selftest", guard=False)
                if not v:
                    raise InfraError("selftest: a corrupted Ensure record (attempted flipped) was NOT rejected")
                notes.append("selftest: corrupted Ensure record ('attempted' flipped at line %d) rejected" % (i + 1))
                break
    return notes


# ----------------------------------------------------------------------------------------------- entry

def run(ctx):
    t0 = time.time()
    violations = []
    notes = []
    cov = {}

    with ThreadPoolExecutor(max_workers=3) as ex:
        f_design = ex.submit(design, ctx)
        f_proto = ex.submit(protocol, ctx) if not os.environ.get("VERIF_C16_NO_PROTOCOL") else None

        # menu (T->I) and the timeutil driver
        menu = os.path.join(ctx.subdir("menu"), "menu.json")
        menv = {"VERIF_OUT": menu}
        for k in ("VERIF_NWS", "VERIF_NCS"):        # (calibration aid: restrict the menu)
            if os.environ.get(k):
                menv[k] = os.environ[k]
        _tlc_table(ctx, "TimerMenu", menv, "tlc_menu", 600, "menu export")
        tb = goharness.overlay_test_build(ctx, "timeutil", [TIMEUTIL_OVERLAY])

        f_gram = [ex.submit(grammar, ctx, tb, a, n) for a, n in ctx.pick([("A", 4)], [("A", 5), ("B", 4)])]
        qv, qinfo, rtfile, qfiles = queries(ctx, tb, menu)
        ctx.log("queries: %d records, %d rejected" % (qinfo["queries"], sum(qinfo["query_failure_classes"].values())))

        ginfo = {}
        rtfiles = [rtfile]
        for f in f_gram:
            gv, gi, grt = f.result()
            violations += gv
            rtfiles.append(grt)
            for k, v in gi.items():
                if k == "samples":
                    ginfo.setdefault("samples", []).extend(v)
                else:
                    ginfo[k] = ginfo.get(k, 0) + v
        ctx.log("grammar: %s" % {k: v for k, v in ginfo.items() if k != "samples"})
        rv, rinfo = roundtrip(ctx, rtfiles, "all")
        violations += rv

        mc = f_design.result()
        ctx.log("design: %s (%.0fs)" % (mc.summary(), mc.wall))
        pinfo, pfiles = {}, None
        if f_proto is not None:
            pv, pinfo, pfiles = f_proto.result()
            violations += pv
            ctx.log("protocol: %s" % pinfo)
        else:
            notes.append("protocol layer skipped (VERIF_C16_NO_PROTOCOL)")

    violations += qv       # (grammar, round trip and protocol findings first, query findings last)
    if ctx.selftest:
        notes += corruption_selftest(ctx, qfiles, pfiles)

    evaluations = qinfo["queries"] + ginfo["strings"] + rinfo["roundtrips"]
    cov.update({
        # model_checking keys
        "states": mc.distinct, "transitions": mc.generated,
        "traces_validated_against_impl": pinfo.get("protocol_scenarios", 0),
        "samples": qinfo["samples"] + ginfo.get("samples", [])[:3],
        "tlc_constants": {"design": ctx.pick("RefreshTimer_mc.cfg", "RefreshTimer_mc_thorough.cfg"),
                          "trace": {"MaxP": "95d", "Hour": "1h", "Retry": "20min"}},
        "action_coverage": tlc.coverage_summary(mc),
        "tlc_depth": mc.depth, "tlc_wall_s": round(mc.wall, 1),
        # exploration keys (query records, grammar table, round trips)
        "evaluations": evaluations,
        "distinct_nontrivial": qinfo["distinct_outcomes"],
        "rule": "per query (timer,last,now,max): each w_i=Schedule.Next(last) is a member of the declarative "
                "Windows(sched_i) of TimerWindows.tla, w_i.End>=now, last not in w_i; the delay of timeutil.Next leads "
                "into some w_i that starts before last+max if there is one, else exactly to last+max (0 when overdue); "
                "ParseSchedule accepts exactly the token strings accepted by ValidTimer; Parse(String(x)) has the "
                "same normalised AST and the same Windows on a 60-day horizon",
        "queries": {k: v for k, v in qinfo.items() if k != "samples"},
        "grammar": {k: v for k, v in ginfo.items() if k != "samples"},
        "roundtrip": rinfo,
        "protocol": pinfo,
    })
    assumptions = [
        "calendar 2018-01-01..2027-12-31, UTC, no DST (queries use 2018-2020; protocol traces use the real date)",
        "the environment of Ensure in the model-checked spec moves only between a tick and the Ensure pass of that tick; "
        "one Ensure pass per tick",
        "late launches (scheduled instant missed because of a hold, a change in flight, the retry delay or a network "
        "error) are only required not to be early",
        "'/N' parts at minute granularity (start and length truncated to whole minutes, as the unchanged code computes them); "
        "spread placement inside a window is unconstrained",
        "protocol traces: real wall clock, scenarios placed relative to it; passes slower than 400ms are not checked",
        "grammar: token strings over the listed alphabets only; '/' time (documented but unsupported) and one-digit "
        "hours are outside the alphabets",
    ]
    ctx.log("total %.0fs, %d violation(s)" % (time.time() - t0, len(violations)))
    return Result(level="model_checking", coverage=cov, assumptions=assumptions, violations=violations, notes=notes)
