"""C30 -- registry views and transactions (spec/RegistryView.tla, TraceRegistryView.tla;
harness/ext/registryview and harness/overlay/registrystate).

design      : TLC checks AccessRespected / ReadAfterWrite / RejectedChangesNothing / TxnOrder (+ Isolation) on
              RegistryView exhaustively (curated and all <=2-shape views, 2 transactions, every interleaving) and by
              random simulation over <=3-shape views with the full request menus.
conformance : (I->T) seeded random views + histories on the real registry.New / View.Get/Set/Unset over
              registry.Transaction (wrapped in a recording DataBag) with the real ParseSchema schema, validated by
              TraceRegistryView; (T->I) TLC-generated behaviours replayed on the real code and validated the same way;
              (state level) overlay test in overlord/registrystate driving SetViaView/GetViaView on a real state with
              two signed registry assertions; the stored "registry-databags" are compared before/after every request
              (trace spec for the registry operated on, byte equality for the other one).
A rejected case is re-run alone (script mode) before it is reported; the replay file holds that script.
"""
import concurrent.futures
import hashlib
import json
import os

from lib import common, tlc, goharness
from lib.common import Result, Violation, InfraError
from props._configtxn import _lock_subdir, _short_val, split_cases, negative_control

ACTIONS = ["Begin", "Set", "Unset", "Get", "Commit"]
OVERLAY = os.path.join(common.HARNESS, "overlay", "registrystate", "zz_verif_registry_test.go")


def _short_res(r):
    if r.get("k") == "val":
        return _short_val(r["v"])
    return r.get("k")


def rule_str(d):
    s = "%s->%s[%s]" % (".".join(d["req"]), ".".join(d["stor"]), d["acc"])
    if d.get("content"):
        s += "{" + ",".join(rule_str(c) for c in d["content"]) + "}"
    return s


def op_str(ev):
    e = ev["ev"]
    if e == "Panic":
        return "PANIC in real code during %s(t%s): %s" % (ev.get("op"), ev.get("t"), str(ev.get("msg"))[:120])
    res = ("->" + _short_res(ev["res"])) if "res" in ev else ""
    if e == "Reset":
        return "View(" + " | ".join(rule_str(d) for d in ev.get("view", [])) + ")"
    if e in ("Begin", "End"):
        return "%s(t%d)" % (e, ev["t"])
    if e == "Commit":
        return "Commit(t%d)%s" % (ev["t"], res)
    if e == "Set":
        return "Set(t%d,%s=%s)%s" % (ev["t"], ".".join(ev["req"]), _short_val(ev["val"]), res)
    if e == "Unset":
        return "Unset(t%d,%s)%s" % (ev["t"], ".".join(ev["req"]), res)
    if e == "Get":
        return "Get(t%d,%s)%s" % (ev["t"], ".".join(ev["req"]) or '""', res)
    if e == "Other":
        return "OtherRegistry(%s)" % ev.get("what", "")
    if e == "Hang":
        return "Set(t%d,%s=%s)->NEVER RETURNS" % (ev["t"], ".".join(ev["req"]), _short_val(ev["val"]))
    return e


def to_script_op(ev):
    o = {"ev": ev["ev"], "case": ev.get("case", 0)}
    for k in ("t", "req", "val", "view"):
        if k in ev:
            o[k] = ev[k]
    return o


def run_driver(ctx, tb, out, env):
    e = {"VERIF_OUT": out}
    e.update(env)
    rc, o = goharness.run_test_bin(ctx, tb, "TestVerifRegistryView", env=e, timeout=1800)
    goharness.check_driver(rc, o, "registryview driver")
    if "VERIF-STATS" not in o:
        raise InfraError("registryview driver printed no stats:\n%s" % common.tail(o, 20))
    return o


def validate_chunks(ctx, path, nchunks, workers, label):
    rows = common.read_ndjson(path)
    cases = split_cases(rows)
    # a case that ends in "Hang" (View.Set did not return: driver watchdog) is no behaviour of the spec; it is
    # reported on its own, with its stable key, by run(); the other cases are validated as usual
    vcases = [c for c in cases if c[-1]["ev"] != "Hang"]
    nchunks = max(1, min(nchunks, len(vcases)))
    per = (len(vcases) + nchunks - 1) // nchunks
    d = ctx.subdir("chunks_" + label)
    jobs = []
    for i in range(0, len(vcases), per):
        chunk = [r for c in vcases[i:i + per] for r in c]
        p = os.path.join(d, "chunk%03d.ndjson" % (i // per))
        with open(p, "w") as f:
            for r in chunk:
                f.write(json.dumps(r, separators=(",", ":")) + "\n")
        jobs.append((p, chunk))

    def one(job):
        p, chunk = job
        tv = tlc.validate_trace(ctx, "TraceRegistryView", "TraceRegistryView.cfg", p, timeout=3000,
                                name="trace_%s_%s" % (label, os.path.basename(p)[:-7]))
        return chunk, tv

    rejected = []
    accepted_lines = 0
    with concurrent.futures.ThreadPoolExecutor(max_workers=max(1, workers)) as ex:
        for chunk, tv in ex.map(one, jobs):
            if tv["accepted"]:
                accepted_lines += len(chunk)
            else:
                rejected.append((chunk, tv))
    return rows, cases, rejected, accepted_lines


def _why(tv):
    if tv["invariant"]:
        return "%s of RegistryView is violated by the real state after this step" % tv["invariant"]
    return "the real result / touched storage paths / stored data after this step are not what RegistryView allows"


def confirm_and_report(ctx, tb, chunk, tv, violations, source):
    line = tv["stuck_line"]
    if not line or line > len(chunk):
        raise InfraError("trace rejected but stuck line %r is outside the chunk (%d lines)" % (line, len(chunk)))
    bad = chunk[line - 1]
    start = line - 1
    while chunk[start]["ev"] != "Reset":
        start -= 1
    script = [to_script_op(e) for e in chunk[start:line]]
    d = ctx.subdir("confirm")
    sp = os.path.join(d, "script.ndjson")
    common.write_ndjson(sp, script)
    out = os.path.join(d, "replayed.ndjson")
    run_driver(ctx, tb, out, {"VERIF_SCRIPT": sp})
    tv2 = tlc.validate_trace(ctx, "TraceRegistryView", "TraceRegistryView.cfg", out, timeout=600, name="trace_confirm")
    if tv2["accepted"]:
        raise InfraError("rejection of case %s at %s did not reproduce when the case was re-run alone" % (
            bad.get("case"), op_str(bad)))
    rerun = common.read_ndjson(out)
    if rerun and rerun[-1]["ev"] == "Panic":
        rerun[-1] = dict(script[len(rerun) - 1], **{"ev": "Panic", "op": rerun[-1]["op"], "msg": rerun[-1]["msg"]})
    k = min(tv2["stuck_line"], len(rerun))
    bad2 = rerun[k - 1]
    hist = " ; ".join(op_str(e) for e in rerun[:k])
    hid = hashlib.sha1(json.dumps(script[:-1], sort_keys=True).encode()).hexdigest()[:10]
    what = ("PANIC in " + op_str(script[-1])) if bad2["ev"] == "Panic" else op_str(to_script_op(bad2))
    key = "registryview %s in %s after %d ops [%s]" % (what, op_str(rerun[0]), max(len(script) - 2, 0), hid)
    violations.append(Violation(
        key=key, desc="%s (%s): %s. History on the real code: %s" % (key, source, _why(tv2), hist),
        replay={"script": script, "observed": rerun[-2:], "tlc": tv2["res"].summary(), "why": _why(tv2)}))


# ---------------------------------------------------------------------------------------------
# T->I

def _tla_val_to_tagged(x):
    if x["t"] == "l":
        return {"t": "l", "v": x["v"]}
    m = x["m"]
    if isinstance(m, (list, tuple)):
        if len(m):
            raise InfraError("unexpected sequence as map in TLC value: %r" % (x,))
        m = {}
    return {"t": "m", "m": [{"k": k, "v": _tla_val_to_tagged(m[k])} for k in sorted(m)]}


def _def_to_json(d):
    return {"req": list(d["req"]), "stor": list(d["stor"]), "acc": d["acc"],
            "content": [_def_to_json(c) for c in d["content"]]}


def behaviours_to_script(behs):
    script = []
    case = 0
    for b in behs:
        if not b:
            continue
        ops = []
        for st in b:
            last = st["vars"].get("last")
            if not isinstance(last, dict) or last.get("op") == "init":
                continue
            op = last["op"]
            if op == "begin":
                ops.append({"ev": "Begin", "t": last["t"]})
            elif op == "set":
                ops.append({"ev": "Set", "t": last["t"], "req": list(last["req"]), "val": _tla_val_to_tagged(last["val"])})
            elif op == "unset":
                ops.append({"ev": "Unset", "t": last["t"], "req": list(last["req"])})
            elif op == "get":
                ops.append({"ev": "Get", "t": last["t"], "req": list(last["req"])})
            elif op == "commit":
                ops.append({"ev": "Commit", "t": last["t"]})
            else:
                raise InfraError("unknown op in TLC behaviour: %r" % (last,))
        if not ops:
            continue
        case += 1
        script.append({"ev": "Reset", "case": case, "view": [_def_to_json(d) for d in b[0]["vars"]["viewdef"]]})
        for o in ops:
            o["case"] = case
            script.append(o)
    return script, case


def _tla_json_val(x):
    """value as serialized by the Json module ([t, v] / [t, m: object or [] when empty]) -> tagged encoding"""
    if x["t"] == "l":
        return {"t": "l", "v": x["v"]}
    m = x["m"] if isinstance(x["m"], dict) else {}
    return {"t": "m", "m": [{"k": k, "v": _tla_json_val(m[k])} for k in sorted(m)]}


def table_script(ctx):
    """Directed T->I table: every curated view of RegistryViewMC x every request of the full menus, one short
    case each (Begin ; request ; Get of the same request after a Set).  Views and menus are exported by TLC
    itself (RegistryViewTable.tla), so the spec stays the single source."""
    d = ctx.subdir("table")
    out = os.path.join(d, "table.json")
    res = tlc.run(ctx, "RegistryViewTable", "RegistryViewTable.cfg", workers=1, env={"VERIF_OUT": out}, timeout=600,
                  name="table_export")
    if not res.ok or not os.path.exists(out):
        raise InfraError("export of the view/request table failed: %s" % res.summary())
    with open(out) as f:
        t = json.load(f)
    script = []
    case = 0
    for v in t["views"]:
        view = [_def_to_json(dd) for dd in v]
        reqs = ([("Set", list(e[0]), _tla_json_val(e[1])) for e in t["sets"]] +
                [("Unset", list(r), None) for r in t["unsets"]] + [("Get", list(r), None) for r in t["gets"]])
        for ev, req, val in reqs:
            case += 1
            script.append({"ev": "Reset", "case": case, "view": view})
            script.append({"ev": "Begin", "t": 1, "case": case})
            o = {"ev": ev, "t": 1, "req": req, "case": case}
            if val is not None:
                o["val"] = val
            script.append(o)
            if ev == "Set":
                script.append({"ev": "Get", "t": 1, "req": req, "case": case})
    return script, case


# ---------------------------------------------------------------------------------------------
# state level (overlord/registrystate)

def run_state_level(ctx, violations):
    """SetViaView / GetViaView on a real state.State with two registries of one account.
    Returns (rows, n_cases)."""
    tb = goharness.overlay_test_build(ctx, "overlord/registrystate", [OVERLAY])
    d = ctx.subdir("statelevel")
    out = os.path.join(d, "state.ndjson")
    rc, o = goharness.run_test_bin(ctx, tb, "TestVerifRegistryState", cwd=os.path.join(common.REPO, "overlord/registrystate"),
                                   env={"VERIF_OUT": out, "VERIF_N": ctx.pick(30, 600), "VERIF_LEN": 10}, timeout=1200)
    goharness.check_driver(rc, o, "registrystate overlay driver")
    rows = common.read_ndjson(out)
    cases = split_cases(rows)
    # (a) the registry operated on: trace spec (composite SetViaView = Begin ; Set|Unset ; Commit ; End)
    _, _, rejected, _ = validate_chunks(ctx, out, ctx.pick(1, 8), ctx.pick(1, 8), "state")
    for chunk, tv in rejected:
        line = tv["stuck_line"]
        if not line or line > len(chunk):
            raise InfraError("state-level trace rejected outside the chunk")
        bad = chunk[line - 1]
        if bad["ev"] == "Other":
            # this registry's stored databag moved during a request on the OTHER registry: that is exactly what
            # the byte comparison (b) below reports, with its stable key
            continue
        start = line - 1
        while chunk[start]["ev"] != "Reset":
            start -= 1
        hist = " ; ".join(op_str(e) for e in chunk[start:line])
        calls = [e["call"] for e in chunk[start:line] if "call" in e]
        key = "registrystate %s after %d calls: stored databag of the registry differs from the model" % (
            bad.get("call", op_str(bad)), max(len(calls) - 1, 0))
        violations.append(Violation(key=key, desc="%s: %s. History: %s" % (key, _why(tv), hist),
                                    replay={"calls": calls, "observed": bad}))
    # (b) every other registry's stored databag must be byte-identical across a request (statement, directly)
    seen = set()
    for c in cases:
        prev = None
        for e in c:
            cur = e.get("bags")
            if prev is not None and cur is not None and "call" in e and e.get("last_of_call"):
                for name, raw in prev.items():
                    if name != e["reg"] and cur.get(name) != raw:
                        key = ("registrystate updateDatabags: %s on registry %s drops/changes the stored databag of "
                               "registry %s" % (e["call"].split("(")[0], e["reg"], name))
                        if key in seen:
                            continue
                        seen.add(key)
                        violations.append(Violation(
                            key=key,
                            desc="%s: call %s on registry %r turned the stored databag of registry %r from %s into %s "
                                 "(regression of the defect fixed in 080142a: overlord/registrystate/registrystate.go:"
                                 "updateDatabags must only create the missing map levels)" % (
                                     key, e["call"], e["reg"], name, raw, cur.get(name)),
                            replay={"calls": [x["call"] for x in c if "call" in x and x.get("last_of_call")][:20],
                                    "event": e}))
            if cur is not None and (e.get("last_of_call") or e["ev"] == "Reset"):
                prev = cur
    return rows, len(cases)


# ---------------------------------------------------------------------------------------------

def run(ctx):
    W = ctx.pick(8, 16)
    _lock_subdir(ctx)
    violations = []

    tb = goharness.ext_test_build(ctx, "registryview")

    if ctx.replay:
        with open(ctx.replay) as f:
            rp = json.load(f)
        script = rp["replay"]["script"]
        d = ctx.subdir("replay")
        sp = os.path.join(d, "script.ndjson")
        common.write_ndjson(sp, script)
        out = os.path.join(d, "replayed.ndjson")
        run_driver(ctx, tb, out, {"VERIF_SCRIPT": sp})
        tv = tlc.validate_trace(ctx, "TraceRegistryView", "TraceRegistryView.cfg", out, timeout=600)
        rows = common.read_ndjson(out)
        if not tv["accepted"]:
            confirm_and_report(ctx, tb, rows, tv, violations, "replay")
        return Result(level="model_checking",
                      coverage={"states": 1, "transitions": 1, "traces_validated_against_impl": 1,
                                "samples": [" ; ".join(op_str(e) for e in rows)]},
                      violations=violations, notes=["replay of %s only" % ctx.replay])

    # ---- 1. design -------------------------------------------------------------------------
    mc = tlc.run(ctx, "RegistryViewMC", "RegistryView_mc.cfg", coverage=True, workers=W, timeout=ctx.pick(900, 1800),
                 name="mc_quick")
    if not mc.ok:
        raise InfraError("spec-level counterexample in RegistryView (quick config): %s" % mc.summary())
    tlc.require_coverage(mc, ACTIONS)
    states, transitions = mc.distinct, mc.generated
    design = {"RegistryView_mc.cfg": {"distinct": mc.distinct, "generated": mc.generated, "depth": mc.depth,
                                      "wall_s": round(mc.wall, 1)}}
    ctx.log("design quick: %s wall=%.0fs" % (mc.summary(), mc.wall))
    if not ctx.quick:
        for mod, cfg, to in (("RegistryViewMC2", "RegistryView_mc_thorough.cfg", 3000),):
            m2 = tlc.run(ctx, mod, cfg, workers=W, timeout=to, heap="16g", name="mc_" + cfg[16:-4])
            if not m2.ok:
                raise InfraError("spec-level counterexample in RegistryView (%s): %s" % (cfg, m2.summary()))
            design[cfg] = {"distinct": m2.distinct, "generated": m2.generated, "depth": m2.depth,
                           "wall_s": round(m2.wall, 1)}
            states += m2.distinct
            transitions += m2.generated
            ctx.log("design %s: %s wall=%.0fs" % (cfg, m2.summary(), m2.wall))

    nsim = ctx.pick(25, 300)
    sim = tlc.run(ctx, "RegistryViewMC2", "RegistryView_sim.cfg", simulate={"num": nsim, "file": True}, depth=22,
                  seed=ctx.seed, workers=1, timeout=ctx.pick(600, 2400), name="sim")
    if not sim.ok:
        raise InfraError("spec-level counterexample in RegistryView (simulation): %s" % sim.summary())
    script, nscript = behaviours_to_script(tlc.sim_behaviours(sim))
    if nscript < nsim // 2:
        raise InfraError("TLC produced only %d behaviours" % nscript)
    design["RegistryView_sim.cfg"] = {"behaviours": nscript, "wall_s": round(sim.wall, 1)}
    ctx.log("design sim: %d behaviours wall=%.0fs" % (nscript, sim.wall))

    # ---- 2. conformance --------------------------------------------------------------------
    d = ctx.subdir("traces")
    out_r = os.path.join(d, "random.ndjson")
    run_driver(ctx, tb, out_r, {"VERIF_N": ctx.pick(60, 1200), "VERIF_LEN": ctx.pick(20, 24)})
    sp = os.path.join(d, "tlc_script.ndjson")
    common.write_ndjson(sp, script)
    out_s = os.path.join(d, "replayed.ndjson")
    run_driver(ctx, tb, out_s, {"VERIF_SCRIPT": sp})
    # directed table: every curated view x every menu request
    tscript, ntable = table_script(ctx)
    tp = os.path.join(d, "table_script.ndjson")
    common.write_ndjson(tp, tscript)
    out_t = os.path.join(d, "table.ndjson")
    run_driver(ctx, tb, out_t, {"VERIF_SCRIPT": tp})
    with concurrent.futures.ThreadPoolExecutor(max_workers=3) as ex:
        fr = ex.submit(validate_chunks, ctx, out_r, ctx.pick(1, 12), ctx.pick(1, 12), "random")
        fs = ex.submit(validate_chunks, ctx, out_s, ctx.pick(1, 4), ctx.pick(1, 4), "tlc")
        ft = ex.submit(validate_chunks, ctx, out_t, ctx.pick(2, 4), ctx.pick(2, 4), "table")
        rows_r, cases_r, rej_r, acc_r = fr.result()
        rows_s, cases_s, rej_s, acc_s = fs.result()
        rows_t, cases_t, rej_t, acc_t = ft.result()
    for chunk, tv in rej_t:
        confirm_and_report(ctx, tb, chunk, tv, violations, "view x request table")
    ctx.log("table: %d cases (every curated view x every menu request), %d lines, %d accepted" % (
        len(cases_t), len(rows_t), acc_t))
    for chunk, tv in rej_r:
        confirm_and_report(ctx, tb, chunk, tv, violations, "seeded random view and history, seed %d" % ctx.seed)
    for chunk, tv in rej_s:
        confirm_and_report(ctx, tb, chunk, tv, violations, "TLC-generated behaviour, seed %d" % ctx.seed)
    ctx.log("I->T: %d cases, %d lines, %d accepted; T->I: %d behaviours, %d lines, %d accepted" % (
        len(cases_r), len(rows_r), acc_r, len(cases_s), len(rows_s), acc_s))

    trace_violations = len(violations)     # rejections of real steps by the trace spec (none on a conforming tree)
    # a View.Set that never returns (driver watchdog): confirm by re-running that case alone, then report
    hang_key = ("registry View.Set never returns: checkForUnusedBranches loops forever when an unused branch of the "
                "value holds an empty map")
    nhangs = 0
    for c in cases_r + cases_s + cases_t:
        if c[-1]["ev"] != "Hang":
            continue
        nhangs += 1
        if nhangs > 1:
            continue
        hscript = [to_script_op(e) for e in c[:-1]] + [dict(to_script_op(c[-1]), ev="Set")]
        hd = ctx.subdir("confirm_hang")
        hsp = os.path.join(hd, "script.ndjson")
        common.write_ndjson(hsp, hscript)
        hout = os.path.join(hd, "replayed.ndjson")
        run_driver(ctx, tb, hout, {"VERIF_SCRIPT": hsp})
        again = common.read_ndjson(hout)
        if again[-1]["ev"] != "Hang":
            raise InfraError("watchdog expiry of %s did not reproduce" % op_str(c[-1]))
        violations.append(Violation(
            key=hang_key,
            desc="%s. Exact input: %s ; %s (registry/registry.go:checkForUnusedBranches, the loop that builds the "
                 "\"value contains unused data under\" message must stop at an empty map: regression of the defect "
                 "fixed in c238b8d; the request must be rejected as a bad request). History: %s" % (
                     hang_key, op_str(c[0]), op_str(c[-1]), " ; ".join(op_str(e) for e in c)),
            replay={"script": hscript, "observed": again[-1]}))

    negctl = (negative_control(ctx, [c for c in cases_r if c[-1]["ev"] not in ("Hang", "Panic")],
                                "TraceRegistryView", "TraceRegistryView.cfg")
              if not trace_violations else "skipped")
    ctx.log("negative control: %s" % negctl)

    # ---- 3. state level --------------------------------------------------------------------
    rows_st, ncases_st = run_state_level(ctx, violations)
    ctx.log("state level: %d cases, %d lines" % (ncases_st, len(rows_st)))

    # ---- vacuity on the real side ----------------------------------------------------------
    allrows = rows_r + rows_s + rows_t
    cls = {}
    abstract = set()
    views = set()
    for r in allrows:
        e = r["ev"]
        if e == "Reset":
            views.add(json.dumps(r["view"], sort_keys=True))
            continue
        if e in ("Panic", "Hang"):
            continue
        k = e.lower() + ("_" + r["res"]["k"] if "res" in r else "")
        if e == "Commit" and r["res"]["k"] == "ok":
            k += "_changing" if not r["bytes_same"] else "_same"
        cls[k] = cls.get(k, 0) + 1
        abstract.add(r["st"]["raw"] + json.dumps(r["st"]["txbag"], sort_keys=True))
    need = ["set_ok", "set_notfound", "set_badrequest", "unset_ok", "unset_notfound", "get_val", "get_notfound",
            "commit_ok_changing", "commit_invalid", "begin"]
    missing = [k for k in need if not cls.get(k)]
    if missing and not trace_violations:     # a broken tree may make a class unreachable: report the violations
        raise InfraError("vacuity guard: real executions never produced: %s" % ", ".join(missing))
    cls_st = {}
    for r in rows_st:
        if "call" in r and r.get("last_of_call"):
            k = r["call"].split("(")[0] + "_" + r.get("callres", "?")
            cls_st[k] = cls_st.get(k, 0) + 1

    samples = [" ; ".join(op_str(e) for e in c[:10]) for c in (cases_r[:2] + cases_s[:2])]
    cov = {
        "states": states, "transitions": transitions,
        "traces_validated_against_impl": len(cases_r) + len(cases_s) + len(cases_t) + ncases_st,
        "real_requests": len(allrows) - len(cases_r) - len(cases_s) - len(cases_t),
        "real_lines_accepted": acc_r + acc_s + acc_t,
        "view_request_table_cases": len(cases_t),
        "random_histories": len(cases_r), "tlc_behaviours_replayed": len(cases_s),
        "state_level_cases": ncases_st, "state_level_calls": dict(sorted(cls_st.items())),
        "distinct_views_on_real_code": len(views),
        "distinct_abstract_states_reached_by_real_code": len(abstract),
        "real_event_classes": dict(sorted(cls.items())),
        "negative_control": negctl,
        "view_set_hangs_observed": nhangs,
        "design_runs": design,
        "action_coverage": tlc.coverage_summary(mc),
        "tlc_constants": {
            "quick": "10 curated views (all 10 rule shapes, nesting, 3 access modes) x 2 txns x (Begin + <=2 ops), "
                     "15 set / 7 unset / 3 get requests",
            "thorough": "every single shape x access and every interacting pair of shapes x accesses (~170 views), "
                        "same request menus and depth",
            "simulation": "valid views of <=3 shapes, full menus, depth 22",
            "trace": "random views of 1..3 shapes, random requests/values (depth <=2, nested nulls), 2 txns"},
        "samples": samples,
    }
    assumptions = [
        "storage schema fixed to {n:int, s:string, m:{values:int}, o:{schema:{p:int,q:string}}, w:any} (real "
        "ParseSchema); the spec's Valid predicate mirrors it",
        "rule shapes: literal, placeholder ({k}), whole-map + placeholder overlap, nested via content, two requests "
        "for one storage path, request mapped to deeper storage; requests have 1-2 parts; no arrays",
        "RejectedChangesNothing is claimed on STORED data (what Transaction.Commit / SetViaView persist): View.Set on "
        "a bare JSONDataBag writes before validating, by design",
        "ReadAfterWrite is claimed when every rule matching the request is read-write, one matches it exactly and the "
        "value holds no nulls (a placeholder rule merges into what is stored, by design)",
        "results are compared by class (ok / not-found / bad-request / schema-invalid / other error), Get values exactly",
    ]
    return Result(level="model_checking", coverage=cov, assumptions=assumptions, violations=violations)
