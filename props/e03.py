"""E03 (extension) - restart manager: system-restart requests, restart boundaries and waiting tasks.

  design       TLC checks spec/RestartBoundary.tla (the restart manager layered on TaskEngine) exhaustively for
               the bounded instances below: E03a (outcome of FinishTaskWithRestart/TaskWaitForRestart; the change
               reports Wait only when nothing of it can run), E03b (the restart is requested/announced only when the
               change has run out of tasks to run, exactly once per scheduling, never forgotten), E03c (StartUp
               resolves every waiting task iff the boot id changed), E03d (a boundary only applies in its
               direction), E03e (RebootAsExpected / RebootDidNotHappen). A spec-level counterexample is a design
               problem to triage (exit 2), not a VIOLATION.
  conformance  harness/ext/restartmgr drives the REAL restart.Manager + state.TaskRunner (recording
               restart.Handler, gated task handlers calling restart.FinishTaskWithRestart / TaskWaitForRestart,
               "reboot" = ReadState(checkpoint bytes) + Manager(new boot id) + StartUp, "snapd restart" = same
               boot id) with directed and seeded random schedules; spec/TraceRestartBoundary.tla validates every
               recorded critical section ("precise": it must be a step of the spec's action leading to the logged
               real state and making exactly the logged requests) and evaluates the oracles A_E03a..e on the REAL
               data. A_* false => VIOLATION. A precise rejection with all oracles intact => exit 2 (needs triage).
"""
import concurrent.futures
import glob
import json
import os
import re

from lib import common, goharness, tlc
from lib.common import InfraError, Result, Violation

PID = "E03"

DESIGN = {
    "quick": [("RestartBoundary_mc.cfg", True)],
    "thorough": [("RestartBoundary_mc.cfg", True), ("RestartBoundary_mc_thorough.cfg", False),
                 ("RestartBoundary_mc_abort.cfg", False), ("RestartBoundary_mc_crash.cfg", False),
                 ("RestartBoundary_mc_two.cfg", False), ("RestartBoundary_refine.cfg", False),
                 ("RestartBoundary_live.cfg", False)],
}
# named sub-actions of RNext that must have been taken (vacuity guard)
REQUIRED_ACTIONS = ["NEnsure", "FinishRequesting", "FinishQuiet", "HRestartRequesting", "HRestartQuiet",
                    "RebootResolving", "RebootKeeping", "SnapdRestart"]

ORACLE_TEXT = {
    "A_E03a": "outcome of FinishTaskWithRestart/TaskWaitForRestart, or the change reported Wait while a task could run",
    "A_E03b": "system restart requested/announced while a task of the change could still run, requested without "
              "having been scheduled / twice, or a scheduled restart forgotten when the change ran out of tasks",
    "A_E03c": "StartUp did not move exactly the tasks waiting for a restart of an earlier boot to their waited status "
              "(or a task is left waiting for an earlier boot / the change did not settle after reboots)",
    "A_E03d": "a restart boundary of one direction influenced (or failed to influence) a call in the other direction",
    "A_E03e": "RebootAsExpected/RebootDidNotHappen does not match whether a requested reboot happened",
}


def edge_labels(path):
    """action labels of the edges of a `-dump dot,actionlabels` file -> {name: count}"""
    counts = {}
    pat = re.compile(r'-> -?\d+ \[label="([A-Za-z0-9_]+)')
    with open(path, errors="replace") as f:
        for line in f:
            m = pat.search(line)
            if m:
                counts[m.group(1)] = counts.get(m.group(1), 0) + 1
    return counts


def design_one(ctx, cfg, want_cov):
    # `-coverage 1` does not terminate on this module (cost-model construction); the vacuity guard uses the
    # action labels of the dumped state graph of the first (small) configuration instead
    extra = []
    dot = None
    cov = {}
    if want_cov:
        dot = os.path.join(ctx.subdir("dot"), "graph.dot")
        extra = ["-dump", "dot,actionlabels", dot]
    res = tlc.run(ctx, "RestartBoundary", cfg, workers=4, timeout=ctx.pick(1800, 7200),
                  heap=ctx.pick("6g", "12g"), name="mc_" + cfg[:-4], extra_args=extra)
    ctx.log("TLC %s: %s (%.0fs)" % (cfg, res.summary(), res.wall))
    if not res.ok:
        raise InfraError("spec-level counterexample in RestartBoundary with %s (%s %s); last state: %s" % (
            cfg, res.kind, res.name, json.dumps(res.trace[-1] if res.trace else None, default=str)[:1500]))
    if want_cov:
        cov = edge_labels(dot)
        os.unlink(dot)
        missing = [a for a in REQUIRED_ACTIONS if not cov.get(a)]
        if missing:
            raise InfraError("vacuity guard: action(s) never taken in %s: %s" % (cfg, ", ".join(missing)))
    run = {"config": cfg, "distinct": res.distinct, "generated": res.generated, "depth": res.depth,
           "wall_s": round(res.wall, 1)}
    return run, cov


def design(ctx):
    if os.environ.get("VERIF_DEV_SKIP_DESIGN"):   # development aid only
        return 1, 1, [], {}
    plan = DESIGN[ctx.tier]
    first, cov = design_one(ctx, plan[0][0], plan[0][1])
    runs = [first]
    # the remaining (thorough) configurations two at a time, 4 workers each
    with concurrent.futures.ThreadPoolExecutor(max_workers=2) as ex:
        for run, _ in ex.map(lambda c: design_one(ctx, c[0], False), plan[1:]):
            runs.append(run)
    return sum(r["distinct"] for r in runs), sum(r["generated"] for r in runs), runs, cov


def record(ctx):
    tb = goharness.ext_test_build(ctx, "restartmgr")
    out = ctx.subdir("traces")
    rc, o = goharness.run_test_bin(ctx, tb, "^TestVerifRestartMgr$",
                                   env={"VERIF_OUT_DIR": out, "VERIF_CASES": ctx.pick(12, 120)},
                                   timeout=ctx.pick(600, 3000))
    n = sum(int(x) for x in re.findall(r'VERIF-CASES (\d+)', o))
    return out, n, (o if rc != 0 else None)


def case_events(events, line):
    """events of the execution that contains 1-based `line`, up to that line"""
    i = min(line, len(events)) - 1
    j = i
    while j > 0 and events[j]["ev"] != "Init":
        j -= 1
    return events[j:i + 1]


def vkey(inv, events, line):
    evs = case_events(events, line)
    last = evs[-1]
    return "%s:%s:%s#%d" % (inv, last.get("case"), last.get("ev"), len(evs))


def brief(ev):
    keep = ("ev", "t", "c", "res", "how", "ty", "p", "s", "lg", "cerr", "b", "cb", "rq", "nt", "ntfile")
    d = {k: ev[k] for k in keep if k in ev and ev[k] not in ("", 0, [], None)}
    st = ev.get("st", {})
    d["st"] = {k: st.get(k) for k in ("status", "waited", "chgst", "running", "pend", "wfsr", "wb", "from", "boot")}
    if "g" in ev:
        d["g"] = ev["g"]
    return d


def validate_file(ctx, path):
    m = re.search(r'_n(\d+)_c(\d+)\.ndjson$', path)
    env = {"VERIF_TN": m.group(1), "VERIF_TNC": m.group(2)}
    events = common.read_ndjson(path)
    out = {"file": os.path.basename(path), "lines": len(events), "violations": [], "divergence": None,
           "states": 0, "generated": 0}
    if not events:
        return out
    tag = os.path.basename(path)[:-7]
    tv = tlc.validate_trace(ctx, "TraceRestartBoundary", "TraceRestartBoundary.cfg", path,
                            env=dict(env, VERIF_MODE="precise"), timeout=ctx.pick(1500, 6000), name="tv_p_" + tag)
    out["states"] += tv["res"].distinct
    out["generated"] += tv["res"].generated
    if tv["accepted"]:
        return out
    line = tv["stuck_line"]
    ev = events[line - 1] if line and line <= len(events) else {"case": "?", "ev": "?"}
    if tv["invariant"] and tv["invariant"].startswith("A_"):
        out["violations"].append(Violation(
            key=vkey(tv["invariant"], events, line),
            desc="real execution %s violates %s (%s) at its event %d (%s): %s" % (
                ev.get("case"), tv["invariant"], ORACLE_TEXT.get(tv["invariant"], ""), len(case_events(events, line)),
                ev.get("ev"), json.dumps(brief(ev))[:600]),
            replay={"trace": [brief(e) for e in case_events(events, line)], "mode": "precise"}))
        return out
    # the code left the specification (or the spec's own monitors tripped): evaluate the oracles on the whole real trace
    tv2 = tlc.validate_trace(ctx, "TraceRestartBoundary", "TraceRestartBoundary_perm.cfg", path,
                             env=dict(env, VERIF_MODE="permissive"), timeout=ctx.pick(1500, 6000), name="tv_m_" + tag)
    out["states"] += tv2["res"].distinct
    out["generated"] += tv2["res"].generated
    if tv2["invariant"]:
        l2 = tv2["stuck_line"]
        ev2 = events[l2 - 1]
        out["violations"].append(Violation(
            key=vkey(tv2["invariant"], events, l2),
            desc="real execution %s violates %s (%s) at its event %d (%s): %s [the same file left the spec at line %d (%s)]" % (
                ev2.get("case"), tv2["invariant"], ORACLE_TEXT.get(tv2["invariant"], ""),
                len(case_events(events, l2)), ev2.get("ev"), json.dumps(brief(ev2))[:600], line, ev.get("ev")),
            replay={"trace": [brief(e) for e in case_events(events, l2)], "mode": "permissive", "diverged_at": line}))
    elif not tv2["accepted"]:
        raise InfraError("permissive trace validation rejected %s at line %s" % (path, tv2["stuck_line"]))
    else:
        prev = events[line - 2] if line >= 2 else None
        out["divergence"] = {"file": os.path.basename(path), "line": line, "case": ev.get("case"), "event": brief(ev),
                             "prev_state": brief(prev)["st"] if prev else None,
                             "reason": tv["invariant"] or "step not allowed by RestartBoundary"}
    return out


def driver_problem(text):
    if "HARNESS:" in text and "panic:" not in text:
        raise InfraError("driver reported a harness problem:\n" + common.tail(text, 15))
    real = re.search(r'case (\S+): REAL: (.*)', text)
    if real:
        return Violation(key="real:%s:%s" % (real.group(1), real.group(2)[:60]),
                         desc="process start from the checkpoint failed in %s: %s" % (real.group(1), real.group(2)),
                         replay={"output": common.tail(text, 30)})
    m = re.search(r'panic: (.*)', text)
    if m and ("overlord/restart" in text or "overlord/state" in text):
        return Violation(key="panic:" + m.group(1)[:80],
                         desc="the real restart manager / task engine panicked: " + m.group(1),
                         replay={"output": common.tail(text, 60)})
    raise InfraError("driver died:\n" + common.tail(text, 40))


def real_coverage(files):
    """What the real executions exercised (vacuity guard on the implementation side)."""
    cov = {"events": 0, "calls_wait": 0, "calls_direct": 0, "calls_skipped_classic_undo": 0, "calls_while_aborted": 0,
           "calls_waitfor": 0, "calls_undo_direction": 0, "requests_system": 0, "requests_daemon": 0,
           "requests_at_call": 0, "requests_postponed": 0, "classic_announcements": 0, "reboots": 0,
           "snapd_restarts": 0, "did_not_happen_callbacks": 0, "startups_resolving": 0,
           "startups_keeping_waiters": 0, "changes_reporting_wait": 0, "stuck": 0,
           "known_c03_abort_panics": 0}
    distinct = set()
    samples = []
    for f in files:
        evs = common.read_ndjson(f)
        cov["events"] += len(evs)
        prev = None
        for e in evs:
            st = e["st"]
            distinct.add((os.path.basename(f), json.dumps({k: st[k] for k in (
                "status", "waited", "running", "pend", "wfsr", "wb", "from", "started")}, sort_keys=True)))
            if e["ev"] == "HRestart":
                if e["how"] == "finish" and e["ty"] != "daemon" and e["p"] != "Abort":
                    k = {"wait": "calls_wait", "requested": "calls_direct",
                         "skipped": "calls_skipped_classic_undo"}.get(e["lg"])
                    if k:
                        cov[k] += 1
                cov["calls_waitfor"] += e["how"] == "waitfor"
                cov["calls_while_aborted"] += e["p"] == "Abort"
                cov["calls_undo_direction"] += e["p"] == "Undoing"
            nsys = sum(1 for r in e["rq"] if r["ty"] in ("system", "now"))
            cov["requests_system"] += nsys
            cov["requests_daemon"] += sum(1 for r in e["rq"] if r["ty"] == "daemon")
            if nsys:
                cov["requests_at_call" if e["ev"] == "HRestart" else "requests_postponed"] += nsys
            cov["classic_announcements"] += len(e["nt"])
            if e["ev"] == "Boot" and prev is not None:
                cov["reboots" if e["b"] != prev["st"]["boot"] else "snapd_restarts"] += 1
                cov["did_not_happen_callbacks"] += e["cb"] == "did-not-happen"
            if e["ev"] == "StartUp" and prev is not None:
                if e["st"]["status"] != prev["st"]["status"]:
                    cov["startups_resolving"] += 1
                elif any(s == "Wait" and w for s, w in zip(e["st"]["status"], e["st"]["wb"])):
                    cov["startups_keeping_waiters"] += 1
            cov["changes_reporting_wait"] += "Wait" in st["chgst"]
            cov["stuck"] += e["ev"] == "Stuck"
            cov["known_c03_abort_panics"] += e["ev"] == "AbortPanic"
            prev = e
        if evs and len(samples) < 3:
            samples.append([brief(e) for e in case_events(evs, min(len(evs), 14))[:7]])
    cov["distinct_real_abstract_states"] = len(distinct)
    return cov, samples


def run(ctx):
    states, trans, runs, cov = design(ctx)
    out, ncases, problem = record(ctx)
    violations = []
    if problem:
        violations.append(driver_problem(problem))
    files = sorted(glob.glob(os.path.join(out, "trace_*.ndjson")))
    results = []
    with concurrent.futures.ThreadPoolExecutor(max_workers=ctx.pick(3, 4)) as ex:
        for r in ex.map(lambda f: validate_file(ctx, f), files):
            results.append(r)
    divergences = [r["divergence"] for r in results if r["divergence"]]
    for r in results:
        violations.extend(r["violations"])
        states += r["states"]
        trans += r["generated"]
    if divergences and not violations:
        d = divergences[0]
        raise InfraError("the real restart manager left the specification (file %s line %d, case %s, event %s: %s) but no "
                         "E03 oracle is violated on the observed executions; RestartBoundary.tla needs triage.\n"
                         "prev state: %s\nevent: %s" % (d["file"], d["line"], d["case"], d["event"].get("ev"),
                                                        d["reason"], json.dumps(d["prev_state"]), json.dumps(d["event"])[:1500]))
    rcov, samples = real_coverage(files)
    if not violations and not problem:
        missing = [k for k in ("calls_wait", "calls_direct", "calls_skipped_classic_undo", "calls_undo_direction",
                               "requests_at_call", "requests_postponed", "classic_announcements", "reboots",
                               "snapd_restarts", "startups_resolving", "startups_keeping_waiters",
                               "did_not_happen_callbacks", "changes_reporting_wait") if not rcov[k]]
        if missing:
            raise InfraError("vacuity guard: the real executions never exercised: " + ", ".join(missing))
    coverage = {
        "states": states, "transitions": trans,
        "traces_validated_against_impl": ncases,
        "samples": samples,
        "tlc_runs": runs, "action_coverage_first_config": cov,
        "real_events_validated": rcov["events"], "real_coverage": rcov,
        "tlc_constants": {"N": 3, "NC": 1, "MaxCalls": 2, "MaxBoot": 2, "MaxRestart": 1, "MaxFail": 1},
        "conformance": "precise (every real critical section is a RestartBoundary step to the logged state making "
                       "exactly the logged requests)" if not divergences else "diverged",
    }
    notes = []
    if rcov["known_c03_abort_panics"]:
        notes.append("the known C03 finding 'Change.Abort panics: change unexpectedly became unready' was reproduced %d "
                     "time(s) on forward DAGs (a task waiting through TaskWaitForRestart precedes a Done task); the "
                     "specification predicts each of these panics; not an E03 violation" % rcov["known_c03_abort_panics"])
        ctx.log(notes[-1])
    return Result(level="model_checking", coverage=coverage, violations=violations, notes=notes,
                  assumptions=["task handlers are gated by the driver; they call FinishTaskWithRestart (Done from a do "
                               "handler, Undone from an undo handler) or TaskWaitForRestart at most once per invocation "
                               "and then return nil",
                               "a reboot is modelled as ReadState(last checkpoint) + restart.Manager(new boot id) + StartUp; "
                               "boot ids never repeat",
                               "graphs: forward DAGs, one lane; exhaustive TLC bounds N=3, one change (two in one thorough "
                               "config); real executions N in 3..4, up to 2 changes",
                               "restart types system / system-now / daemon; halt/poweroff and snap names are not modelled"])
