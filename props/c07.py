from props import _taskengine


def run(ctx):
    return _taskengine.run(ctx, "C07")
