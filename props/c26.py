"""C26 -- REST API requests are served only to callers the endpoint's access level allows (ApiAccess.tla)."""
from props import _apiaccess


def run(ctx):
    return _apiaccess.run(ctx)
