"""C21 -- interface connection / auto-connection / installation decisions follow the declared policy rules.

design       TLC checks PrecedenceRespected / DenyOverAllow / DenyMonotone (invariants) and PrecedenceStep (action
             property) of spec/IfacePolicy.tla over enumerated product domains (one state = one row of the table).
conformance  T->I: TraceIfacePolicy.tla tabulates the reference evaluator over rows chosen here (single level sweeps
             over every rule shape, 4-level precedence products, seeded random rows, AddDeny variants); the Go driver
             harness/ext/ifacepolicy materialises every row as real assertions / snaps and runs the real
             ConnectCandidate.Check / CheckAutoConnect / InstallCandidate.Check / InstallCandidateMinimalCheck.Check.
             Verdict (and auto-connect arity) must equal the table; DenyMonotone is replayed metamorphically on the
             real verdicts alone (base refused => base+deny refused).
The domain (constraint / rule shapes, candidate dimensions, lookup tables) is defined only in the TLA+ module and
exported to JSON for this file and for the Go driver.
"""
import itertools
import json
import os
import random
import threading

from lib import common, tlc, goharness
from lib.common import Result, Violation, InfraError

CONN = ["connection", "auto-connection"]
INST = ["plug-installation", "slot-installation", "slot-installation-minimal"]
DIMS = ["plugName", "slotName", "plugA", "plugB", "slotA", "slotB", "plugType", "slotType", "plugDecl", "slotDecl",
        "sys", "dev"]


# ---------------------------------------------------------------- candidates

def cand_of(vals):
    v = dict(zip(DIMS, vals))
    return {"plugName": v["plugName"], "slotName": v["slotName"],
            "plugAttrs": {"a": v["plugA"], "b": v["plugB"]}, "slotAttrs": {"a": v["slotA"], "b": v["slotB"]},
            "plugType": v["plugType"], "slotType": v["slotType"], "plugDecl": v["plugDecl"], "slotDecl": v["slotDecl"],
            "sys": v["sys"], "dev": v["dev"]}


def cand_str(c):
    return "%s/%s pa=%s%s sa=%s%s %s>%s decl=%s>%s %s %s" % (
        c["plugName"], c["slotName"], c["plugAttrs"]["a"], c["plugAttrs"]["b"], c["slotAttrs"]["a"],
        c["slotAttrs"]["b"], c["plugType"], c["slotType"], c["plugDecl"], c["slotDecl"], c["sys"], c["dev"])


def pairwise(dims, rng, tries=40):
    """Seeded greedy pairwise covering array over the candidate dimensions (every pair of values of every two
    dimensions occurs in some candidate)."""
    names = DIMS
    unc = set()
    for i, j in itertools.combinations(range(len(names)), 2):
        for a in dims[names[i]]:
            for b in dims[names[j]]:
                unc.add((i, a, j, b))
    out = []
    while unc:
        best, bestn = None, -1
        seed_pair = rng.choice(sorted(unc))
        for _ in range(tries):
            v = [rng.choice(dims[n]) for n in names]
            v[seed_pair[0]], v[seed_pair[2]] = seed_pair[1], seed_pair[3]
            n = sum(1 for i, j in itertools.combinations(range(len(names)), 2) if (i, v[i], j, v[j]) in unc)
            if n > bestn:
                best, bestn = v, n
        for i, j in itertools.combinations(range(len(names)), 2):
            unc.discard((i, best[i], j, best[j]))
        out.append(best)
    return out


# ---------------------------------------------------------------- rows

class Gen:
    def __init__(self, ctx, dom):
        self.ctx = ctx
        self.dom = dom
        self.rng = random.Random(1000003 * ctx.seed + 21)
        self.rows = []
        self.families = {}
        cl = [dict(c) for c in dom["candList"]]
        pw = [cand_of(v) for v in pairwise(dom["dims"], self.rng)]
        extra = [cand_of([self.rng.choice(dom["dims"][n]) for n in DIMS]) for _ in range(ctx.pick(10, 120))]
        self.n_pairwise = len(pw)
        seen, self.cands = set(), []
        for c in cl + pw + extra:
            k = json.dumps(c, sort_keys=True)
            if k not in seen:
                seen.add(k)
                self.cands.append(c)
        self.with_plug_decl = [i + 1 for i, c in enumerate(self.cands) if c["plugDecl"] != "none"]
        self.with_slot_decl = [i + 1 for i, c in enumerate(self.cands) if c["slotDecl"] != "none"]
        self.all = list(range(1, len(self.cands) + 1))
        self._rot = self.rng.randrange(1 << 20)

    def nrules(self, side):
        return len(self.dom["rules"][side])

    def side(self, kind, l):
        return self.dom["sides"][kind][l - 1]

    def add(self, fam, kind, li, c, add=None, base=None):
        r = {"id": len(self.rows) + 1, "kind": kind, "li": list(li), "c": c, "add": add or [],
             "decoy": self.rng.randrange(2)}
        if base is not None:
            r["base"] = base
        self.rows.append(r)
        self.families[fam] = self.families.get(fam, 0) + 1
        return r

    def pickc(self, pool, n):
        """n candidates of the pool, rotating so that successive calls walk through the whole pool."""
        if n >= len(pool):
            return list(pool)
        out = []
        for _ in range(n):
            self._rot += 1
            out.append(pool[self._rot % len(pool)])
        return out

    def pool_for(self, kind, l):
        # a snap-declaration rule needs a snap-declaration to live in; keep a few declaration-less candidates too
        if l == 1:
            return self.with_plug_decl
        if l == 2:
            return self.with_slot_decl
        return self.all

    def sweeps(self, nc):
        """F1: every rule shape at every level, alone."""
        for kind in CONN + INST:
            for l in range(1, 5):
                side = self.side(kind, l)
                if not side:
                    continue
                for r in range(1, self.nrules(side) + 1):
                    li = [0, 0, 0, 0]
                    li[l - 1] = r
                    for c in self.pickc(self.pool_for(kind, l), nc):
                        self.add("sweep", kind, li, c)

    def products(self, nc):
        """F2: 4-level products of the small representative rule sets."""
        for kind in CONN + INST:
            sets = [self.dom["few"][self.side(kind, l)] if self.side(kind, l) else [0] for l in range(1, 5)]
            for li in itertools.product(*sets):
                for c in self.pickc(self.all, nc):
                    self.add("product", kind, li, c)

    def randoms(self, n):
        """F3: seeded random rows over the full rule tables."""
        for _ in range(n):
            kind = self.rng.choice(CONN * 3 + INST)
            li = []
            for l in range(1, 5):
                side = self.side(kind, l)
                if not side or self.rng.random() < 0.45:
                    li.append(0)
                else:
                    li.append(self.rng.randrange(1, self.nrules(side) + 1))
            self.add("random", kind, li, self.rng.choice(self.all))

    def can_add(self, kind, l, idx):
        if idx == 0:
            return False
        r = self.dom["rules"][self.side(kind, l)][idx - 1]
        return r["short"] == "-" and r["deny"]["lit"] in ("default", "false", "alts")

    def metamorphic(self, n):
        """F4: AddDeny variants of sampled rows (expected verdict from TLC, and refuse-stays-refuse on real code)."""
        base_rows = [r for r in self.rows if not r["add"]]
        self.rng.shuffle(base_rows)
        made = 0
        for b in base_rows:
            if made >= n:
                break
            cand = self.cands[b["c"] - 1]
            lv = [l for l in range(1, 5) if self.can_add(b["kind"], l, b["li"][l - 1])
                  and not (l == 1 and cand["plugDecl"] == "none") and not (l == 2 and cand["slotDecl"] == "none")]
            if not lv:
                continue
            # mostly the deciding (= most specific present) level, sometimes a shadowed one
            present = [l for l in range(1, 5) if b["li"][l - 1] != 0
                       and not (l == 1 and cand["plugDecl"] == "none") and not (l == 2 and cand["slotDecl"] == "none")]
            l = present[0] if (present and present[0] in lv and self.rng.random() < 0.8) else self.rng.choice(lv)
            cons = self.dom["cons"][self.side(b["kind"], l)]
            ds = [i + 1 for i, c in enumerate(cons) if c["spp"] == "-"]
            for d in self.rng.sample(ds, min(len(ds), 3)):
                self.add("adddeny", b["kind"], b["li"], b["c"], add=[l, d], base=b["id"])
                made += 1


def build_rows(ctx, dom):
    g = Gen(ctx, dom)
    g.sweeps(ctx.pick(1, 6))
    g.products(ctx.pick(1, 8))
    g.randoms(ctx.pick(3000, 60000))
    g.metamorphic(ctx.pick(2400, 24000))
    return g


# ---------------------------------------------------------------- TLC / Go plumbing

def export_domain(ctx):
    d = ctx.subdir("domain")
    out = os.path.join(d, "domain.json")
    res = tlc.run(ctx, "TraceIfacePolicy", "TraceIfacePolicy.cfg", workers=1, env={"VERIF_DOMAIN_OUT": out},
                  timeout=600, name="tlc_domain")
    if not res.ok or not os.path.exists(out):
        raise InfraError("domain export failed: %s\n%s" % (res.summary(), common.tail(res.out, 20)))
    with open(out) as f:
        return out, json.load(f)


class Bg(threading.Thread):
    def __init__(self, fn, *a, **kw):
        super().__init__(daemon=True)
        self.fn, self.a, self.kw = fn, a, kw
        self.res = None
        self.exc = None
        self.start()

    def run(self):
        try:
            self.res = self.fn(*self.a, **self.kw)
        except BaseException as e:  # re-raised by get()
            self.exc = e

    def get(self):
        self.join()
        if self.exc is not None:
            raise self.exc
        return self.res


MC_PROPS = ["TypeOK", "PrecedenceRespected", "DenyOverAllow", "DenyMonotone", "PrecedenceStep"]


def run_mc(ctx, cfg, workers):
    res = tlc.run(ctx, "IfacePolicy", cfg, workers=workers, coverage=False, timeout=ctx.pick(1200, 3000),
                  heap="4g", name="tlc_" + cfg.replace(".cfg", ""))
    if not res.ok:
        # a counterexample on the evaluator itself is a design problem of the spec, never a VIOLATION
        raise InfraError("spec-level counterexample / failure in %s: %s\n%s" % (cfg, res.summary(), common.tail(res.out, 30)))
    if res.distinct < 5000:     # every config is a product of >= 10^4 rows: fewer means the domain collapsed
        raise InfraError("vacuity guard: %s explored only %d states" % (cfg, res.distinct))
    return res


def run_table(ctx, cands_path, rows, k):
    d = ctx.subdir("table%d" % k)
    rp = os.path.join(d, "rows.ndjson")
    common.write_ndjson(rp, [{"id": r["id"], "kind": r["kind"], "li": r["li"], "c": r["c"], "add": r["add"]} for r in rows])
    out = os.path.join(d, "table.json")
    res = tlc.run(ctx, "TraceIfacePolicy", "TraceIfacePolicy.cfg", workers=1,
                  env={"VERIF_CANDS": cands_path, "VERIF_ROWS": rp, "VERIF_OUT": out},
                  timeout=ctx.pick(1200, 3000), heap=ctx.pick("2g", "4g"), name="tlc_table%d" % k)
    if not res.ok or not os.path.exists(out):
        raise InfraError("table evaluation failed (chunk %d): %s\n%s" % (k, res.summary(), common.tail(res.out, 30)))
    with open(out) as f:
        return json.load(f)


def run_driver(ctx, tb, dom_path, cands_path, rows):
    d = ctx.subdir("replay")
    rp = os.path.join(d, "rows.ndjson")
    common.write_ndjson(rp, [{k: r[k] for k in ("id", "kind", "li", "c", "add", "decoy")} for r in rows])
    out = os.path.join(d, "obs.ndjson")
    rc, o = goharness.run_test_bin(ctx, tb, "^Test$", args=["-check.f", "TestVerifIfacePolicy"],
                                   env={"VERIF_DOMAIN": dom_path, "VERIF_CANDS": cands_path, "VERIF_ROWS": rp,
                                        "VERIF_OUT": out}, timeout=ctx.pick(1200, 3000))
    goharness.check_driver(rc, o, "ifacepolicy driver")
    stats = [ln for ln in o.split("\n") if ln.startswith("VERIF-C21")]
    return common.read_ndjson(out), (stats[0] if stats else "")


def describe(dom, g, row):
    """Full decoded content of a row for replay files / samples."""
    lv = []
    for l in range(1, 5):
        side = g.side(row["kind"], l)
        idx = row["li"][l - 1]
        lv.append(None if (not side or idx == 0) else dom["rules"][side][idx - 1])
    d = {"kind": row["kind"], "rule_indices": row["li"], "rules": lv, "candidate": g.cands[row["c"] - 1],
         "decoy": row["decoy"]}
    if row["add"]:
        d["add_deny"] = {"level": row["add"][0],
                         "constraint": dom["cons"][g.side(row["kind"], row["add"][0])][row["add"][1] - 1]}
    return d


def cons_str(c):
    out = []
    for k, v in sorted(c.items()):
        if isinstance(v, dict):
            v = {a: b for a, b in v.items() if b != "-"}
        if v in ([], {}, "-"):
            continue
        out.append("%s=%s" % (k, json.dumps(v, separators=(",", ":"), sort_keys=True)))
    return "{" + " ".join(out) + "}"


def alts_str(al):
    return al["lit"] if al["lit"] != "alts" else "[" + " | ".join(cons_str(c) for c in al["alts"]) + "]"


def rules_str(dom, g, row):
    """Compact, human readable rendering of the rules of a row (for samples and violation descriptions)."""
    out = []
    for l in range(1, 5):
        side, idx = g.side(row["kind"], l), row["li"][l - 1]
        if not side or idx == 0:
            continue
        r = dom["rules"][side][idx - 1]
        if r["short"] != "-":
            out.append("L%d=%s" % (l, r["short"]))
        else:
            out.append("L%d=(allow:%s deny:%s)" % (l, alts_str(r["allow"]), alts_str(r["deny"])))
    if row["add"]:
        out.append("+deny@L%d:%s" % (row["add"][0], cons_str(dom["cons"][g.side(row["kind"], row["add"][0])][row["add"][1] - 1])))
    return " ".join(out) or "no rules"


def row_key(g, row):
    k = "%s L=%s cand=[%s]" % (row["kind"], ",".join(str(i) for i in row["li"]), cand_str(g.cands[row["c"] - 1]))
    if row["add"]:
        k += " +deny(L%d,c%d)" % tuple(row["add"])
    return k


def run(ctx):
    build = Bg(goharness.ext_test_build, ctx, "ifacepolicy")
    dom_path, dom = export_domain(ctx)
    ctx.log("domain: rules %s" % {s: len(v) for s, v in dom["rules"].items()})

    # design: exhaustive product domains, properties as invariants / action property
    cfgs = ctx.pick(["IfacePolicy_mc_quick.cfg"],
                    ["IfacePolicy_mc_prec.cfg", "IfacePolicy_mc_inst.cfg", "IfacePolicy_mc_lvl1.cfg",
                     "IfacePolicy_mc_lvl2.cfg", "IfacePolicy_mc_lvl3.cfg", "IfacePolicy_mc_lvl4.cfg"])
    wk = max(2, ctx.pick(8, 16) // len(cfgs))
    mcs = [Bg(run_mc, ctx, c, wk) for c in cfgs]

    # conformance: rows -> table (TLC) and -> observations (real code)
    g = build_rows(ctx, dom)
    rows = g.rows
    cands_path = os.path.join(ctx.subdir("cands"), "cands.json")
    with open(cands_path, "w") as f:
        json.dump(g.cands, f)
    ctx.log("rows: %d %s, candidates: %d (pairwise %d)" % (len(rows), g.families, len(g.cands), g.n_pairwise))
    nchunk = ctx.pick(2, 8)
    size = (len(rows) + nchunk - 1) // nchunk
    tabs = [Bg(run_table, ctx, cands_path, rows[i * size:(i + 1) * size], i) for i in range(nchunk) if rows[i * size:(i + 1) * size]]

    tb = build.get()
    obs, stats = run_driver(ctx, tb, dom_path, cands_path, rows)
    ctx.log("driver: %s" % stats)
    table = {}
    for t in tabs:
        for e in t.get():
            table[e["id"]] = e
    mcres = [m.get() for m in mcs]
    for c, m in zip(cfgs, mcres):
        ctx.log("mc %s: %d distinct / %d generated, %.0fs" % (c, m.distinct, m.generated, m.wall))

    return compare(ctx, dom, g, table, obs, cfgs, mcres, stats)


def disagreements(rows, table, obs):
    """The oracle: (row, [reasons]) for every row whose real verdict / arity differs from the table, or whose
    AddDeny variant is allowed on the real code although its base row is refused on the real code."""
    out = []
    for r in rows:
        t, o = table[r["id"]], obs[r["id"]]
        mism = []
        if o["ok"] != t["ok"]:
            mism.append("verdict: real %s (%s), specified %s (%s at level %d)" % (
                "allow" if o["ok"] else "refuse", o.get("err", "no error"), "allow" if t["ok"] else "refuse",
                t["why"], t["level"]))
        elif r["kind"] == "auto-connection" and t["ok"] and o["any"] != t["any"]:
            mism.append("arity: real slots-per-plug any=%s, specified any=%s" % (o["any"], t["any"]))
        if r["add"]:
            b = obs[r["base"]]
            if not b["ok"] and o["ok"]:
                mism.append("DenyMonotone: refused without the extra deny alternative (%s) but allowed with it" % b.get("err"))
        if mism:
            out.append((r, mism))
    return out


def compare(ctx, dom, g, table, obs, cfgs, mcres, stats):
    rows = g.rows
    if len(table) != len(rows) or len(obs) != len(rows):
        raise InfraError("row count mismatch: rows=%d table=%d observations=%d" % (len(rows), len(table), len(obs)))
    obs = {o["id"]: o for o in obs}
    bad_inv = [t for t in table.values() if not t["inv"]]
    if bad_inv:
        raise InfraError("spec-level counterexample: PrecedenceAt/DenyOverAllowAt false on table row %s" % bad_inv[0])
    infra = [o for o in obs.values() if o.get("infra")]
    if infra:
        raise InfraError("driver could not materialise %d row(s), e.g. row %d: %s" % (len(infra), infra[0]["id"], infra[0]["infra"]))

    bad = disagreements(rows, table, obs)
    bad_ids = set(r["id"] for r, _ in bad)
    violations = []
    for r, mism in bad[:60]:
        violations.append(Violation(key="C21 " + row_key(g, r), desc="; ".join(mism) + " -- rules: " + rules_str(dom, g, r),
                                    replay={"row": describe(dom, g, r), "real": obs[r["id"]], "specified": table[r["id"]]}))
    if len(bad) > len(violations):
        violations[-1].desc += " (%d rows disagree in total)" % len(bad)

    # the binding is real: corrupting one recorded field of a real observation must be rejected
    probe = next((r for r in rows if r["id"] not in bad_ids and not r["add"]), None)
    if probe is None:
        raise InfraError("no agreeing row to run the corruption self-check on")
    forged = dict(obs)
    forged[probe["id"]] = dict(obs[probe["id"]], ok=not obs[probe["id"]]["ok"])
    if not any(r["id"] == probe["id"] for r, _ in disagreements(rows, table, forged)):
        raise InfraError("binding self-check failed: a corrupted observation was accepted")

    diag = 0
    classes = set()
    refused_pairs = 0
    allowed_n = refused_n = any_n = 0
    samples = []
    for r in rows:
        t, o = table[r["id"]], obs[r["id"]]
        classes.add((r["kind"], t["ok"], t["why"], t["level"], t["any"]))
        allowed_n += t["ok"]
        refused_n += not t["ok"]
        any_n += t["any"]
        if r["id"] in bad_ids:
            continue
        if not t["ok"] and o["why"] != "?" and (o["why"] != t["why"] or o["level"] != t["level"]):
            diag += 1       # same verdict, different deciding rule named in the message: diagnostic only
        if r["add"] and not obs[r["base"]]["ok"]:
            refused_pairs += 1
        if len(samples) < 5 and (r["id"] * 7919 + ctx.seed) % 997 == 0:
            samples.append({"row": row_key(g, r), "rules": rules_str(dom, g, r),
                            "specified": {k: t[k] for k in ("ok", "why", "level", "any")},
                            "real": {k: o.get(k) for k in ("ok", "why", "level", "any", "err")}})
    if not samples:
        r = rows[0]
        samples.append({"row": row_key(g, r), "specified": table[r["id"]], "real": obs[r["id"]]})
    if len(classes) < 12 or allowed_n == 0 or refused_n == 0 or any_n == 0:
        raise InfraError("vacuity guard: table too uniform (classes=%d allowed=%d refused=%d any=%d)" % (
            len(classes), allowed_n, refused_n, any_n))
    if refused_pairs == 0 and not bad:
        raise InfraError("vacuity guard: no refused base row among the AddDeny pairs")
    nviol = len(bad)

    states = sum(m.distinct for m in mcres)
    trans = sum(m.generated for m in mcres)
    cov = {
        "states": states, "transitions": trans,
        "traces_validated_against_impl": len(rows),
        "samples": samples,
        "tlc_configs": {c: {"distinct": m.distinct, "generated": m.generated, "wall_s": round(m.wall, 1)} for c, m in zip(cfgs, mcres)},
        "tlc_properties": MC_PROPS,
        "table_rows": len(rows), "row_families": g.families,
        "candidates": len(g.cands), "candidates_pairwise_cover": g.n_pairwise,
        "rule_shapes": {s: len(v) for s, v in dom["rules"].items()},
        "constraint_shapes": {s: len(v) for s, v in dom["cons"].items()},
        "distinct_outcome_classes": len(classes), "rows_allowed": allowed_n, "rows_refused": refused_n,
        "rows_arity_any": any_n, "adddeny_pairs_with_refused_base": refused_pairs,
        "same_verdict_other_rule_named": diag, "rows_disagreeing": nviol,
        "corrupted_observation_rejected": True,
        "driver": stats,
    }
    assumptions = [
        "regular expressions in name/attribute constraints are literals or the alternation A|B (also as a list of alternative matchers); attribute values are strings or lists of strings",
        "sub-rules of other kinds and the other side's rule in a snap-declaration are not inputs of a decision (exercised with contrary decoys on the real code)",
        "DenyMonotone is about extending the deny list of an existing rule; a NEW more specific rule takes precedence by design",
        "InstallCandidateMinimalCheck ignores deny-installation by design; its verdicts are bound to the table but excluded from DenyOverAllow",
    ]
    return Result(level="model_checking", coverage=cov, assumptions=assumptions, violations=violations)
