"""C18 -- AssertCheck.tla decision table (TLC: enumerate + invariants + JSON export) bound T->I to the real
Decode + Database.Check + Database.Add with real keys, account-keys and byte-level mutations."""
import json
import os
import re
import zlib

from lib import common, tlc, goharness, findings
from lib.common import InfraError, Violation

OVERLAY = ["/verif/harness/overlay/asserts/zz_verif_assertcheck_test.go",
           "/verif/harness/overlay/asserts/zz_verif_assertstack_test.go"]
STACK_NOW = 15      # abstract clock of the stacked-database histories (keys: since 10, "expired" until 12)
STACK_VIAS = ("check", "fresh_check", "precheck", "commit", "add")
BYTE_CLASSES = ("hdr-byte", "body-byte", "sig-byte")
SINCE = 10     # must equal Since in AssertCheck_mc.cfg


def sig_field(pos, region):
    """Name of the OpenPGP v4 RSA signature packet field at byte offset `pos` of the decoded signature
    (layout produced by asserts/crypto.go:signContent: one hashed subpacket = creation time, no unhashed ones)."""
    if pos == 0:
        return "packet-tag"
    if pos == 1:
        return "packet-length"
    names = {2: "version", 3: "sig-type", 4: "pubkey-algo", 5: "hash-algo", 6: "hashed-len", 7: "hashed-len",
             14: "unhashed-len", 15: "unhashed-len", 16: "hash-tag", 17: "hash-tag", 18: "mpi-bitcount", 19: "mpi-bitcount"}
    if pos in names:
        return names[pos]
    if 8 <= pos <= 13:
        return "hashed-subpackets"
    return "mpi"


def row_key(r):
    k = r["key"]
    return "key=%s/%s/until=%s/cons=%s mode=%s clock=%d cls=%s ts=%d fmtOK=%s mut=%s" % (
        k["where"], k["owner"], "inf" if k["until"] >= 1000000 else k["until"], k["cons"], r["mode"], r["clock"],
        r["cls"], r["ts"], str(bool(r["fmtOK"])).lower(), r["mut"])


def base_id(r):
    return json.dumps({k: v for k, v in r.items() if k != "mut"}, sort_keys=True)


def plan(ctx, table):
    """Choose how many byte positions / bits are mutated for each row (all rows are always materialised)."""
    base_accept = {base_id(e["row"]) for e in table if e["row"]["mut"] == "none" and e["verdict"] == "accept"}
    rows = []
    n_full = 0
    for i, e in enumerate(table):
        r = dict(e["row"])
        r["i"] = i
        r["since"] = SINCE
        r["npos"], r["bits"] = 1, 1
        if r["mut"] in BYTE_CLASSES:
            sig = r["mut"] == "sig-byte"
            if base_id(e["row"]) in base_accept:
                if ctx.tier == "thorough":
                    r["npos"], r["bits"] = -1, 8
                    n_full += 1
                elif (zlib.crc32(row_key(e["row"]).encode()) + ctx.seed) % 6 == 0:
                    r["npos"], r["bits"] = -1, (8 if sig else 1)
                    n_full += 1
                else:
                    r["npos"], r["bits"] = 12, 1
            else:
                r["npos"], r["bits"] = (3 if ctx.tier == "thorough" else 1), 1
        rows.append(r)
    return rows, n_full


def stack_evaluate(table, got):
    """Compare the real judgements through every handle of every stacked-database history with AssertStack.tla."""
    violations, mismatches = [], []
    judged = accepts = shadow = 0
    depths = {}
    for i, (row, g) in enumerate(zip(table, got)):
        if g["i"] != i:
            raise InfraError("stack driver output out of order at %d" % i)
        ops = ",".join(row["ops"])
        if g["setup"] != "ok":
            mismatches.append({"ops": ops, "what": g["setup"]})
            continue
        depth = len(row["layers"])
        depths[depth] = depths.get(depth, 0) + 1
        shadow += 1 if row["shadow"] else 0
        for d, (exp, h) in enumerate(zip(row["verdicts"], g["handles"]), 1):
            for via in STACK_VIAS:
                judged += 1
                real = h[via]
                if real == "accept" and exp == "accept":
                    accepts += 1
                if real == exp:
                    continue
                rec = {"ops": row["ops"], "layers": row["layers"], "handle": d, "depth": depth, "via": via, "spec": exp,
                       "real": h, "highest_visible_revision": row["highest"][d - 1]}
                if real == "accept":
                    violations.append(Violation(
                        key="stacked db accepted: ops=%s handle=%d/%d via=%s" % (ops, d, depth, via),
                        desc="history [%s]: through database handle %d of %d (%s) an assertion signed with the key was ACCEPTED "
                             "although the highest account-key revision visible to that database is %s (spec: %s; Find returned "
                             "revision %s)" % (ops, d, depth, via, row["highest"][d - 1], exp, h["key_rev"]),
                        replay=rec))
                else:
                    mismatches.append(dict(rec, what="verdict differs without acceptance"))
            if h["key_rev"] != row["highest"][d - 1]["rev"]:
                mismatches.append({"ops": ops, "handle": d, "what": "Find(account-key) returned revision %s, highest visible is %s"
                                   % (h["key_rev"], row["highest"][d - 1]["rev"])})
    return {"violations": violations, "mismatches": mismatches, "judged": judged, "accepts": accepts, "shadow": shadow,
            "depths": depths}


def run_stack(ctx, tb):
    """Part 2: AssertStack.tla (stack of backstores) -- TLC explores the state machine and exports every history;
    each history is replayed on real stacked databases."""
    d = ctx.subdir("stack")
    tpath = os.path.join(d, "stack.json")
    cfg = ctx.pick("AssertStack_mc.cfg", "AssertStack_mc_thorough.cfg")
    mc = tlc.run(ctx, "AssertStackTable", cfg, workers=2, env={"VERIF_OUT": tpath}, timeout=ctx.pick(600, 1800),
                 name="tlc_AssertStack")
    if not mc.ok:
        raise InfraError("spec-level counterexample in AssertStack: %s\n%s" % (mc.summary(), common.tail(mc.out, 30)))
    with open(tpath) as f:
        table = json.load(f)
    inp, outp = os.path.join(d, "hist.ndjson"), os.path.join(d, "out.ndjson")
    common.write_ndjson(inp, [{"i": i, "ops": r["ops"], "now": STACK_NOW} for i, r in enumerate(table)])
    rc, o = goharness.run_test_bin(ctx, tb, "^TestVerifAssertStack$", cwd=os.path.join(common.REPO, "asserts"),
                                   env={"VERIF_IN": inp, "VERIF_OUT": outp}, timeout=ctx.pick(900, 3000))
    goharness.check_driver(rc, o, "assertstack driver")
    m = re.search(r'VERIF-STATS rows=(\d+) judgements=(\d+)', o)
    if not m or int(m.group(1)) != len(table):
        raise InfraError("assertstack driver did not answer all histories:\n%s" % common.tail(o, 20))
    got = common.read_ndjson(outp)
    ev = stack_evaluate(table, got)
    # binding self-check: one real rejection turned into an acceptance must be reported
    import copy
    neg = False
    for i, (row, g) in enumerate(zip(table, got)):
        if row["shadow"] and g["setup"] == "ok":
            d0 = next(k for k, v in enumerate(row["verdicts"]) if v != "accept" and k >= 1)
            g2 = copy.deepcopy(got)
            g2[i]["handles"][d0]["fresh_check"] = "accept"
            neg = len(stack_evaluate(table, g2)["violations"]) == len(ev["violations"]) + 1
            break
    ctx.log("AssertStack %s: %d states; %d histories (%d with a bad newer revision above a good older one) replayed on real "
            "stacked databases, %d judgements; %d violations, %d spec mismatches, %.0fs TLC" % (
                cfg, mc.distinct, len(table), ev["shadow"], ev["judged"], len(ev["violations"]), len(ev["mismatches"]), mc.wall))
    sample = None
    for row, g in zip(table, got):
        if row["shadow"] and len(row["layers"]) >= 3 and g["setup"] == "ok":
            sample = {"stacked_history": row["ops"], "layers": row["layers"], "spec_verdict_per_handle": row["verdicts"],
                      "real_per_handle": g["handles"]}
            break
    cov = {"stack_states": mc.distinct, "stack_transitions": mc.generated, "stack_tlc_config": cfg,
           "stack_histories_replayed": len(table), "stack_histories_with_shadowed_good_revision": ev["shadow"],
           "stack_histories_by_depth": ev["depths"], "stack_real_judgements": ev["judged"],
           "stack_real_accepts_agreeing": ev["accepts"], "stack_negative_control_rejected": neg,
           "stack_spec_mismatches": len(ev["mismatches"])}
    return ev, cov, neg, sample


def run(ctx):
    # 1. design: TLC enumerates the whole decision table, checks the invariants on every row and exports it
    d = ctx.subdir("table")
    tpath = os.path.join(d, "table.json")
    mc = tlc.run(ctx, "AssertCheckTable", "AssertCheck_mc.cfg", workers=ctx.pick(4, 8), env={"VERIF_OUT": tpath},
                 timeout=ctx.pick(900, 1800), coverage=False)
    if not mc.ok:
        raise InfraError("spec-level counterexample in AssertCheck: %s\n%s" % (mc.summary(), common.tail(mc.out, 30)))
    with open(tpath) as f:
        table = json.load(f)
    if len(table) != mc.distinct:
        raise InfraError("exported table has %d rows but TLC checked %d states" % (len(table), mc.distinct))
    n_acc = sum(1 for e in table if e["verdict"] == "accept")
    ctx.log("TLC: %d rows checked (AcceptSound, MutationRejected, ExpiredRejected, ReencodeNeutral), %d accept, %.0fs"
            % (mc.distinct, n_acc, mc.wall))
    if n_acc == 0:
        raise InfraError("vacuity guard: decision table has no accepting row")

    # 2. T->I: materialise every row on the real code
    rows, n_full = plan(ctx, table)
    inp, outp = os.path.join(d, "rows.ndjson"), os.path.join(d, "out.ndjson")
    common.write_ndjson(inp, rows)
    tb = goharness.overlay_test_build(ctx, "asserts", OVERLAY)
    rc, o = goharness.run_test_bin(ctx, tb, "^TestVerifAssertCheck$", cwd=os.path.join(common.REPO, "asserts"),
                                   env={"VERIF_IN": inp, "VERIF_OUT": outp}, timeout=ctx.pick(900, 3000))
    goharness.check_driver(rc, o, "assertcheck driver")
    m = re.search(r'VERIF-STATS rows=(\d+) decodes=(\d+) checks=(\d+) dbs=(\d+)', o)
    if not m or int(m.group(1)) != len(rows):
        raise InfraError("assertcheck driver did not answer all rows:\n%s" % common.tail(o, 20))
    got = common.read_ndjson(outp)
    ev = evaluate(table, rows, got)
    ctx.log("materialised %d rows / %s real Decode+Check+Add evaluations; %d violations, %d spec mismatches" % (
        len(rows), m.group(2), len(ev["violations"]), len(ev["mismatches"])))

    neg = negative_control(table, rows, got)

    # 3. the database as a stack of backstores (AssertStack.tla)
    sev, scov, sneg, ssample = run_stack(ctx, tb)
    ev["violations"].extend(sev["violations"])
    stack_mismatches = sev["mismatches"]
    # guards are enforced unless there is a violation that is not a listed known finding (which exits 1 anyway)
    if not findings.classify(ctx.prop, ev["violations"])[1]:
        if ev["mismatches"]:
            mm = ev["mismatches"][0]
            raise InfraError("real code and AssertCheck.tla disagree where the statement does not decide "
                             "(over-rejection / reason class; %d rows; triage): %s" % (len(ev["mismatches"]), json.dumps(mm)[:1200]))
        if ev["real_accepts"] != n_acc:
            raise InfraError("vacuity guard: real code accepted %d rows, table has %d" % (ev["real_accepts"], n_acc))
        if not neg:
            raise InfraError("binding self-check failed: a corrupted real verdict was not rejected")
        if stack_mismatches:
            raise InfraError("real stacked databases and AssertStack.tla disagree where the statement does not decide (%d; triage): %s"
                             % (len(stack_mismatches), json.dumps(stack_mismatches[0], default=str)[:1200]))
        if sev["shadow"] == 0 or sev["accepts"] == 0:
            raise InfraError("vacuity guard: stacked histories never reached the shadowing layering / never accepted")
        if not sneg:
            raise InfraError("binding self-check failed (stack): a corrupted real verdict was not rejected")

    samples = []
    want = [("none", "accept"), ("none", "reject:expired"), ("sig-byte", "reject:signature"),
            ("none", "reject:timestamp"), ("wrong-signer", "reject:signature")]
    for mut, verdict in want:
        for e, g in zip(table, got):
            if e["row"]["mut"] == mut and e["verdict"] == verdict and e["row"]["fmtOK"]:
                samples.append({"row": row_key(e["row"]), "table": verdict, "real_check": g["check"], "real_add": g["add"],
                                "inputs_judged": g["variants"], "real_reasons": g["reasons"]})
                break
    cov = {
        "states": mc.distinct, "transitions": mc.generated, "tlc_wall_s": round(mc.wall, 1),
        "tlc_constants": {"Since": 10, "Until": 20, "Times": [5, 10, 15, 20, 25]},
        "table_rows": len(table), "table_accept_rows": n_acc,
        "table_verdict_classes": ev["table_classes"],
        "traces_validated_against_impl": len(rows),
        "real_decode_check_add_evaluations": int(m.group(2)),
        "real_databases_built": int(m.group(4)),
        "rows_with_every_byte_position_mutated": n_full,
        "byte_mutants_judged": ev["byte_mutants"],
        "mutated_region_sizes": ev["regions"],
        "real_accepts": ev["real_accepts"],
        "real_reject_reasons": ev["real_reasons"],
        "negative_control_corrupted_verdict_rejected": neg,
        "spec_mismatches": len(ev["mismatches"]),
        "samples": samples + ([ssample] if ssample else []),
    }
    cov.update(scov)
    cov["states"] += scov["stack_states"]
    cov["transitions"] += scov["stack_transitions"]
    cov["traces_validated_against_impl"] += scov["stack_histories_replayed"]
    return common.Result(
        level="model_checking", coverage=cov, violations=ev["violations"],
        assumptions=[
            "cryptography abstracted in the spec as <<key id, content tag>>; unforgeability of RSA/SHA-512/SHA3 is not claimed",
            "real keys are RSA 752/1024 bit test keys; assertion types test-only (plain), snap-build (timestamped), "
            "account-key-request (self-signed, no authority)",
            "with SetEarliestTime (mode=earliest) 'valid at the current time' is read as 'valid at some time >= earliest' "
            "(isValidAssumingCurTimeWithin)",
            "byte mutations: single-bit flips; quick tier mutates every byte position for 1/6 of the accepted base rows "
            "and 12 spread positions for the others; thorough mutates every position of every accepted base row "
            "(all 8 bits of every content and decoded-signature byte)",
            "bytes outside the signed content and the decoded signature (separators, base64 layout) are only covered by sig-reencode",
            "stacked databases: memory backstores, one key, account-key revisions added through the top handle only, depth <= 3 "
            "(thorough 4), histories of <= 5 (thorough 6) actions; judged after the last action through every handle",
        ])


def evaluate(table, rows, got):
    violations, mismatches = [], []
    grouped = {}
    tclasses, reasons, regions = {}, {}, {}
    real_accepts = 0
    byte_mutants = 0
    for e, r, g in zip(table, rows, got):
        if g["i"] != r["i"]:
            raise InfraError("driver output out of order at row %d" % r["i"])
        exp = e["verdict"]
        mut = e["row"]["mut"]
        tclasses[exp] = tclasses.get(exp, 0) + 1
        for k, v in g["reasons"].items():
            kk = k if not k.startswith("reject:other:") else "reject:other"
            reasons[kk] = reasons.get(kk, 0) + v
        if mut in BYTE_CLASSES:
            byte_mutants += g["variants"]
            regions["%s/%s" % (e["row"]["cls"], mut)] = g["region"]
        real_acc = g["check"] == "accept" or g["add"] == "accept"
        if exp == "accept" and g["check"] == "accept" and g["add"] == "accept":
            real_accepts += 1      # accepting rows of the table that the real code accepts too
        if exp != "accept" and real_acc:
            if mut in BYTE_CLASSES or mut == "sig-alias":
                for desc in g.get("accepted", []):
                    if mut == "sig-byte":
                        pos = int(desc.split(":")[1])
                        what = "decoded-signature field=%s (byte %d)" % (sig_field(pos, g["region"]), pos)
                    elif mut == "sig-alias":
                        what = "decoded-signature field=%s (same value re-expressed)" % desc.replace("+1", "")
                    else:
                        what = "content %s" % ":".join(desc.split(":")[:2])
                    key = "accepted after %s cls=%s: %s" % (mut, e["row"]["cls"], what)
                    grouped.setdefault(key, []).append((e, g, desc))
            else:
                key = "accepted: " + row_key(e["row"])
                violations.append(Violation(
                    key=key, desc="table says %s but real Check=%s Add=%s for %s" % (exp, g["check"], g["add"], row_key(e["row"])),
                    replay={"row": e["row"], "table": exp, "real": g}))
        elif exp == "accept" and not (g["check"] == "accept" and g["add"] == "accept"):
            mismatches.append({"row": row_key(e["row"]), "table": exp, "real_check": g["check"], "real_add": g["add"]})
        elif exp != "accept" and mut == "none" and g["check"] != exp:
            mismatches.append({"row": row_key(e["row"]), "table": exp, "real_check": g["check"], "real_add": g["add"],
                               "what": "reject reason differs"})
    for key, hits in sorted(grouped.items()):
        e, g, _ = hits[0]
        variants = sorted({h[2] for h in hits})
        violations.append(Violation(
            key=key,
            desc="%s: a change of the signed content / decoded signature was still accepted (variants %s; "
                 "%d row-variants, e.g. %s; real Check=%s Add=%s)" % (key, ",".join(variants[:10]), len(hits),
                                                                   row_key(e["row"]), g["check"], g["add"]),
            replay={"row": e["row"], "table": e["verdict"], "real": g, "variants": variants, "hits": len(hits)}))
    return {"violations": violations, "mismatches": mismatches, "table_classes": tclasses, "real_reasons": reasons,
            "regions": regions, "real_accepts": real_accepts, "byte_mutants": byte_mutants}


def negative_control(table, rows, got):
    """Corrupt one recorded real verdict (a rejected row -> accept): evaluate() must report it."""
    import copy
    for idx, (e, g) in enumerate(zip(table, got)):
        if e["verdict"] == "reject:expired" and g["check"] == "reject:expired":
            g2 = copy.deepcopy(got)
            g2[idx]["check"] = g2[idx]["add"] = "accept"
            ev = evaluate(table, rows, g2)
            return any(v.replay["row"] == e["row"] for v in ev["violations"])
    return False
