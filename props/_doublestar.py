"""Cause predicate for the known C37 findings: a line-by-line port of github.com/bmatcuk/doublestar/v4 v4.6.1
`doMatchWithSeparator` / `isZeroLengthPattern` (match.go) for separator '/', *including* its handling of
`{a,b}` groups, plus the wrapper rules of patterns.PathPatternMatches as they are at the pinned commit.

Used ONLY to name the cause of a difference that the check has already found between the real
PathPatternMatches(pattern-with-groups, path) and the reference (OR over the expansions): doublestar does not
expand groups, it substitutes one alternative in place and re-enters the matcher
  (a) with `startOfSegment` reset to true at the group's position, so a `**` that begins there (alternative
      starting with `**`, empty alternative followed by `**`, `*` + `*` across the brace) spans directories even
      in the middle of a segment                                  -> cause `doublestar-group-restart`
  (b) and, when the path is used up, `isZeroLengthPattern` only looks into a group if `{` is the first byte of
      what is left of the pattern                                 -> cause `doublestar-zero-length-group`
A difference is attributed to these causes iff this port reproduces the real result on every differing path.
Anything else (e.g. a change of the trailing-'/' rules in PathPatternMatches, or of what is passed to
doublestar) keeps a key without a cause and is therefore never covered by known_findings.json.
Character classes `[...]` are not ported: snapd rejects unescaped '[' and ']'.
"""

SEP = "/"


class Unsupported(Exception):
    pass


def _closing_alt(s):
    alts = 1
    i = 0
    while i < len(s):
        c = s[i]
        if c == "\\":
            i += 1
        elif c == "{":
            alts += 1
        elif c == "}":
            alts -= 1
            if alts == 0:
                return i
        i += 1
    return -1


def _next_alt(s):
    alts = 1
    i = 0
    while i < len(s):
        c = s[i]
        if c == "\\":
            i += 1
        elif c == "{":
            alts += 1
        elif c == "}":
            alts -= 1
        elif c == "," and alts == 1:
            return i
        i += 1
    return -1


def _zero_len(p):
    if p in ("", "*", "**", SEP + "**", "**" + SEP, SEP + "**" + SEP):
        return True
    if p[0] == "{":
        closing = _closing_alt(p[1:])
        if closing == -1:
            raise Unsupported("no closing }")
        closing += 1
        i = 1
        while True:
            comma = _next_alt(p[i:closing])
            if comma == -1:
                break
            comma += i
            if _zero_len(p[i:comma] + p[closing + 1:]):
                return True
            i = comma + 1
        return _zero_len(p[i:closing] + p[closing + 1:])
    return False


def ds_match(pattern, name, ds_pb=-1, ds_nb=-1, s_pb=-1, s_nb=-1, pi=0, ni=0):
    """doublestar.Match(pattern, name) for valid patterns without character classes."""
    plen, nlen = len(pattern), len(name)
    sos = True                      # startOfSegment: true on EVERY (re-)entry, also at a group's position
    while ni < nlen:
        if pi < plen:
            c = pattern[pi]
            if c == "*":
                pi += 1
                if pi < plen and pattern[pi] == "*":
                    pi += 1
                    if sos:
                        if pi >= plen:
                            return True
                        if pattern[pi] == SEP:
                            pi += 1
                            ds_pb, ds_nb, s_pb, s_nb = pi, ni, -1, -1
                            continue
                sos = False
                s_pb, s_nb = pi, ni
                continue
            elif c == "?":
                sos = False
                if name[ni] != SEP:
                    pi += 1
                    ni += 1
                    continue
            elif c == "[":
                raise Unsupported("character class")
            elif c == "{":
                sos = False
                before = pi
                pi += 1
                closing = _closing_alt(pattern[pi:])
                if closing == -1:
                    raise Unsupported("no closing }")
                closing += pi
                while True:
                    comma = _next_alt(pattern[pi:closing])
                    if comma == -1:
                        break
                    comma += pi
                    if ds_match(pattern[:before] + pattern[pi:comma] + pattern[closing + 1:], name,
                                ds_pb, ds_nb, s_pb, s_nb, before, ni):
                        return True
                    pi = comma + 1
                return ds_match(pattern[:before] + pattern[pi:closing] + pattern[closing + 1:], name,
                                ds_pb, ds_nb, s_pb, s_nb, before, ni)
            else:
                if c == "\\":
                    pi += 1
                    if pi >= plen:
                        raise Unsupported("trailing backslash")
                r = pattern[pi]
                if r == name[ni]:
                    pi += 1
                    ni += 1
                    sos = r == SEP
                    continue
                if pi > 0 and pattern[pi - 1] == "\\":
                    pi -= 1
        # mismatch: backtrack
        if s_pb >= 0 and name[s_nb] != SEP:
            s_nb += 1
            pi, ni = s_pb, s_nb
            sos = False
            continue
        if ds_pb >= 0:
            ni = ds_nb
            again = False
            while ni < nlen:
                r = name[ni]
                ni += 1
                if r == SEP:
                    ds_nb = ni
                    pi = ds_pb
                    sos = True
                    again = True
                    break
            if again:
                continue
        return False
    return _zero_len(pattern[pi:])


def ppm_as_coded(pattern, path):
    """patterns.PathPatternMatches at the pinned commit, on top of ds_match."""
    if pattern.endswith("/") and not path.endswith("/"):
        return False
    if ds_match(pattern, path):
        return True
    if pattern.endswith("/"):
        return False
    return ds_match(pattern + "/", path)


def match_cause(pattern, diffs):
    """diffs: list of (path, real_result). Returns the cause suffix ('' if the port does not reproduce the
    real result on every differing path)."""
    try:
        for path, real in diffs:
            if ppm_as_coded(pattern, path) != bool(real):
                return ""
    except (Unsupported, RecursionError, IndexError):
        return ""
    if not diffs:
        return ""
    if all(bool(real) for _p, real in diffs):
        return "doublestar-group-restart"
    if not any(bool(real) for _p, real in diffs):
        return "doublestar-zero-length-group"
    return "doublestar-group-restart+zero-length-group"


# ---- variant normalisation as coded at the pinned commit (patterns/variant.go: parsePatternVariant) ----
# Used only to attribute a `variant[...]` difference to the KNOWN normalisation rules: the cause is named only
# if the variant string the real code produced is exactly the one these frozen rules produce; a change of
# parsePatternVariant that yields any other string keeps an unlisted key (`variant[unexpected]`).
import re

_G, _SD, _SEP, _Q, _LIT = "glob", "sepds", "sep", "any", "lit"
_DS = "⁑"


def variant_as_coded(ex):
    def repl(m):
        s = m.group(0)
        if (len(s) - 2) % 2 == 1:
            return s
        return s[:-2] + _DS
    prepared = re.sub(r"((\\)*)\*\*", repl, ex)
    comps = []
    runes = []

    def prev(*types):
        return len(comps) >= len(types) and [c[0] for c in comps[len(comps) - len(types):]] == list(types)

    def add_glob():
        if not prev(_G) and not prev(_SD):
            comps.append((_G, "*"))

    def reduce_ds():
        if prev(_SD):
            comps[-1] = (_SEP, "/")
            comps.append((_G, "*"))

    def consume():
        if runes:
            reduce_ds()
            comps.append((_LIT, "".join(runes)))
            del runes[:]

    i = 0
    while i < len(prepared):
        r = prepared[i]
        i += 1
        if r == "/":
            consume()
            if prev(_SD, _SEP, _G):
                comps[-3:] = [(_SEP, "/"), (_G, "*"), (_SD, "/**")]
            if not prev(_SEP):
                comps.append((_SEP, "/"))
        elif r == "?":
            reduce_ds()
            consume()
            if prev(_G):
                comps[-1] = (_Q, "?")
                comps.append((_G, "*"))
            else:
                comps.append((_Q, "?"))
        elif r == _DS:
            consume()
            if prev(_SD, _SEP):
                comps.pop()
            elif prev(_SEP):
                comps[-1] = (_SD, "/**")
            else:
                add_glob()
        elif r == "*":
            reduce_ds()
            consume()
            add_glob()
        elif r == "\\":
            if i >= len(prepared):
                raise Unsupported("trailing backslash")
            r2 = prepared[i]
            i += 1
            if r2 in "*?[]{}\\":
                runes.extend([r, r2])
            else:
                runes.append(r2)
        else:
            runes.append(r)
    consume()
    if prev(_SD, _SEP, _G):
        del comps[-2:]
    if prev(_SD, _SEP):
        del comps[-2:]
        comps.append(("sepdssepterm", "/**/"))
    elif prev(_SD):
        comps[-1] = ("sepdsterm", "/**")
    return "".join(t for _k, t in comps)


def variant_cause(ex, var):
    """Name of the known normalisation rule(s) at work, '' if none is recognised, 'unexpected' if the variant
    string is not the one the frozen rules produce."""
    try:
        if variant_as_coded(ex) != var:
            return "unexpected"
    except Unsupported:
        return "unexpected"
    f = []
    if "//" in ex:
        f.append("dupsep")
    if "***" in ex:
        f.append("stars3")
    if "/**/**" in ex:
        f.append("dsds")
    elif ex.endswith("/**/*") or "/**/*/" in ex:
        f.append("ds-star")
    if not f and "*?" in ex:
        f.append("star-qmark-reorder")
    return "+".join(f)
