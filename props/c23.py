"""C23 -- directory synchronisation of generated files is exact and fails closed.

design:       TLC checks spec/SyncDir.tla (EnsureDirStateGlobs with both Go map iterations as nondeterminism)
              for every initial directory x desired map x order: invariant Post (the statement), etc.
conformance:  the real osutil.EnsureDirState / EnsureDirStateGlobs run on temp dirs for sampled (quick: plus
              exhaustively enumerated 1-name) cases, several times each; TLC (spec/TraceSyncDir.tla) computes
              per case the SET of admissible outcomes and judges every distinct real outcome: member of the
              set (conformance) and PostOK on the real outcome (the statement).
A real outcome that fails PostOK is a VIOLATION.  A real outcome outside the spec's set that still satisfies
the statement is spec drift: exit 2 (no verdict), never a violation.
"""
import os
import random

from lib import common, tlc, goharness
from lib.common import Result, Violation, InfraError
from props import _syncdir as S
from props import _synctree as T


def run(ctx):
    import concurrent.futures
    pool = concurrent.futures.ThreadPoolExecutor(max_workers=4)

    # ---- 1. design (TLC jobs run concurrently with the Go build and the real executions) ---------
    cfg = ctx.pick("SyncDir_mc.cfg", "SyncDir_mc_thorough.cfg")
    f_mc = pool.submit(tlc.run, ctx, "SyncDir", cfg, coverage=False, workers=ctx.pick(6, 12),
                       timeout=ctx.pick(900, 3000), heap=ctx.pick("6g", "12g"))
    f_cov = pool.submit(tlc.run, ctx, "SyncDir", "SyncDir_cov.cfg", coverage=True, workers=2, timeout=600, name="tlc_cov")
    f_tree = pool.submit(T.tree_design, ctx)

    # ---- 2. conformance on the real code --------------------------------------------------------
    rnd = random.Random(ctx.seed)
    dom = S.Domain(S.cfg_constants("TraceSyncDir.cfg"))
    runs = ctx.pick(3, 5)
    cases = S.all_cases_small(dom, runs, 1, rnd)
    n_enum = len(cases)
    nrand = ctx.pick(1500, 25000)
    for i in range(nrand):
        cases.append(S.sample_case(dom, rnd, i, runs, nmanaged=rnd.choice([2, 3, 3])))
    binary = goharness.ext_test_build(ctx, "syncdir")
    obs, execs = S.run_real(ctx, binary, cases, "real")
    if len(obs) != len(cases):
        raise InfraError("driver returned %d results for %d cases" % (len(obs), len(cases)))
    ctx.log("real executions: %d over %d cases" % (execs, len(cases)))

    violations, drift = [], []
    lines = []
    for r in obs:
        for o in r["outs"]:
            if o.get("panic"):
                violations.append(Violation(S.case_key(r) + " panic", "EnsureDirState panicked: %s" % o["panic"],
                                            {"case": r}))
        r["outs"] = [o for o in r["outs"] if not o.get("panic")]
        lines.append(S.strip_for_tlc(r))
    controls = S.corrupted_controls(obs, rnd, 12)
    verdicts = S.tlc_judge(ctx, "TraceSyncDir", "TraceSyncDir.cfg", lines + controls, ctx.pick(3, 10))
    vreal, vctl = verdicts[:len(lines)], verdicts[len(lines):]
    ctx.log("TLC judged %d cases" % len(lines))

    # a control counts only if the real observation it was derived from was itself accepted (under a mutated tree
    # the base observation may be the wrong one, and "corrupting" it may repair it)
    accepted = {v["case"] for v in vreal if all(v["member"]) and all(v["post"])}
    effective = 0
    for c, v in zip(controls, vctl):
        if c["base"] not in accepted:
            continue
        effective += 1
        if any(v["member"]) or any(v["post"]):
            raise InfraError("binding control failed: corrupted observation %s was accepted (%s)" % (c["case"], v))

    classes = {}
    multi_adm = multi_seen = 0
    distinct_out = set()
    samples = []
    for r, v in zip(obs, vreal):
        if v["case"] != r["case"]:
            raise InfraError("verdict/case misalignment")
        if not v["indom"]:
            raise InfraError("case outside the spec's domain: %s" % S.case_key(r))
        if v["nadm"] > 1:
            multi_adm += 1
        if len(r["outs"]) > 1:
            multi_seen += 1
        for k, o in enumerate(r["outs"]):
            cls = ("err" if o["err"] else "ok") + ("/writefail" if v["wfail"] else "")
            classes[cls] = classes.get(cls, 0) + 1
            distinct_out.add((tuple(sorted(o["dir"].items())), tuple(o["changed"]), tuple(o["removed"]), o["err"]))
            bad_extra = bool(o["extra"])
            if not v["post"][k] or bad_extra:
                what = "leftover entries %s" % o["extra"] if bad_extra and v["post"][k] else "statement violated"
                violations.append(Violation(
                    S.case_key(r, o),
                    "EnsureDirState: %s (err=%s errmsg=%r); admissible outcomes per spec: %d" % (
                        what, o["err"], o.get("errmsg", ""), v["nadm"]),
                    {"case": {k2: r[k2] for k2 in ("case", "init", "des", "globs", "flavour")}, "outcome": o}))
            elif not v["member"][k]:
                drift.append(S.case_key(r, o))
        if len(samples) < 5 and (len(r["outs"]) > 1 or len(samples) < 2):
            samples.append({"init": r["init"], "des": r["des"], "real_outcomes": r["outs"], "admissible": v["nadm"]})

    # ---- 3. EnsureTreeState, then the apparmor / seccomp backends end to end ---------------------------------------------------------------------
    tree = T.run_tree(ctx, binary, rnd)
    violations += tree["violations"]
    drift += tree["drift"]

    be = T.run_backends(ctx)
    violations += be["violations"]
    drift += be["drift"]

    # ---- 4. join the design jobs ----------------------------------------------------------------
    mc, cov, tmc = f_mc.result(), f_cov.result(), f_tree.result()
    pool.shutdown()
    if not mc.ok:
        raise InfraError("spec-level counterexample in SyncDir/%s: %s" % (cfg, mc.summary()))
    ctx.log("TLC SyncDir/%s: %d distinct states, %.0fs" % (cfg, mc.distinct, mc.wall))
    if not cov.ok:
        raise InfraError("spec-level counterexample in SyncDir_cov.cfg: %s" % cov.summary())
    tlc.require_coverage(cov, ["Check", "ChangeOne", "Glob", "DeleteOne", "Finish"])
    if not ctx.quick:   # monitors that MUST be violated: fail-closed runs and removal-only failures exist in the spec
        for vcfg, inv in (("SyncDir_vac1.cfg", "NoFailClosedRun"), ("SyncDir_vac2.cfg", "NoRemovalFailure")):
            v = tlc.run(ctx, "SyncDir", vcfg, workers=2, timeout=300, name="tlc_" + inv)
            if not (v.kind == "invariant" and v.name == inv):
                raise InfraError("vacuity guard: %s was expected to be violated (%s)" % (inv, v.summary()))

    if not violations and drift:
        raise InfraError("conformance drift: %d real outcome(s) satisfy the statement but are not admitted by "
                         "SyncDir.tla/SyncTree.tla (the spec no longer models the code; triage), e.g. %s" % (len(drift), drift[0]))
    if effective < 3 and not violations:
        raise InfraError("binding control: only %d effective corrupted observations" % effective)
    for need in ("ok", "err/writefail", "err"):
        if classes.get(need, 0) == 0 and not violations:
            raise InfraError("vacuity guard: no real outcome of class %r" % need)
    tree["coverage"].update({"tlc_config": tmc["cfg"], "tlc_states": tmc["mc"].distinct,
                             "tlc_transitions": tmc["mc"].generated, "tlc_wall_s": round(tmc["mc"].wall, 1)})

    return Result(
        level="model_checking",
        coverage={
            "states": mc.distinct, "transitions": mc.generated, "tlc_wall_s": round(mc.wall, 1),
            "tlc_config": cfg, "tlc_constants": S.cfg_constants(cfg),
            "action_coverage_small_config": tlc.coverage_summary(cov),
            "traces_validated_against_impl": len(cases) + tree["cases"] + be["cases"],
            "real_executions": execs + tree["execs"] + be["cases"],
            "cases_enumerated_exhaustively_1name": n_enum, "cases_sampled": nrand,
            "real_outcome_classes": classes,
            "distinct_real_outcomes": len(distinct_out),
            "cases_with_several_admissible_outcomes": multi_adm,
            "cases_where_several_outcomes_were_observed": multi_seen,
            "binding_negative_controls_rejected": effective,
            "tree": tree["coverage"],
            "security_backends_end_to_end": be["observations"],
            "samples": samples,
        },
        assumptions=[
            "faults are induced structurally (FileState whose State() fails / unsupported type, directory occupying "
            "a managed name); I/O errors of the kernel (ENOSPC, EIO) are not injected",
            "file ownership and xattrs are outside the statement (as in the code's doc comment)",
            "named deviation AliasedBy: a managed symlink resolving to an unmanaged regular file with exactly the "
            "desired content+perm is left in place and reported unchanged",
        ],
        violations=violations)
