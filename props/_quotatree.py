"""C36 -- QuotaTree.tla bound to the real snap/quota code (shared logic for props/c36.py).

design      : TLC checks, over all reachable forests within the bounds of spec/QuotaTree_mc_*.cfg, that the
              TRANSCRIBED incremental algorithm (guards) preserves the declarative statement `Fits`
              (InvMem/InvThr/InvSet unconditionally; the CPU clause except for steps in named deviation
              classes, InvFitsOrNamed).  For every named class TLC is asked for the shortest witness
              (QuotaTree_wit_*.cfg) which is then REPLAYED ON THE REAL CODE.
conformance : the overlay driver harness/overlay/quota/zz_verif_quota_test.go drives the real
              NewGroup/NewSubGroup/UpdateQuotaLimits (+ the servicestate "merged" update sequence) with random,
              enumerated and replayed (TLC -simulate behaviours, witnesses) requests; every event is validated
              against spec/TraceQuotaTree.tla (accept/refuse == guard, post-state == Apply / unchanged,
              real allocation == Alloc, real Fits evaluation == spec's) and the statement is evaluated on the
              real forest by the driver itself.
Violations are only reported for behaviour observed on the real code.
"""
import json
import os
import threading
from concurrent.futures import ThreadPoolExecutor

from lib import common, tlc, goharness
from lib.common import Result, Violation, InfraError

OVERLAY = os.path.join(common.HARNESS, "overlay", "quota", "zz_verif_quota_test.go")

CLASS_KEY = {
    "drift-self": "cpu-alloc-not-revalidated-on-own-cpuset-change",
    "drift-desc": "cpu-alloc-not-revalidated-on-ancestor-cpuset-change",
    "shadow": "cpuset-only-ancestor-hides-cpu-limit",
    "unclassified": "fits-broken-unclassified",
}
WITNESS = {"drift-self": "driftself", "drift-desc": "driftdesc", "shadow": "shadow"}


# ---------------------------------------------------------------------------------------------------------
def _locked_subdir(ctx):
    """ctx.subdir is not thread-safe (counter); TLC runs are started from a thread pool."""
    if getattr(ctx, "_c36_locked", False):
        return
    lock = threading.Lock()
    orig = ctx.subdir

    def subdir(name):
        with lock:
            return orig(name)
    ctx.subdir = subdir
    ctx._c36_locked = True


def fmt_req(q):
    parts = []
    if q["mem"] != -1:
        parts.append("mem=%d" % q["mem"])
    if q["thr"] != -1:
        parts.append("thr=%d" % q["thr"])
    if q["pct"] != -1:
        parts.append("cpu=%dx%d%%" % (q["cnt"], q["pct"]))
    if q["hasSet"]:
        parts.append("set={%s}" % ",".join(str(c) for c in sorted(q["cpus"])))
    if q.get("other"):
        parts.append("journal")
    return ",".join(parts)


def fmt_op(op):
    if op["op"] == "new":
        return ("NewGroup(%s)" % fmt_req(op["req"])) if op["g"] == 0 else \
               ("NewSubGroup(g%d;%s)" % (op["g"], fmt_req(op["req"])))
    return "Update[%s](g%d;%s)" % (op["path"], op["g"], fmt_req(op["req"]))


def fmt_ops(ops):
    return " ".join(fmt_op(o) for o in ops)


def _core(c):
    if isinstance(c, int):
        return c
    return int(str(c).lstrip("c"))


def ops_of_behaviour(states):
    """states: parsed TLC states (counterexample or -simulate file) -> list of ops from the history var `last`."""
    ops = []
    for st in states[1:]:
        la = st["vars"]["last"]
        if la["op"] == "init":
            continue
        q = dict(la["req"])
        q["cpus"] = sorted(_core(c) for c in q["cpus"])
        ops.append({"op": la["op"], "g": la["g"], "path": la["path"], "req": q})
    return ops


def fmt_tree(st):
    out = []
    for i, g in enumerate(st):
        lim = []
        if g["mem"]:
            lim.append("mem=%d" % g["mem"])
        if g["thr"]:
            lim.append("thr=%d" % g["thr"])
        if g["cnt"] or g["pct"]:
            lim.append("cpu=%dx%d%%->%d%%" % (g["cnt"], g["pct"], g["alloc"]))
        if g["cpus"]:
            lim.append("set={%s}" % ",".join(map(str, g["cpus"])))
        out.append("g%d(parent=%s;%s)" % (i + 1, ("g%d" % g["parent"]) if g["parent"] else "-", ",".join(lim)))
    return " ".join(out)


# ---------------------------------------------------------------------------------------------------------
def run_model_checks(ctx, cfgs):
    """cfgs: list of dict(cfg, workers, timeout, coverage, heap). Runs them concurrently.
    Returns list of (spec dict, TLCResult)."""
    _locked_subdir(ctx)

    def one(c):
        return c, tlc.run(ctx, "QuotaTree", c["cfg"], workers=c.get("workers", 2), coverage=c.get("coverage", False),
                          timeout=c.get("timeout", 600), heap=c.get("heap"), name="mc_" + c["cfg"][:-4])
    # at most 4 JVMs at a time (the machine is shared); the list is ordered biggest first
    with ThreadPoolExecutor(max_workers=min(4, len(cfgs))) as ex:
        futs = [ex.submit(one, c) for c in cfgs]
        return [f.result() for f in futs]          # InfraError propagates


def action_coverage(res, actions=("NewGroup", "NewSubGroup", "UpdateDirect", "UpdateMerged")):
    """-coverage 1 lines of actions that are operators with arguments carry a location suffix that lib/tlc.py's
    regexp does not accept (`<NewGroup line .. of module QuotaTree (349 38 349 49)>: 12:18`): parse them here.
    Vacuity guard: every action taken at least once."""
    import re
    cov = {}
    for m in re.finditer(r'^<(\w+) line \d+, col \d+ to line \d+, col \d+ of module \w+(?: \([\d ]+\))?>: (\d+):(\d+)',
                         res.out, re.M):
        d, t = cov.get(m.group(1), (0, 0))
        cov[m.group(1)] = (d + int(m.group(2)), t + int(m.group(3)))
    missing = [a for a in actions if cov.get(a, (0, 0))[1] == 0]
    if missing:
        raise InfraError("vacuity guard: action(s) never taken in %s: %s" % (res.dir, ", ".join(missing)))
    return {a: cov[a][1] for a in actions}


def run_witness_searches(ctx, classes_paths):
    """For each (class, path): ask TLC to refute No<Class>; returns {(cls, path): ops or None}."""
    _locked_subdir(ctx)

    def one(cp):
        cls, path = cp
        cfg = "QuotaTree_wit_%s_%s.cfg" % (WITNESS[cls], path)
        res = tlc.run(ctx, "QuotaTree", cfg, workers=1, timeout=1700, name="wit_%s_%s" % (WITNESS[cls], path))
        if res.ok:
            return cp, None, res                       # no step of this class under this path within the bounds
        if res.kind != "invariant" or not res.trace:
            raise InfraError("witness search %s ended unexpectedly: %s" % (cfg, res.summary()))
        return cp, ops_of_behaviour(res.trace), res
    with ThreadPoolExecutor(max_workers=3) as ex:
        return [f.result() for f in [ex.submit(one, cp) for cp in classes_paths]]


# ---------------------------------------------------------------------------------------------------------
def build_driver(ctx):
    return goharness.overlay_test_build(ctx, "snap/quota", [OVERLAY])


def run_driver(ctx, binary, mode, out, env=None, timeout=900):
    e = {"VERIF_OUT": out, "VERIF_MODE": mode}
    e.update(env or {})
    rc, o = goharness.run_test_bin(ctx, binary, "^TestVerifQuota$", env=e,
                                   cwd=os.path.join(common.REPO, "snap", "quota"), timeout=timeout)
    goharness.check_driver(rc, o, "quota driver (%s)" % mode)
    stats = {}
    for ln in o.splitlines():
        if ln.startswith("VERIF-QUOTA "):
            for kv in ln.split()[1:]:
                k, v = kv.split("=")
                stats[k] = int(v)
    if not stats:
        raise InfraError("quota driver (%s) printed no statistics:\n%s" % (mode, common.tail(o, 20)))
    return stats


def split_cases(rows):
    """rows of one driver output -> list of (case, [rows incl. the Reset])"""
    out = []
    for r in rows:
        if r["ev"] == "Reset":
            out.append((r["case"], [r]))
        else:
            out[-1][1].append(r)
    return out


def ops_until(case_rows, upto_i=None):
    """accepted ops (and the final one) of a case in replayable form; enumerated cases: base + the op."""
    ops = []
    base_len = None
    for r in case_rows:
        if r["ev"] == "Mark":
            base_len = len(ops)
        elif r["ev"] == "Restore":
            ops = ops[:base_len]
        elif r["ev"] == "Op":
            if upto_i is not None and r is upto_i:
                ops.append({"op": r["op"], "g": r["g"], "path": r["path"], "req": r["req"]})
                return ops
            if r["ok"]:
                ops.append({"op": r["op"], "g": r["g"], "path": r["path"], "req": r["req"]})
    return ops


def real_violations(rows):
    """Statement-level violations visible in the driver's own observations of the real code.
    -> list of dict(kind, cls, ops, row)"""
    out = []
    for case, crow in split_cases(rows):
        for r in crow:
            if r["ev"] != "Op":
                continue
            if r["ok"] and not r["fits"]:
                out.append({"kind": "accepted-breaks-fits", "cls": sorted(r["cls"]), "row": r,
                            "ops": ops_until(crow, r)})
            elif not r["ok"] and not r["unch"]:
                out.append({"kind": "refused-but-changed", "cls": [], "row": r, "ops": ops_until(crow, r)})
            elif not r["ok"] and not r["fits"]:
                out.append({"kind": "refused-but-broken", "cls": [], "row": r, "ops": ops_until(crow, r)})
    return out


def validate_files(ctx, files, timeout=1500, base=0):
    """Validate several NDJSON traces against TraceQuotaTree concurrently.
    -> list of dict(file, accepted, stuck_line, invariant)"""
    _locked_subdir(ctx)

    def one(i_f):
        i, f = i_f
        tv = tlc.validate_trace(ctx, "TraceQuotaTree", "TraceQuotaTree.cfg", f, timeout=timeout,
                                name="trace_%d" % (base + i))
        return {"file": f, "accepted": tv["accepted"], "stuck_line": tv["stuck_line"], "invariant": tv["invariant"],
                "states": tv["res"].distinct}
    with ThreadPoolExecutor(max_workers=min(8, max(1, len(files)))) as ex:
        return [f.result() for f in [ex.submit(one, x) for x in enumerate(files)]]


def explain(ctx, rows, line):
    """Ask TLC what the spec expected for the rejected line (1-based) of a trace."""
    if line < 2 or line > len(rows):
        return None
    first = dict(rows[line - 2])
    hdr = rows[0]
    for k in ("ncpu", "maxGroups", "maxDepth", "maxRoots"):
        first[k] = hdr[k]
    d = ctx.subdir("explain")
    p = os.path.join(d, "mini.ndjson")
    common.write_ndjson(p, [first, rows[line - 1]])
    try:
        res = tlc.run(ctx, "TraceQuotaTreeExplain", "TraceQuotaTree.cfg", workers=1, env={"VERIF_TRACE": p},
                      timeout=300, name="explain_tlc")
    except InfraError as e:
        return "explain failed: %s" % str(e)[:300]
    i = res.out.find('<< "EXPLAIN"')
    if i < 0:
        return None
    j = res.out.find(">>\n", i)
    return " ".join(res.out[i:j + 2].split())[:1500]


def chunk_rows(rows, n):
    """split rows into n files' worth at Reset boundaries (each chunk starts with a Reset)."""
    cases = split_cases(rows)
    if not cases:
        return []
    n = max(1, min(n, len(cases)))
    per = (len(cases) + n - 1) // n
    out = []
    for k in range(0, len(cases), per):
        rs = []
        for _, crow in cases[k:k + per]:
            rs.extend(crow)
        out.append(rs)
    return out


def tree_key(st):
    return json.dumps([[g[k] for k in ("parent", "mem", "thr", "cnt", "pct", "cpus", "other")] for g in st])


def has_unlimited_intermediate(st, field):
    """some group with a limit whose parent has none for `field` while a higher ancestor has one"""
    for g in st:
        if not g[field] or not g["parent"]:
            continue
        p = st[g["parent"] - 1]
        if p[field]:
            continue
        a = p["parent"]
        while a:
            if st[a - 1][field]:
                return True
            a = st[a - 1]["parent"]
    return False
