"""C06 - the state file on disk (and any file written through the atomic-write helper) is always a complete old
or new content whatever the crash point; temporary files never replace the target before their content is durable.

See props/_atomicfile.py for the pipeline, spec/AtomicFile.tla for the model, notes/C06.md for the reasoning."""
import collections
import os
import re

from lib import common, tlc
from lib.common import Result, Violation, InfraError
from props import _atomicfile as af

NEG_VARIANTS = ["nosync", "rename_first", "wrongfd", "inplace", "ignore_fsync_error"]   # the last one needs a fault


def _cfg_with(ctx, base, name, repl):
    """Derive a cfg from a committed one (bounds only) into scratch; -> path for extra_files."""
    with open(os.path.join(common.SPEC, base)) as f:
        s = f.read()
    for a, b in repl:
        if a not in s:
            raise InfraError("cfg %s lacks %r" % (base, a))
        s = s.replace(a, b)
    d = ctx.subdir("cfg")
    p = os.path.join(d, name)
    with open(p, "w") as f:
        f.write(s)
    return p


def design(ctx):
    """TLC on the spec. -> (coverage dict, total distinct, total generated)"""
    af.locked_subdir(ctx)
    w = ctx.pick(4, 8)
    any_steps = ctx.pick(8, 12)     # thorough K=12: 114 264 distinct / 1 066 732 generated
    any_cfg = _cfg_with(ctx, "AtomicFile_mc_any.cfg", "AtomicFile_mc_any_fit.cfg",
                        [("AnyMaxSteps = 8", "AnyMaxSteps = %d" % any_steps)])
    wr_chunks = ctx.pick(3, 5)
    wr_cfg = _cfg_with(ctx, "AtomicFile_mc.cfg", "AtomicFile_mc_fit.cfg", [("MaxChunks = 3", "MaxChunks = %d" % wr_chunks)])

    jobs = [
        ("writer", lambda: tlc.run(ctx, af.MODULE, "AtomicFile_mc_fit.cfg", workers=2, coverage=True, timeout=900,
                                   extra_files=[wr_cfg], name="mc_writer")),
        ("any", lambda: tlc.run(ctx, af.MODULE, "AtomicFile_mc_any_fit.cfg", workers=w, coverage=True,
                                timeout=ctx.pick(900, 3000), extra_files=[any_cfg], name="mc_any")),
        ("any_neg", lambda: tlc.run(ctx, af.MODULE, "AtomicFile_mc_any_neg.cfg", workers=1, timeout=600, name="mc_any_neg")),
        ("any_live", lambda: tlc.run(ctx, af.MODULE, "AtomicFile_mc_any_live.cfg", workers=1, timeout=600, name="mc_any_live")),
        ("matrix", lambda: tlc.run(ctx, af.MODULE, "AtomicFile_mc_matrix.cfg", workers=1, timeout=600, name="mc_matrix",
                                   extra_args=["-continue"])),
    ]
    if not ctx.quick:      # a third name (179 182 distinct / 1 852 510 generated when measured)
        jobs.append(("any3", lambda: tlc.run(ctx, af.MODULE, "AtomicFile_mc_any3.cfg", workers=w, timeout=3000,
                                             name="mc_any3")))
    r = af.run_parallel(jobs, 6)

    mc, anyr = r["writer"], r["any"]
    any3_states = any3_trans = 0
    if "any3" in r:
        if not r["any3"].ok:
            raise InfraError("spec-level counterexample in AnySpec with 3 names: %s" % r["any3"].summary())
        any3_states, any3_trans = r["any3"].distinct, r["any3"].generated
    if not mc.ok:
        raise InfraError("spec-level counterexample in WriterSpec: %s" % mc.summary())
    if not anyr.ok:
        raise InfraError("spec-level counterexample in AnySpec (lemma DisciplineSafe): %s" % anyr.summary())
    tlc.require_coverage(mc, ["WInit", "WStep", "WCrash"])
    tlc.require_coverage(anyr, ["AnyInit", "AnySys", "AnyCrash"])
    # the model must be able to say no (vacuity of the invariants / of the crash model)
    for k, inv in (("any_neg", "OldOrNew"), ("any_live", "NeverCompletes")):
        if r[k].kind != "invariant" or r[k].name != inv:
            raise InfraError("spec-level control %s: expected violation of %s, got %s" % (k, inv, r[k].summary()))
    # matrix: TLC -continue reports every violating state with its behaviour; collect (variant, invariant)
    got = {}
    for blk in r["matrix"].out.split("Error: Invariant ")[1:]:
        m1 = re.match(r"(\w+) is violated", blk)
        m2 = re.findall(r'pc = <<"(\w+)"', blk)
        if not m1 or not m2:
            raise InfraError("cannot parse the -continue output of the matrix run")
        got.setdefault(m2[-1], set()).add(m1.group(1))
    if "Model checking completed" not in r["matrix"].out and "states left on queue" not in r["matrix"].out:
        raise InfraError("matrix run did not finish: %s" % r["matrix"].summary())
    expect = {"good": set(), "nodirsync": {"DurableWhenDone"}}
    for v in NEG_VARIANTS:
        expect[v] = {"OldOrNew", "NoEarlyExposure"}
    for v, want in expect.items():
        have = got.get(v, set()) - ({"DurableWhenDone"} if v in NEG_VARIANTS else set())
        if have != want:
            raise InfraError("spec-level control: WriterSpec variant %s violates %s, expected %s" % (
                v, sorted(have), sorted(want)))
    expect_violation = {v: sorted(got.get(v, set())) for v in sorted(expect)}
    ctx.log("design: WriterSpec %d states (0..%d chunks), AnySpec %d distinct / %d generated (%d syscalls, %.0fs); "
            "%d negative controls behave" % (mc.distinct, wr_chunks, anyr.distinct, anyr.generated, any_steps, anyr.wall,
                                             len(expect_violation)))
    info = {
        "tlc_constants": {"WriterSpec": {"MaxChunks": wr_chunks, "HasOld": "both", "Variants": ["good"]},
                          "AnySpec": {"AnyNames": ["target", "tmp"], "AnyFileFds": [1], "AnyDirFds": [2], "AnyChunks": 2,
                                      "AnyMaxInodes": 3, "AnyMaxHist": 4, "AnyMaxLen": 2, "AnyMaxSteps": any_steps}},
        "writer_states": mc.distinct, "writer_transitions": mc.generated,
        "any_states": anyr.distinct, "any_transitions": anyr.generated, "any_wall_s": round(anyr.wall, 1),
        "any3_states": any3_states, "any3_transitions": any3_trans,
        "action_coverage": {"WriterSpec": tlc.coverage_summary(mc), "AnySpec": tlc.coverage_summary(anyr)},
        "spec_negative_controls": {
            "writer_variant_violates": expect_violation,
            "any_without_discipline": "%s violated after %d states" % (r["any_neg"].name, r["any_neg"].generated),
            "any_disciplined_write_completes": "witness found after %d states" % r["any_live"].generated},
        "spec_informational": "the nodirsync variant satisfies OldOrNew/NoEarlyExposure (C06) and violates only the "
                              "stronger DurableWhenDone; the good variant satisfies all three",
    }
    if any3_states:
        info["tlc_constants"]["AnySpec_3names"] = {"AnyNames": ["target", "tmp", "x"], "AnyMaxSteps": 9,
                                                   "other": "as AnySpec"}
    return info, mc.distinct + anyr.distinct + any3_states, mc.generated + anyr.generated + any3_trans


FAULTS_QUICK = [("awf-small", True, "fsync-file"), ("aw-stream", False, "fsync-file"),
                ("overlord-ckpt", True, "fsync-file"), ("awf-small", True, "fsync-dir"),
                ("aw-stream", True, "write"), ("awf-large", True, "rename")]
FAULT_VARIANTS = ["awf-small", "awf-large", "awf-empty", "aw-stream", "aw-fromfile", "awf-chown", "af-mtime",
                  "af-commitas", "awf-follow", "rename", "symlink", "state-ckpt", "overlord-ckpt"]


def fault_runs(ctx, binp, recs, st, cts, reps, nck, add):
    """-> list of CaseTrace (one per fault run, the case that received the fault)"""
    if ctx.quick:
        want = FAULTS_QUICK
        base_cts, base_st = cts, st
        freps, fnck = reps, nck
    else:
        # plan on a small fault-free run of its own (the thorough main run is 12 repetitions long)
        freps, fnck = 1, 3
        brecs, base_st = af.run_driver(ctx, binp, freps, fnck, tag="faultbase")
        base_cts, _ = af.load_traces(brecs, base_st)
        want = [(v, True, k) for v in FAULT_VARIANTS for k in ("fsync-file", "fsync-dir", "write", "rename")]
        want += [(v, False, k) for v in ("awf-small", "aw-stream", "af-mtime", "symlink", "rename")
                 for k in ("fsync-file", "fsync-dir", "rename")]
    plans = af.plan_faults(base_cts, af.parse_strace(base_st), want)
    if len(plans) < len(FAULTS_QUICK):
        raise InfraError("fault plan too small: %s" % plans)
    jobs = [(i, (lambda pl=pl, i=i: af.run_fault(ctx, binp, freps, fnck, pl, i))) for i, pl in enumerate(plans)]
    res = af.run_parallel(jobs, ctx.pick(3, 6))
    out = [res[i] for i in sorted(res)]
    for ct in out:
        rec = ct.rec
        rb = rec["readback"]
        if rb.startswith("other") or (rb == "absent" and rec["old"]):
            add("%s:%s:fault=%s:readback-not-old-or-new" % (rec["variant"], "old" if rec["old"] else "noold", rec["fault"]),
                "%s: with inject=%s the call returned err=%r and the target is neither Old nor New: %s" % (
                    rec["case"], rec["inject"], rec["api_err"], rb), {"case": rec, "events": ct.events})
    ctx.log("fault runs: %d (%s)" % (len(out), ", ".join(sorted({c.rec["fault"] for c in out}))))
    return out, None


def run(ctx):
    af.locked_subdir(ctx)
    info, states, transitions = design(ctx)

    # ---- conformance: the real code under strace
    reps = ctx.pick(1, 12)
    nck = ctx.pick(3, 12)
    binp = af.build_driver(ctx)
    recs, st = af.run_driver(ctx, binp, reps, nck)
    cts, ncalls = af.load_traces(recs, st)
    ctx.log("driver: %d cases, %d traced system calls" % (len(cts), ncalls))

    violations = []
    seen = set()

    def add(key, desc, replay):
        if key in seen:
            return
        seen.add(key)
        violations.append(Violation(key=key, desc=desc, replay=replay))

    # functional read-back (no crash at all): the file must be Old or New, and New when the call said so
    not_done = []
    extra_notes = []
    for ct in cts:
        rec = ct.rec
        tag = "%s:%s" % (rec["variant"], "old" if rec["old"] else "noold")
        rb = rec["readback"]
        if rb.startswith("other") or (rb == "absent" and rec["old"]):
            add("%s:readback-not-old-or-new" % tag,
                "%s: after the call returned (err=%r) the target is neither Old nor New: %s [%s]" % (
                    rec["case"], rec["api_err"], rb, rec["detail"]), {"case": rec})
        elif rec["expect"] == "new" and rb != "new":
            not_done.append("%s: api_err=%r readback=%s" % (rec["case"], rec["api_err"], rb))
        if rec.get("extra"):       # not part of the statement (e.g. file mode): reported, never a violation
            extra_notes.append("%s: %s" % (rec["case"], rec["extra"]))

    def report(findings):
        for f in findings:
            ct, e = f["ct"], f["event"]
            rec = ct.rec
            tag = "%s:%s" % (rec["variant"], "old" if rec["old"] else "noold")
            if rec.get("fault"):
                tag += ":fault=%s" % rec["fault"]
            what = af.describe_event(rec, e)
            key = "%s:%s@%s" % (tag, f["invariant"], what)
            last = f["last"] or {}
            if f["invariant"] == "OldOrNew":
                why = ("a crash right after strace line %s (%s) can leave the target as dir=%s inodes=%s, which is neither "
                       "Old <<0>> nor New %s" % (e.get("src"), what, last.get("dhist"), last.get("inodes"), ct.newc))
            elif f["invariant"] == "NoEarlyExposure":
                why = ("at strace line %s (%s) the target name points to an inode whose content is not durably New: "
                       "dir=%s inodes=%s New=%s" % (e.get("src"), what, last.get("dhist"), last.get("inodes"), ct.newc))
            else:
                why = "event %r is not possible in the file-system model at this point" % (e,)
            if rec.get("fault"):
                why = "with strace -e inject=%s (the call returns an error): %s" % (rec["inject"], why)
            add(key, "%s [%s]: %s; observed order: %s (%d case(s) of this variant)" % (
                rec["case"], rec["detail"], why, " ".join(ct.sig), f["group"]),
                {"case": rec, "events": ct.events, "invariant": f["invariant"], "culprit": e, "post_state": last,
                 "tlc_tail": f["tlc"]})

    findings, vstats = af.validate_cases(ctx, cts)
    report(findings)
    if not violations and not_done:
        raise InfraError("the API did not perform the write although nothing is wrong with the trace: %s" % not_done[:3])

    # ---- fault runs: the same driver run with ONE system call of one case failed by strace (EIO/ENOSPC)
    fault_cts, fstats = [], {"tlc_runs": 0, "generated": 0, "distinct": 0, "unexamined_cases": 0}
    if not violations:
        fault_cts, _ = fault_runs(ctx, binp, recs, st, cts, reps, nck, add)
        ffind, fstats = af.validate_cases(ctx, fault_cts)
        report(ffind)

    # ---- vacuity / observations on the real traces
    hist = collections.Counter()
    fsync_file = fsync_dir = 0
    sigs = collections.OrderedDict()
    for ct in cts:
        for e in ct.events:
            hist[e["ev"]] += 1
            if e["ev"] == "Fsync":
                if e.get("what") == "dir":
                    fsync_dir += 1
                else:
                    fsync_file += 1
        sigs.setdefault(ct.rec["variant"] + (":old" if ct.rec["old"] else ":noold"), " ".join(ct.sig))
    # durability once the call has returned (NOT part of the statement): is the replacing rename followed by an
    # fsync of the directory?
    renaming = synced = 0
    for ct in cts:
        last_ren = max([i for i, e in enumerate(ct.events)
                        if e["ev"] == "Rename" and e["to"] == ct.rec["target"]] or [-1])
        if last_ren < 0:
            continue
        renaming += 1
        if any(e["ev"] == "Fsync" and e.get("what") == "dir" for e in ct.events[last_ren + 1:]):
            synced += 1
    if synced < renaming:
        extra_notes.append("%d of %d replacing renames are not followed by an fsync of the directory: New may be lost "
                           "after the call returned (Old survives). Allowed by the C06 statement, reported for "
                           "information" % (renaming - synced, renaming))
    if not violations:
        for k in ("Open", "Write", "Fsync", "Rename", "OpenDir", "Close", "Symlink", "Meta", "Unlink"):
            if hist[k] == 0:
                raise InfraError("vacuity guard: no %s event in any real trace" % k)
        if fsync_file == 0:
            raise InfraError("vacuity guard: no fsync of a file in the real traces")
    variants = sorted({ct.rec["variant"] for ct in cts})
    need = {"awf-small", "awf-large", "awf-empty", "aw-stream", "aw-fromfile", "awf-chown", "af-mtime", "af-commitas",
            "af-cancel", "awf-follow", "rename", "symlink", "state-ckpt", "overlord-ckpt"}
    if need - set(variants):
        raise InfraError("driver did not run variants %s" % sorted(need - set(variants)))

    # ---- binding controls on a real recorded case
    controls = {}
    base = [ct for ct in cts if ct.rec["variant"] == "overlord-ckpt" and ct.rec["old"]]
    if not violations:
        if not base:
            raise InfraError("no overlord-ckpt case with an old file for the binding controls")
        jobs = []
        for name, expect_accept, rows in af.trace_controls(ctx, base[0]):
            jobs.append(((name, expect_accept), (lambda rows=rows, name=name: af.validate_rows(ctx, rows, "ctl_" + name))))
        if ctx.quick:
            jobs = [j for j in jobs if j[0][0] in ("drop-file-fsync", "rename-before-fsync", "fsync-wrong-fd",
                                                   "harmless-chown-anywhere", "no-dir-fsync-still-old-or-new")]
        res = af.run_parallel(jobs, 5)
        for (name, expect_accept), v in sorted(res.items()):
            controls[name] = ("accepted" if v["accepted"] else "rejected: %s" % v["invariant"])
            if v["accepted"] != expect_accept:
                raise InfraError("binding control %s on real case %s: expected %s, got %s" % (
                    name, base[0].rec["case"], "accept" if expect_accept else "reject", controls[name]))
        ctx.log("binding controls on %s: %s" % (base[0].rec["case"], controls))

    samples = []
    for want in ("overlord-ckpt", "state-ckpt", "aw-stream", "rename", "symlink"):
        for ct in cts:
            if ct.rec["variant"] == want and ct.rec["old"]:
                samples.append({"case": ct.rec["case"], "detail": ct.rec["detail"], "new_chunks": len(ct.newc),
                                "order": " ".join(ct.sig), "readback": ct.rec["readback"]})
                break

    cov = dict(info)
    cov.update({
        "states": states + vstats["distinct"] + fstats["distinct"],
        "transitions": transitions + vstats["generated"] + fstats["generated"],
        "traces_validated_against_impl": len(cts) + len(fault_cts),
        "fault_runs": len(fault_cts),
        "fault_kinds": dict(collections.Counter(c.rec["fault"] for c in fault_cts)),
        "fault_samples": [{"case": c.rec["case"], "inject": c.rec["inject"], "api_err": c.rec["api_err"][:80],
                           "readback": c.rec["readback"], "order": " ".join(c.sig)} for c in fault_cts[:6]],
        "fault_trace_states_distinct": fstats["distinct"],
        "api_variants": variants,
        "cases_with_old": sum(1 for ct in cts if ct.rec["old"]),
        "cases_without_old": sum(1 for ct in cts if not ct.rec["old"]),
        "real_syscalls_traced": ncalls,
        "real_events_validated": sum(len(ct.events) for ct in cts),
        "real_syscalls_ignored_in_case_windows": sum(ct.dropped for ct in cts),   # fcntl, failed calls, other directories
        "real_event_histogram": dict(sorted(hist.items())),
        "real_fsync_file": fsync_file, "real_fsync_dir": fsync_dir,
        "replacing_renames": renaming, "replacing_renames_followed_by_dir_fsync": synced,
        "trace_states_distinct": vstats["distinct"], "trace_states_generated_incl_crash_successors": vstats["generated"],
        "trace_tlc_runs": vstats["tlc_runs"], "unexamined_cases": vstats["unexamined_cases"],
        "observed_order_per_variant": sigs,
        "binding_controls_on_real_trace": controls,
        "samples": samples,
    })
    return Result(level="model_checking", coverage=cov, assumptions=af.ASSUMPTIONS, violations=violations,
                  notes=extra_notes[:5])
