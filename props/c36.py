"""C36: after any sequence of accepted quota group creations and limit changes every limited group's children fit
(effective reservations <= limit; cpu-sets within the parent's); refused requests leave the groups unchanged.
See props/_quotatree.py, spec/QuotaTree.tla, spec/TraceQuotaTree.tla, notes/C36.md."""
import json
import os
import random

from lib import common, tlc
from lib.common import Result, Violation, InfraError

from . import _quotatree as Q


def _mc_configs(ctx):
    if ctx.quick:
        return [
            {"cfg": "QuotaTree_mc_mem.cfg", "workers": 2, "timeout": 1200},
            {"cfg": "QuotaTree_mc_cpu2q.cfg", "workers": 2, "timeout": 1200},
        ]
    return [                                      # biggest first; at most 4 run concurrently
        {"cfg": "QuotaTree_mc_cpu3.cfg", "workers": 8, "timeout": 1700, "heap": "8g"},
        {"cfg": "QuotaTree_mc_joint3.cfg", "workers": 3, "timeout": 1700},
        {"cfg": "QuotaTree_mc_memthr4.cfg", "workers": 2, "timeout": 1700},
        {"cfg": "QuotaTree_mc_mem5.cfg", "workers": 2, "timeout": 1700},
        {"cfg": "QuotaTree_mc_cpu2.cfg", "workers": 2, "timeout": 1700},
        {"cfg": "QuotaTree_mc_cpu2_n2.cfg", "workers": 2, "timeout": 1700},
        {"cfg": "QuotaTree_mc_mem.cfg", "workers": 2, "timeout": 1700},
        {"cfg": "QuotaTree_mc_thr.cfg", "workers": 2, "timeout": 1700},
        {"cfg": "QuotaTree_mc_cov.cfg", "workers": 1, "coverage": True, "timeout": 1700},   # tiny, -coverage 1
    ]


def _simulate(ctx):
    sim = tlc.run(ctx, "QuotaTree", "QuotaTree_sim.cfg", simulate={"num": ctx.pick(12, 150), "file": True},
                  depth=ctx.pick(7, 10), seed=ctx.seed, workers=1, timeout=ctx.pick(1200, 3000), name="sim")
    if sim.kind is not None and sim.kind != "invariant":
        raise InfraError("TLC simulation ended unexpectedly: %s" % sim.summary())
    return tlc.sim_behaviours(sim)


def run(ctx):
    violations = []
    notes = []

    # ---------------- 0. build the real-code driver first (a build failure is exit 2 before any TLC time)
    binary = Q.build_driver(ctx)
    ctx.log("driver built")

    # ---------------- 1. design: TLC on the spec + witness searches for the named deviation classes
    wit_paths = ["merged"] if ctx.quick else ["merged", "direct"]
    wit_jobs = [(c, p) for c in ("drift-self", "drift-desc", "shadow") for p in wit_paths]
    from concurrent.futures import ThreadPoolExecutor
    Q._locked_subdir(ctx)
    # VERIF_C36_ONLY=conformance: accelerator for negative controls (selftest mutations) on a busy machine: the
    # design part (which does not depend on /repo) is skipped.  Such a run can only END IN A VIOLATION (exit 1) or in
    # an infrastructure error (exit 2) -- it never yields a verdict of "held" (see the end of run()).
    conformance_only = os.environ.get("VERIF_C36_ONLY") == "conformance"
    pool = ThreadPoolExecutor(max_workers=3)
    if conformance_only:
        f_mc = pool.submit(lambda: [])
        f_wit = pool.submit(lambda: [])
        f_sim = pool.submit(lambda: [])
    else:
        f_mc = pool.submit(Q.run_model_checks, ctx, _mc_configs(ctx))
        f_wit = pool.submit(Q.run_witness_searches, ctx, wit_jobs)
        f_sim = pool.submit(_simulate, ctx)

    # ---------------- 2. conformance: drive the real code (while TLC works on the design part)
    tdir = ctx.subdir("traces")
    files = {}
    stats = {}
    # 2a random traces inside the exhaustive bounds and beyond them
    n_rand = ctx.pick(200, 2500)
    common_env = {"VERIF_NCPU": 3}
    files["random"] = os.path.join(tdir, "random.ndjson")
    stats["random"] = Q.run_driver(ctx, binary, "random", files["random"], dict(common_env, VERIF_N=n_rand, VERIF_LEN=14,
                                   VERIF_MAXGROUPS=4, VERIF_MAXDEPTH=3, VERIF_MAXROOTS=2,
                                   VERIF_MEMVALS="[0,1,1,2,2,3,3,4,4]", VERIF_THRVALS="[0,1,1,2,2,3,3,4,4]",
                                   VERIF_CNTVALS="[0,0,1,2]", VERIF_PCTVALS="[0,50,50,100,100]"))
    files["wide"] = os.path.join(tdir, "wide.ndjson")
    stats["wide"] = Q.run_driver(ctx, binary, "random", files["wide"], dict(VERIF_NCPU=4, VERIF_N=ctx.pick(60, 800),
                                 VERIF_LEN=24, VERIF_MAXGROUPS=7, VERIF_MAXDEPTH=5, VERIF_MAXROOTS=2, VERIF_CORES=4,
                                 VERIF_MEMVALS="[1,2,3,5,8,13,21]", VERIF_THRVALS="[1,2,3,5,8,13]",
                                 VERIF_CNTVALS="[0,0,1,2,3,4]", VERIF_PCTVALS="[10,25,50,75,100]",
                                 VERIF_SEED=ctx.seed + 1000))
    # 2b enumerated: the complete one-step request domain from random reachable base forests
    files["enum"] = os.path.join(tdir, "enum.ndjson")
    stats["enum"] = Q.run_driver(ctx, binary, "enum", files["enum"], dict(common_env, VERIF_N=ctx.pick(3, 12),
                                 VERIF_LEN=8, VERIF_ENUM_BUDGET=ctx.pick(1500, 15000), VERIF_MAXGROUPS=4,
                                 VERIF_MAXDEPTH=3, VERIF_MAXROOTS=1, VERIF_MEMVALS="[0,2]", VERIF_THRVALS="[2]",
                                 VERIF_CNTVALS="[0,1,2]", VERIF_PCTVALS="[0,50,100]", VERIF_CORES=2))
    # 2b' directed family: all depth-3 shapes P > [unlimited] > G > [unlimited] > leaf (+ sibling that leaves P nearly
    # full) x every limit raise of the mid-level group G across the boundaries of P's remaining room, for memory,
    # threads and CPU (quick: P=5, sibling in {full-1, full}; thorough: P in 4..6, every sibling size)
    files["directed"] = os.path.join(tdir, "directed.ndjson")
    stats["directed"] = Q.run_driver(ctx, binary, "directed", files["directed"],
                                     dict(common_env, VERIF_MAXGROUPS=6, VERIF_MAXDEPTH=5, VERIF_MAXROOTS=1,
                                          VERIF_DIR_LPS=ctx.pick("[5]", "[4,5,6]"), VERIF_DIR_ALLS=ctx.pick(0, 1)))
    # the statement violations and refused-but-changed observations of these runs do not need TLC at all
    early = {k: common.read_ndjson(p) for k, p in files.items()}
    ctx.log("driver stats so far: %s; real statement violations so far: %d"
            % (stats, sum(len(Q.real_violations(r)) for r in early.values())))
    # validation of these traces does not depend on the design part either: start it now (own JVMs)
    chunks = []
    for k in ("directed", "random", "wide", "enum"):
        for j, rs in enumerate(Q.chunk_rows(early[k], ctx.pick(1, 4))):
            p = os.path.join(tdir, "chunk_%s_%d.ndjson" % (k, j))
            common.write_ndjson(p, rs)
            chunks.append((k, p, rs))
    vpool = ThreadPoolExecutor(max_workers=2)
    f_neg = vpool.submit(_negative_binding_control, ctx, early["random"], tdir)
    f_tvs = vpool.submit(Q.validate_files, ctx, [p for _, p, _ in chunks], ctx.pick(1200, 1700))

    mcs = f_mc.result()
    wits = f_wit.result()
    beh = f_sim.result()
    pool.shutdown()
    states = transitions = 0
    cov = {}
    mc_summary = {}
    cex = []                                     # spec-level counterexamples of the checked invariants
    for c, res in mcs:
        states += res.distinct
        transitions += res.generated
        mc_summary[c["cfg"]] = {"distinct": res.distinct, "generated": res.generated, "depth": res.depth,
                                "wall_s": round(res.wall, 1), "ok": res.ok}
        ctx.log("TLC %s: %s wall=%.0fs" % (c["cfg"], res.summary(), res.wall))
        if not res.ok:
            if res.kind == "invariant" and res.trace:
                cex.append((c["cfg"], res.name, Q.ops_of_behaviour(res.trace)))
            else:
                raise InfraError("TLC run %s ended unexpectedly: %s" % (c["cfg"], res.summary()))
    for c, res in mcs:
        if c.get("coverage"):
            cov[c["cfg"]] = Q.action_coverage(res)     # vacuity guard (raises InfraError)

    # ---------------- 2c. T->I: TLC -simulate behaviours, the witnesses of the deviation classes, spec counterexamples
    sim_actions = {}
    for bh in beh:
        for st in bh[1:]:
            la = st["vars"]["last"]
            k = ("NewGroup" if la["g"] == 0 else "NewSubGroup") if la["op"] == "new" else \
                ("UpdateDirect" if la["path"] == "direct" else "UpdateMerged")
            sim_actions[k] = sim_actions.get(k, 0) + 1
    missing = [a for a in ("NewGroup", "NewSubGroup", "UpdateDirect", "UpdateMerged") if not sim_actions.get(a)]
    if missing and not conformance_only:
        raise InfraError("vacuity guard: spec action(s) never taken in the TLC simulation: %s" % missing)
    cov["simulation(QuotaTree_sim.cfg)"] = sim_actions
    replay_cases = []
    for i, b in enumerate(beh):
        ops = Q.ops_of_behaviour(b)
        if ops:
            replay_cases.append({"case": "sim%d.%d" % (ctx.seed, i), "ops": ops})
    for (cls, path), ops, _res in wits:
        if ops:
            replay_cases.append({"case": "wit:%s:%s" % (cls, path), "ops": ops})
    for i, (cfg, inv, ops) in enumerate(cex):
        replay_cases.append({"case": "cex:%s:%s:%d" % (cfg, inv, i), "ops": ops})
    opsfile = os.path.join(tdir, "replay_ops.ndjson")
    common.write_ndjson(opsfile, replay_cases)
    files["replay"] = os.path.join(tdir, "replay.ndjson")
    stats["replay"] = Q.run_driver(ctx, binary, "replay", files["replay"],
                                   dict(common_env, VERIF_OPS=opsfile, VERIF_MAXGROUPS=4, VERIF_MAXDEPTH=3,
                                        VERIF_MAXROOTS=2))
    ctx.log("driver stats: %s" % stats)

    rows = {k: common.read_ndjson(p) for k, p in files.items()}

    # ---------------- 3. validate every recorded event against the trace spec (chunks in parallel JVMs; the chunks
    # that do not depend on TLC's behaviours were started in step 2)
    rchunks = []
    for j, rs in enumerate(Q.chunk_rows(rows["replay"], ctx.pick(1, 4))):
        p = os.path.join(tdir, "chunk_replay_%d.ndjson" % j)
        common.write_ndjson(p, rs)
        rchunks.append(("replay", p, rs))
    rtvs = Q.validate_files(ctx, [p for _, p, _ in rchunks], timeout=ctx.pick(1200, 1700), base=100) if rchunks else []
    tvs = f_tvs.result() + rtvs
    chunks = chunks + rchunks
    neg = f_neg.result()
    vpool.shutdown()
    n_traces = 0
    n_lines = 0
    rejected_cases = set()
    for (k, p, rs), tv in zip(chunks, tvs):
        n_lines += len(rs)
        if tv["accepted"]:
            n_traces += sum(1 for r in rs if r["ev"] == "Reset")
            continue
        line = tv["stuck_line"] or 1
        ev = rs[min(line, len(rs)) - 1]
        n_traces += sum(1 for r in rs[:line - 1] if r["ev"] == "Reset")
        crow = [c for c in Q.split_cases(rs) if c[0] == ev.get("case")]
        ops = Q.ops_until(crow[0][1], ev) if crow and ev["ev"] == "Op" else []
        why = Q.explain(ctx, rs, line)
        rejected_cases.add(ev.get("case"))
        what = "invariant %s" % tv["invariant"] if tv["invariant"] else "guard/post-state"
        violations.append(Violation(
            key="conformance(%s): %s" % (what, Q.fmt_ops(ops) or ev.get("case")),
            desc="real quota code deviates from QuotaTree.tla at %s line %d (case %s): request %s real ok=%s err=%r; %s"
                 % (os.path.basename(p), line, ev.get("case"), Q.fmt_op(ev) if ev["ev"] == "Op" else ev["ev"],
                    ev.get("ok"), ev.get("err"), why or ""),
            replay={"ops": ops, "event": ev, "explain": why, "trace_file_kind": k}))

    # ---------------- 4. the statement on the real forests (driver's own evaluation)
    found = {}
    n_real_viol = 0
    for k in ("replay", "directed", "random", "enum", "wide"):
        for v in Q.real_violations(rows[k]):
            n_real_viol += 1
            if v["kind"] == "accepted-breaks-fits":
                # a step may belong to several mechanism classes: it is an example for each of them (keeps the set
                # of reported keys independent of the seed: one per class, the TLC witness first)
                cls = [Q.CLASS_KEY.get(c, c) for c in v["cls"]] or ["fits-broken"]
            else:
                cls = [v["kind"]]
            is_wit = v["row"]["case"].startswith("wit:")
            for cl in cls:
                if is_wit and Q.CLASS_KEY.get(v["row"]["case"].split(":")[1]) != cl:
                    continue                      # a witness is the canonical example of its own class only
                cur = found.get(cl)
                # the witness over the production ("merged") path first: same key in both tiers
                pri = 2 if not is_wit else (0 if v["row"]["case"].endswith(":merged") else 1)
                rank = (pri, len(v["ops"]), Q.fmt_ops(v["ops"]))
                if cur is None or rank < cur[0]:
                    found[cl] = (rank, v)
    class_counts = {}
    for k in ("replay", "directed", "random", "enum", "wide"):
        for v in Q.real_violations(rows[k]):
            cl = "+".join(v["cls"]) if v["kind"] == "accepted-breaks-fits" else v["kind"]
            class_counts[cl] = class_counts.get(cl, 0) + 1
    for cl, (_rank, v) in sorted(found.items()):
        r = v["row"]
        violations.append(Violation(
            key="%s: %s" % (cl, Q.fmt_ops(v["ops"])),
            desc="%s on the real snap/quota code: after %s (real ok=%s err=%r) the real forest is [%s]; violated clauses %s"
                 % (v["kind"], Q.fmt_ops(v["ops"]), r["ok"], r["err"], Q.fmt_tree(r["st"]), r["broken"]),
            replay={"ops": v["ops"], "event": r, "how": "VERIF_MODE=replay VERIF_OPS=<file with {case,ops}> "
                    "go test -overlay ... -run TestVerifQuota ./snap/quota"}))

    # witnesses: did the real code reproduce the spec-level witness?
    wit_report = {}
    replay_cases_by = dict(Q.split_cases(rows["replay"]))
    for (cls, path), ops, _res in wits:
        name = "%s[%s]" % (cls, path)
        if not ops:
            wit_report[name] = "no step of this class within the witness bounds"
            continue
        crow = replay_cases_by.get("wit:%s:%s" % (cls, path), [])
        last = [r for r in crow if r["ev"] == "Op"][-1:] or [None]
        if last[0] is not None and last[0]["ok"] and not last[0]["fits"] and cls in last[0]["cls"]:
            wit_report[name] = "REPRODUCED on real code: %s -> %s" % (Q.fmt_ops(ops), Q.fmt_tree(last[0]["st"]))
        else:
            wit_report[name] = "NOT reproduced on real code: %s" % Q.fmt_ops(ops)
    # spec counterexamples of the checked invariants that the real code does not reproduce are spec problems
    for i, (cfg, inv, ops) in enumerate(cex):
        crow = replay_cases_by.get("cex:%s:%s:%d" % (cfg, inv, i), [])
        last = [r for r in crow if r["ev"] == "Op"][-1:]
        if not (last and last[0]["ok"] and not last[0]["fits"]) and ("cex:%s:%s:%d" % (cfg, inv, i)) not in rejected_cases:
            raise InfraError("spec-level counterexample of %s in %s is not reproduced by the real code: %s"
                             % (inv, cfg, Q.fmt_ops(ops)))

    # ---------------- 5. binding self-test: a corrupted recorded field must be rejected at that line
    # (done concurrently with step 3: `neg`)

    # ---------------- 6. vacuity / coverage measured on the real executions
    all_ops = [r for k in rows for r in rows[k] if r["ev"] == "Op"]
    acc = [r for r in all_ops if r["ok"]]
    ref = [r for r in all_ops if not r["ok"]]
    distinct_trees = len({Q.tree_key(r["st"]) for r in all_ops})
    fit_refusals = sum(1 for r in ref if "too large to fit" in r["err"] or "too small to fit" in r["err"]
                       or "less than current subgroup" in r["err"] or "not a subset" in r["err"]
                       or "not a superset" in r["err"])
    unl = {f: sum(1 for r in acc if Q.has_unlimited_intermediate(r["st"], f)) for f in ("mem", "thr", "pct")}
    depth3 = sum(1 for r in acc if any(g["parent"] and r["st"][g["parent"] - 1]["parent"] for g in r["st"]))
    if len(acc) < 100 or fit_refusals < 20 or depth3 < 10 or min(unl.values()) < 1:
        raise InfraError("vacuity guard: real executions too thin: accepted=%d fit_refusals=%d depth3=%d unlimited-intermediate=%s"
                         % (len(acc), fit_refusals, depth3, unl))
    err_classes = {}
    for r in ref:
        k = r["err"].split(" of ")[0].split(" [")[0][:48]
        err_classes[k] = err_classes.get(k, 0) + 1

    samples = []
    for r in acc:
        if Q.has_unlimited_intermediate(r["st"], "mem") and len(samples) < 1:
            samples.append({"case": r["case"], "request": Q.fmt_op(r), "accepted": True, "real_forest": Q.fmt_tree(r["st"])})
    for r in ref:
        if "too large to fit" in r["err"] and len(samples) < 3:
            samples.append({"case": r["case"], "request": Q.fmt_op(r), "accepted": False, "real_error": r["err"],
                            "real_forest_unchanged": Q.fmt_tree(r["st"])})
    for cl, (_rank, v) in sorted(found.items()):
        samples.append({"case": v["row"]["case"], "class": cl, "ops": Q.fmt_ops(v["ops"]),
                        "real_forest": Q.fmt_tree(v["row"]["st"]), "violated": v["row"]["broken"]})

    coverage = {
        "states": states, "transitions": transitions,
        "traces_validated_against_impl": n_traces,
        "trace_lines_validated": n_lines,
        "real_requests": len(all_ops), "real_accepted": len(acc), "real_refused": len(ref),
        "real_refused_by_fit_checks": fit_refusals,
        "real_distinct_projected_forests": distinct_trees,
        "real_accepted_with_depth3": depth3,
        "real_accepted_with_unlimited_intermediate": unl,
        "real_refusal_reasons": dict(sorted(err_classes.items(), key=lambda kv: -kv[1])[:25]),
        "real_statement_violations_observed": n_real_viol,
        "real_statement_violations_by_class": class_counts,
        "tlc_runs": mc_summary,
        "tlc_simulated_behaviours_replayed": len(beh),
        "witness_searches": wit_report,
        "action_coverage": cov,
        "driver_stats": stats,
        "binding_negative_control": neg,
        "samples": samples[:6],
        "tlc_constants": "see spec/QuotaTree_mc_*.cfg named in tlc_runs; trace bounds are carried by the Reset events",
    }
    assumptions = [
        "group names are fresh and valid (uniqueness across the tree is enforced by overlord/servicestate, not by snap/quota)",
        "no group removal, no journal-size/rate limits (a namespace-only journal quota stands for 'some other limit')",
        "memory in whole MiB (> the 640KiB minimum), runtime.NumCPU mocked (3 resp. 4), cpu-set sizes never exceed NumCPU",
        "behaviours are followed up to the first forest violating the statement (the algorithm's shortcuts presuppose it)",
        "exhaustive only within the bounds of the cfgs; beyond them random sampling (wide: 7 groups, depth 5)",
    ]
    if conformance_only:
        if not violations:
            raise InfraError("VERIF_C36_ONLY=conformance: no violation found, and this mode cannot give a verdict")
        coverage["states"] = coverage["transitions"] = 1      # design part skipped (selftest accelerator)
        notes.append("VERIF_C36_ONLY=conformance: design part skipped; only usable as a negative control")
    return Result(level="model_checking", coverage=coverage, assumptions=assumptions, violations=violations, notes=notes)


def _negative_binding_control(ctx, rows, tdir):
    """Corrupt one recorded field of a real trace: TLC must reject exactly that line."""
    rnd = random.Random(ctx.seed)
    prefix = rows[:400]
    cand = [i for i, r in enumerate(prefix) if r["ev"] == "Op" and r["ok"] and r["st"]]
    if not cand:
        raise InfraError("binding self-test: no accepted op in the first trace lines")
    out = {}
    for what in ("ok", "st"):
        i = rnd.choice(cand)
        bad = json.loads(json.dumps(prefix[:i + 1]))
        if what == "ok":
            bad[i]["ok"] = not bad[i]["ok"]
        else:
            g = bad[i]["st"][-1]
            g["mem"] = g["mem"] + 1
        p = os.path.join(tdir, "neg_%s.ndjson" % what)
        common.write_ndjson(p, bad)
        tv = tlc.validate_trace(ctx, "TraceQuotaTree", "TraceQuotaTree.cfg", p, timeout=600, name="neg_" + what)
        if not tv["accepted"] and tv["stuck_line"] is not None and tv["stuck_line"] < i + 1:
            # the REAL trace itself deviates from the spec before the corrupted line (reported as a violation by the
            # main validation): the control is not applicable on this run
            out[what] = "not applicable: the uncorrupted real trace is already rejected at line %d" % tv["stuck_line"]
            continue
        if tv["accepted"] or tv["stuck_line"] != i + 1:
            raise InfraError("binding self-test failed: corrupted field %r at line %d was not rejected there (%s)"
                             % (what, i + 1, tv))
        out[what] = "corrupted line %d rejected" % (i + 1)
    return out
