"""C32 -- SnapshotIO.tla bound to overlord/snapshotstate/backend (Import, Reader.Restore, RestoreState).

design     TLC checks Confined / FailedRestoreIsIdentity / CorruptNeverRestores / SuccessReproducesSaved /
           RevertAfterSuccessIsIdentity (+ helpers) on SnapshotIO.tla: every import stream of <= MaxMembers members
           over the name/type/body alphabets of MCSnapshotIO.tla, every restore over all archives x pre-states x
           entry orders with a fault after ANY micro step.
binding    cases are drawn from the SAME alphabets (parsed from MCSnapshotIO.tla), run through the real Import /
           Save+Restore+Revert/Cleanup in a temp root by the overlay driver, which records what the code did at
           every observable point (each request for the next tar header; each tar --extract invocation; return);
           TraceSnapshotIO.tla validates every recorded step against the spec's step functions and evaluates the
           invariants on every recorded state.
statement  evaluated directly on the real outcome: nothing created/modified outside the snapshots directory (full
           walk of the temp root); failed restore => digests of the data trees unchanged; corrupt archive => restore
           fails; success => saved slots hold the saved data; Revert after success => digests as before.
"""
import itertools
import os
import random
import re

from lib import common, tlc, goharness, tlaparse
from lib.common import Result, Violation, InfraError

OVERLAY = os.path.join(common.HARNESS, "overlay", "snapshotbackend", "zz_verif_snapshotio_test.go")
PKG = "overlord/snapshotstate/backend"


def alphabets(prefix):
    out = {}
    with open(os.path.join(common.SPEC, "MCSnapshotIO.tla")) as f:
        for ln in f:
            m = re.match(r'^%s(\w+) == (.*)$' % prefix, ln.strip())
            if m:
                out[m.group(1)] = tlaparse.parse_value(m.group(2))
    need = ["Keys", "Befores", "Afters", "Types", "Bodies", "REntries", "PreClasses", "Corruptions"]
    miss = [k for k in need if k not in out]
    if miss:
        raise InfraError("MCSnapshotIO.tla lacks %s%s" % (prefix, miss))
    return out


# ----------------------------------------------------------------------------------------------- cases

def member_universe(al, extra_types=True):
    ms = []
    types = list(al["Types"]) + (["hardlink", "fifo"] if extra_types else [])
    for b in al["Befores"]:
        for k in al["Keys"]:
            for a in al["Afters"]:
                for t in types:
                    if t == "reg":
                        for bd in al["Bodies"]:
                            ms.append(dict(kind="file", before=list(b), key=k, after=list(a), type=t, body=bd, cut=False))
                            if bd in ("zip", "trunc"):
                                ms.append(dict(kind="file", before=list(b), key=k, after=list(a), type=t, body=bd, cut=True))
                    else:
                        ms.append(dict(kind="file", before=list(b), key=k, after=list(a), type=t, body="empty", cut=False))
    for bd in ("cjnew", "cjdup", "cjbad"):
        for cut in (False, True):
            ms.append(dict(kind="content", before=[], key="", after=[], type="reg", body=bd, cut=cut))
    for cut in (False, True):
        ms.append(dict(kind="export", before=[], key="", after=[], type="reg", body="export", cut=cut))
    for b in al["Befores"]:
        ms.append(dict(kind="nous", before=list(b), key="plain.zip", after=[], type="reg", body="zip", cut=False))
    return ms


CJNEW = dict(kind="content", before=[], key="", after=[], type="reg", body="cjnew", cut=False)
EXPORT = dict(kind="export", before=[], key="", after=[], type="reg", body="export", cut=False)


def import_cases(ctx, al):
    rnd = random.Random(ctx.seed * 104729 + 32)
    uni = member_universe(al)
    cases = []

    def mk(members, end="clean", **kw):
        members = [dict(m) for m in members]
        for m in members[:-1]:
            m["cut"] = False                       # only the last member can be cut by the end of the stream
        c = dict(case="i%d" % len(cases), kind="import", members=members, end=end,
                 nodup=kw.get("nodup", rnd.random() < 0.5), lockheld=kw.get("lockheld", False),
                 subdir=kw.get("subdir", rnd.random() < 0.3))
        cases.append(c)

    good = [m for m in uni if m["kind"] == "file" and m["body"] == "zip" and not m["cut"] and m["type"] == "reg"
            and not m["after"] and ".." not in m["before"] and m["key"] not in ("..",)]
    CJDUP = dict(CJNEW, body="cjdup")
    # deterministic core: the happy path, the duplicate check, the lock
    for g in good[:6]:
        mk([CJNEW, g, EXPORT], nodup=False, subdir=False)
        mk([g, EXPORT], nodup=True)
        mk([g, g, EXPORT], nodup=True)
    mk([CJDUP, good[0], EXPORT], nodup=False)
    mk([CJDUP, good[0], EXPORT], nodup=True)
    mk([CJDUP], nodup=False)
    mk([good[0], EXPORT], lockheld=True)
    singles = rnd.sample(uni, min(len(uni), ctx.pick(120, 1200)))
    for m in singles:
        mk([m])
    wrapped = rnd.sample(uni, min(len(uni), ctx.pick(120, 600)))
    for m in wrapped:
        if not m["cut"]:
            mk([CJNEW, m, EXPORT])
    for _ in range(ctx.pick(200, 1200)):
        n = rnd.choice([2, 2, 3, 3, 4])
        ms = [rnd.choice(uni) for _ in range(n)]
        if rnd.random() < 0.6:
            ms[0] = rnd.choice(good)        # bias towards streams that get past the first member
        if rnd.random() < 0.3:
            ms[1] = rnd.choice(good)
        if rnd.random() < 0.5:
            ms.insert(rnd.randrange(len(ms) + 1), EXPORT)
        mk(ms, end=rnd.choice(["clean", "clean", "cuthdr"]), lockheld=rnd.random() < 0.03)
    return cases


def restore_cases(ctx, al):
    rnd = random.Random(ctx.seed * 15485863 + 32)
    slots = ["common", "rev"]
    subsets = [[], ["common"], ["rev"], ["common", "rev"]]
    cases = []

    def mk(entries, saved, pre, parent, corrupt, tarfailat, current, afterop):
        cases.append(dict(case="r%d" % len(cases), kind="restore", entries=entries, saved=saved, pre=pre,
                          parentpre=parent, corrupt=corrupt, tarfailat=tarfailat, current=current, afterop=afterop))

    def rand_case():
        entries = sorted(rnd.choice(al["REntries"]))
        saved, pre, parent, corrupt = {}, {}, {}, {}
        for e in entries:
            saved[e] = rnd.choice(subsets) if rnd.random() < 0.6 else ["common", "rev"]
            parent[e] = rnd.random() < 0.8
            pre[e] = {s: (rnd.choice(al["PreClasses"]) if parent[e] else "absent") for s in slots}
            corrupt[e] = rnd.choice(al["Corruptions"]) if rnd.random() < 0.35 else "none"
        mk(entries, saved, pre, parent, corrupt, rnd.choice([0, 0, 0, 1, 2]),
           rnd.choice(["unset", "same", "other"]), rnd.choice(["none", "revert", "cleanup"]))

    # a deterministic core: healthy restores over every pre-state class, every corruption, every fault index
    both = ["sys", "usr"]
    for cls in al["PreClasses"]:
        for afterop in ("revert", "cleanup"):
            mk(both, {e: slots for e in both}, {e: {"common": cls, "rev": "old"} for e in both},
               {e: True for e in both}, {e: "none" for e in both}, 0, "same", afterop)
    for cor in al["Corruptions"]:
        for e in both:
            mk(both, {x: slots for x in both}, {x: {"common": "old", "rev": "old"} for x in both},
               {x: True for x in both}, {x: (cor if x == e else "none") for x in both}, 0, "unset", "none")
    for k in (1, 2):
        mk(both, {x: slots for x in both}, {x: {"common": "old", "rev": "old"} for x in both},
           {x: True for x in both}, {x: "none" for x in both}, k, "unset", "none")
    mk(both, {x: slots for x in both}, {x: {"common": "absent", "rev": "absent"} for x in both},
       {x: False for x in both}, {"sys": "none", "usr": "hash"}, 0, "same", "none")
    for _ in range(ctx.pick(50, 400)):
        rand_case()
    return cases


# ----------------------------------------------------------------------------------------------- driver

def run_driver(ctx, tb, cases, name, timeout):
    d = ctx.subdir(name)
    cp, out = os.path.join(d, "cases.ndjson"), os.path.join(d, "trace.ndjson")
    common.write_ndjson(cp, cases)
    rc, o = goharness.run_test_bin(ctx, tb, "^TestVerifSnapshotIO$", env={"VERIF_CASES": cp, "VERIF_OUT": out},
                                   cwd=os.path.join(common.REPO, PKG), timeout=timeout)
    goharness.check_driver(rc, o, "snapshotio driver")
    runs, cur = [], None
    for ev in common.read_ndjson(out):
        if ev["ev"] in ("IStart", "RStart"):
            cur = []
            runs.append(cur)
        if ev["ev"] == "Timeout":
            raise InfraError("snapshotio driver: watchdog expired in case %s" % ev["case"])
        cur.append(ev)
    if len(runs) != len(cases):
        raise InfraError("snapshotio driver: %d cases in, %d traces out\n%s" % (len(cases), len(runs), common.tail(o, 20)))
    return runs


def describe(case):
    if case["kind"] == "import":
        ms = []
        for m in case["members"]:
            if m["kind"] == "content":
                nm = "content.json"
            elif m["kind"] == "export":
                nm = "export.json"
            elif m["kind"] == "nous":
                nm = "/".join(m["before"] + [m["key"]])
            else:
                nm = "/".join(m["before"] + ["7_" + m["key"]] + m["after"])
            ms.append("%s:%s:%s%s" % (nm, m["type"], m["body"], ":cut" if m["cut"] else ""))
        return "import nodup=%d lockheld=%d subdir=%d end=%s members=[%s]" % (
            case["nodup"], case["lockheld"], case["subdir"], case["end"], ", ".join(ms))
    es = case["entries"]
    return "restore entries=%s saved=%s pre=%s corrupt=%s current=%s tarfailat=%d afterop=%s" % (
        "+".join(es), ";".join("%s:%s" % (e, "+".join(case["saved"][e]) or "-") for e in es),
        ";".join("%s:%s" % (e, ("common=%s,rev=%s" % (case["pre"][e]["common"], case["pre"][e]["rev"]))
                            if case["parentpre"][e] else "noparent") for e in es),
        ";".join("%s:%s" % (e, case["corrupt"][e]) for e in es), case["current"], case["tarfailat"], case["afterop"])


def statement_verdict(case, run):
    """C32 evaluated on the real outcome; returns list of (class, text)."""
    out = []
    if case["kind"] == "import":
        end = run[-1]
        if end["ev"] != "IEnd":
            return [("harness", "no IEnd event")]
        if end["obs"]["outside"]:
            out.append(("import-escape", "Import created/modified paths outside the snapshots directory: %s" % end["obs"]["outside"]))
        return out
    start = run[0]
    done = [ev for ev in run if ev["ev"] == "RDone"]
    if not done:
        return [("harness", "no RDone event")]
    done = done[0]
    entries = case["entries"]
    if done["obs"]["err"]:
        changed = [e for e in entries if done["digest"][e] != start["digest"][e]]
        if changed:
            out.append(("failed-restore-changed-data", "Restore failed (%s) but the data tree of %s differs from before" % (
                done.get("errmsg"), "+".join(changed))))
    else:
        bad = [e for e in entries if case["saved"][e] and case["corrupt"][e] != "none"]
        if bad:
            out.append(("corrupt-restore-succeeded", "Restore succeeded although the archive of %s is corrupt (%s)" % (
                "+".join(bad), ",".join(case["corrupt"][e] for e in bad))))
        for e in entries:
            for s in case["saved"][e]:
                if done["obs"]["state"]["slots"][e][s] != "saved":
                    out.append(("restore-not-reproduced", "Restore succeeded but %s/%s holds %r, not the saved data" % (
                        e, s, done["obs"]["state"]["slots"][e][s])))
        after = [ev for ev in run if ev["ev"] == "RAfter"]
        if after and after[0]["args"]["op"] == "revert":
            changed = [e for e in entries if after[0]["digest"][e] != start["digest"][e]]
            if changed:
                out.append(("revert-not-identity", "Revert after a successful restore left the data tree of %s different from before" % "+".join(changed)))
        if after and after[0]["args"]["op"] == "cleanup":
            for e in entries:
                for s in case["saved"][e]:
                    if after[0]["obs"]["state"]["slots"][e][s] != "saved":
                        out.append(("restore-not-reproduced", "after Cleanup %s/%s holds %r" % (e, s, after[0]["obs"]["state"]["slots"][e][s])))
    return out


def validate(ctx, pairs, name, max_rejections=5):
    """I->T; pairs = [(case, run)]. Returns (n_accepted, [(case, run, why)])."""
    pairs = list(pairs)
    rejected = []
    while pairs:
        d = ctx.subdir(name)
        path = os.path.join(d, "trace.ndjson")
        common.write_ndjson(path, [ev for _, r in pairs for ev in r])
        tv = tlc.validate_trace(ctx, "MCTraceSnapshotIO", "TraceSnapshotIO.cfg", path, timeout=2400, name="tlc_" + name)
        if tv["accepted"]:
            break
        line = tv["stuck_line"]
        n, bad = 0, None
        for i, (_, r) in enumerate(pairs):
            if n < line <= n + len(r):
                bad = i
                break
            n += len(r)
        if bad is None:
            raise InfraError("trace validation: cannot map stuck line %s to a case" % line)
        case, r = pairs.pop(bad)
        ev = r[line - n - 1]
        if tv["invariant"]:
            why = "invariant %s of SnapshotIO.tla is violated by the state recorded at step %d (%s)" % (tv["invariant"], line - n, ev["ev"])
        else:
            why = "step %d (%s %s -> %s) of the real code is not a step of SnapshotIO.tla from the state reached so far" % (
                line - n, ev["ev"], ev.get("args"), ev.get("obs"))
        rejected.append((case, r, why))
        if len(rejected) >= max_rejections:
            break
    return len(pairs), rejected


# ----------------------------------------------------------------------------------------------- main

def run(ctx):
    thorough = not ctx.quick
    workers = ctx.pick(8, 16)
    al = alphabets("T" if thorough else "Q")
    cfg = "SnapshotIO_mc%s.cfg" % ("_thorough" if thorough else "")
    mc = tlc.run(ctx, "MCSnapshotIO", cfg, coverage=True, workers=workers, timeout=ctx.pick(900, 3000),
                 heap=ctx.pick("6g", "16g"), name="tlc_mc")
    ctx.log("TLC %s: %s (%.0fs)" % (cfg, mc.summary(), mc.wall))
    if not mc.ok:
        raise InfraError("spec-level counterexample in %s: %s\n%s" % (cfg, mc.summary(), mc.trace[-1:] if mc.trace else ""))
    tlc.require_coverage(mc, ["ImportBegin", "ImportMember", "ImportEndClean", "ImportEndCut", "ImportCancel",
                              "RestoreBegin", "RestoreStep", "RestoreFault", "RestoreSettle", "RestoreRevertAfter",
                              "RestoreCleanupAfter"])

    tb = goharness.overlay_test_build(ctx, PKG, [OVERLAY])
    cases = import_cases(ctx, al) + restore_cases(ctx, al)
    runs = run_driver(ctx, tb, cases, "replay", timeout=ctx.pick(1200, 3000))
    n_imp = sum(1 for c in cases if c["kind"] == "import")
    ctx.log("real executions: %d imports, %d restores" % (n_imp, len(cases) - n_imp))

    violations = []
    good, by_class = [], {}
    for case, r in zip(cases, runs):
        vs = statement_verdict(case, r)
        if any(c == "harness" for c, _ in vs):
            raise InfraError("driver trace of case %s is incomplete: %s" % (case["case"], vs))
        if vs:
            for cls, text in vs:
                by_class.setdefault(cls, []).append((case, r, text))
        else:
            good.append((case, r))
    for cls in sorted(by_class):
        lst = sorted(by_class[cls], key=lambda x: (len(describe(x[0])), describe(x[0])))
        for case, r, text in lst[:5]:
            violations.append(Violation(key="%s %s" % (cls, describe(case)),
                                        desc="%s [%d real executions in class %s this run] input: %s" % (text, len(lst), cls, describe(case)),
                                        replay={"class": cls, "case": case, "events": r}))

    n_ok, rejected = validate(ctx, good, "conf")
    for case, r, why in rejected:
        violations.append(Violation(key="nonconformance %s" % describe(case),
                                    desc="real backend deviates from SnapshotIO.tla: %s; input: %s" % (why, describe(case)),
                                    replay={"class": "nonconformance", "case": case, "events": r}))

    # evidence / vacuity
    outcomes = {}
    abstract = set()
    ancestors_left = 0
    for case, r in zip(cases, runs):
        if case["kind"] == "import":
            end = r[-1]
            k = "import/%s" % end["obs"]["err"]
            abstract.add(("i", tuple(sorted((tuple(x["p"]), x["c"]) for x in end["obs"]["files"])), end["obs"]["err"]))
        else:
            done = [ev for ev in r if ev["ev"] == "RDone"][0]
            k = "restore/%s" % ("failed" if done["obs"]["err"] else "restored")
            if done["obs"]["err"] and done["digest"]["all"] != r[0]["digest"]["all"]:
                ancestors_left += 1
            for ev in r:
                st = ev["obs"].get("state", ev["obs"]) if ev["ev"] != "RStart" else ev["obs"]
                abstract.add(("r", ev["ev"], str(sorted(st.get("slots", {}).items())), str(sorted(st.get("asides", {}).items()))))
        outcomes[k] = outcomes.get(k, 0) + 1
    for k, n in (("import/none", 10), ("import/error", 30), ("import/dup", 1), ("restore/failed", 10), ("restore/restored", 10)):
        if not violations and outcomes.get(k, 0) < n:
            raise InfraError("vacuity guard: only %d real executions with outcome %s (%s)" % (outcomes.get(k, 0), k, outcomes))
    notes = []
    if ancestors_left:
        notes.append("%d failed restores left an empty ancestor directory (~/snap) behind that did not exist before; "
                     "not snap data, not counted as a violation" % ancestors_left)

    pick = [0, n_imp // 2, n_imp, len(cases) - 1]
    samples = []
    for i in pick:
        last = runs[i][-1]
        samples.append({"input": describe(cases[i]), "outcome": {k: last["obs"][k] for k in last["obs"] if k in ("err", "outside", "nnames", "state")}})
    cov = {
        "states": mc.distinct, "transitions": mc.generated, "tlc_depth": mc.depth, "tlc_config": cfg,
        "tlc_wall_s": round(mc.wall, 1), "tlc_constants": {k: str(v) for k, v in al.items()},
        "action_coverage": tlc.coverage_summary(mc),
        "traces_validated_against_impl": n_ok,
        "real_executions": len(runs), "real_imports": n_imp, "real_restores": len(cases) - n_imp,
        "real_outcomes": outcomes, "real_distinct_abstract_states": len(abstract),
        "statement_violations_on_real_code": {k: len(v) for k, v in by_class.items()},
        "samples": samples,
    }
    return Result(level="model_checking", coverage=cov, notes=notes, violations=violations, assumptions=[
        "import: the snapshots directory exists and contains no symlinks placed by someone else; names are drawn from the "
        "alphabets in tlc_constants (components: normal, '..', '.', empty/absolute, nested, directory pre-existing in the snapshots dir)",
        "file contents abstracted to classes (valid snapshot zip / proper prefix / longer garbage / empty)",
        "restore: system data and one user; data directories 'common' and the revision dir; faults injectable on the real "
        "code: corrupt archive (hash / gzip stream / zip size), failing tar invocation k, un-renamable destination (dangling "
        "symlink); the spec additionally explores a fault after every micro step",
        "a directory that did not exist at save time is not restored and whatever is there stays (SuccessReproducesSaved "
        "speaks about saved directories only)",
        "ownership (chown), mtimes and concurrent modification of the data directories are outside the model; the driver runs as root "
        "with tar executed directly (tarAsUser seam)",
    ])
