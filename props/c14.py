"""C14 -- no two in-progress changes operate on the same snap (spec: Conflicts.tla, trace spec: TraceConflicts.tla).

design:       TLC checks RejectIfBusy / NoStartDuringExclusive / StaleRejected / RejectCreatesNothing / NoOverlap /
              ExclusiveLast exhaustively on Conflicts (all request kinds, snapd downgrade, exclusive kinds,
              download-only / become-operational exemptions, ignore-own-change requests, refresh-all skipping).
conformance:  two overlay drivers issue request histories through the REAL entry points with in-progress changes
              left unsettled:
                overlord/snapstate  TestVerifConflicts       Install/Update/UpdateMany/InstallMany/Revert/Remove/
                                                             RemoveMany/Enable/Disable/Switch/Alias/DisableAllAliases/
                                                             Prefer/UpdateWithDeviceContext(fromChange)/
                                                             CheckChangeConflictRunExclusively(+Many) ...
                overlord/ifacestate TestVerifConflictsIface  Connect / Disconnect
              Each request logs the outcome (accepted / *ChangeConflictError), the number of changes, whether the
              "snaps" state changed, and the real change list (kind, readiness, union of SnapsAffectedByTask,
              changeIsSnapdDowngrade).  TLC validates the log against TraceConflicts (strict: outcome and change
              list equal the spec's; every C14 invariant evaluated at every step).
"""
import json
import os

from lib import common, tlc, goharness
from lib.common import Result, Violation, InfraError
from props import _conformance as conf

OV = os.path.join(common.HARNESS, "overlay")
SNAPSTATE_FILES = [os.path.join(OV, "snapstate", "zz_verif_conflicts_test.go"),
                   os.path.join(OV, "snapstate", "zz_verif_conflicts_export_test.go")]
IFACE_FILES = [os.path.join(OV, "ifacestate", "zz_verif_conflicts_iface_test.go")]
INVS = ["RejectIfBusy", "NoStartDuringExclusive", "StaleRejected", "RejectCreatesNothing", "NoOverlap", "ExclusiveLast"]
ACTIONS = ["PartialProgress", "ReqSingle", "ReqMany", "ReqPair", "ReqAll", "ReqFrom", "ReqSnapd", "ReqExcl", "ReqTrans", "Inject", "Progress"]
EXCL = ("remodel", "create-recovery-system", "remove-recovery-system", "snapd-revert-down", "snapd-refresh-down")
IRRELEVANT = ("pre-download", "become-operational")


def _req(ev):
    if ev["ev"] != "Request":
        return "%s(%s)" % (ev["ev"], json.dumps(ev["args"], sort_keys=True, separators=(",", ":")))
    a = ev["args"]
    s = "%s(%s)" % (a["op"], ",".join(a["S"]))
    if a.get("from"):
        s += " from-change#%d" % a["from"]
    if a.get("mutated"):
        s += " record-of-%s-changed-meanwhile" % ",".join(a["mutated"])
    return s


def _live(ev_prev):
    return ["%s{%s}" % (c["kind"], ",".join(c["snaps"])) for c in ev_prev["st"]["changes"] if not c["ready"]]


def _violation(rows, r, driver):
    evs = conf.case_events(rows, r["line"])
    last = evs[-1]
    live = _live(evs[-2]) if len(evs) > 1 else []
    ac = {k: v for k, v in (evs[0]["st"].get("acfg") or {}).items() if v}
    what = r["invariant"] if r["kind"] == "violation" else "step"
    if what == "NoStartDuringExclusive":
        what = "C14:change-started-during-exclusive"
    key = "C14/%s/%s/%s=>%s | in progress: %s%s" % (driver, what, _req(last), last["res"].get("result"), "; ".join(live),
                                                    " | aliases: %s" % json.dumps(ac, sort_keys=True) if ac else "")
    desc = ("real %s: request %s with in-progress changes [%s] returned %r (change list after: %s)%s"
            % (driver, _req(last), "; ".join(live), last["res"].get("result"),
               json.dumps(last["st"]["changes"], separators=(",", ":")),
               (" -- violates %s" % r["invariant"] if r["kind"] == "violation" else " -- not a step of Conflicts")
               + (" [automatic-alias situation: %s]" % json.dumps(ac, sort_keys=True) if ac else "")))
    return Violation(key=key, desc=desc, replay={"driver": driver, "history": [_req(e) for e in evs],
                                                 "last_event": last, "classification": r})


def _corrupt(rows, rng):
    cands = [i for i, r in enumerate(rows) if r["ev"] == "Request" and r["res"]["result"] == "conflict"]
    if not cands:
        return None
    i = rng.choice(cands)
    rows[i]["res"]["result"] = "accepted"
    return "line %d: %s conflict -> accepted" % (i + 1, _req(rows[i]))


def _weak_exclusive(rows):
    """occurrences of: an exclusive change accepted while an ordinary change is still unfinished (allowed by the
    code for unfinished refresh-snap / revert-snap changes; outside the statement, reported as an observation)"""
    n, sample = 0, None
    prev = None
    for ev in rows:
        if ev["ev"] == "Request" and ev["args"]["op"] in EXCL and ev["res"]["result"] == "accepted" and prev is not None:
            others = [c for c in prev["st"]["changes"] if not c["ready"] and c["kind"] not in IRRELEVANT]
            if others and not ev["args"].get("from"):
                n += 1
                if sample is None:
                    sample = {"request": _req(ev), "unfinished": _live(prev)}
        prev = ev if ev["ev"] != "Reset" else ev
    return n, sample


def _dedupe(vs):
    seen, out = set(), []
    for v in vs:
        if v.key not in seen:
            seen.add(v.key)
            out.append(v)
    return out


def run(ctx):
    workers = ctx.pick(8, 16)
    notes = []
    # ---------------------------------------------------------------- design
    cfg = ctx.pick("Conflicts_mc.cfg", "Conflicts_mc_thorough.cfg")
    mc = tlc.run(ctx, "Conflicts", cfg, coverage=True, workers=workers, timeout=ctx.pick(1800, 7200),
                 heap=ctx.pick("6g", "12g"))
    if not mc.ok:
        raise InfraError("spec-level counterexample in Conflicts/%s: %s" % (cfg, mc.summary()))
    tlc.require_coverage(mc, ACTIONS)
    ctx.log("TLC %s: %d distinct / %d generated, %.0fs" % (cfg, mc.distinct, mc.generated, mc.wall))
    deep = None
    if not ctx.quick:
        deep = tlc.run(ctx, "Conflicts", "Conflicts_mc_deep.cfg", workers=workers, timeout=7200, heap="12g", name="tlc_deep")
        if not deep.ok:
            raise InfraError("spec-level counterexample in Conflicts_mc_deep: %s" % deep.summary())
        ctx.log("TLC Conflicts_mc_deep.cfg: %d distinct / %d generated, %.0fs" % (deep.distinct, deep.generated, deep.wall))
    # documented expectation: "exclusive changes run alone" is NOT an invariant of the transcribed code
    alone_len = 3
    if not ctx.quick:
        alone = tlc.run(ctx, "Conflicts", "Conflicts_mc_alone.cfg", workers=workers, timeout=1800, name="tlc_alone")
        if alone.kind != "invariant" or alone.name != "ExclusiveAlone":
            raise InfraError("expected the ExclusiveAlone counterexample, got %s" % alone.summary())
        alone_len = len(alone.trace)

    # ---------------------------------------------------------------- conformance
    tdir = ctx.subdir("traces")
    violations = []
    divergences = []
    totals = {"traces": 0, "requests": 0, "accepted": 0, "conflicts": 0, "distinct_classes": 0, "events": 0, "pairs": 0}
    samples = []
    selfcheck = None
    weak_n, weak_sample = 0, None
    runs = [
        ("snapstate", "overlord/snapstate", SNAPSTATE_FILES, "^TestVerifConflicts$",
         {"VERIF_N": ctx.pick(80, 2000), "VERIF_LEN": ctx.pick(8, 10), "VERIF_PAIRS": ctx.pick("plain", "1"),
          "VERIF_PAIRS_SAMPLE": ctx.pick(2, 1)}),
        ("ifacestate", "overlord/ifacestate", IFACE_FILES, "^TestVerifConflictsIface$",
         {"VERIF_N": ctx.pick(100, 2000)}),
    ]
    for name, pkg, files, entry, env in runs:
        if violations:
            break       # already decided; do not spend another build on the second driver
        tb = goharness.overlay_test_build(ctx, pkg, files)
        out = os.path.join(tdir, "conf_%s.ndjson" % name)
        env = dict(env)
        env["VERIF_OUT"] = out
        rc, o = goharness.run_test_bin(ctx, tb, entry, cwd=os.path.join(common.REPO, pkg), timeout=2400, env=env)
        goharness.check_driver(rc, o, "conflicts driver (%s)" % name)
        st = conf.stats_line(o)
        rows = conf.load(out)
        for k in ("traces", "requests", "accepted", "conflicts", "distinct_classes"):
            totals[k] += st[k]
        totals["pairs"] += st.get("pairs", 0)
        totals["alias_histories"] = totals.get("alias_histories", 0) + st.get("alias_histories", 0)
        totals["events"] += len(rows)
        bad = [r for r in rows if r["ev"] == "Request" and r["res"]["result"] not in ("accepted", "conflict")]
        created = [r for r in bad if r["res"]["result"] == "conflict-but-created-change"]
        if created:
            ev = created[0]
            violations.append(Violation(key="C14/%s/RejectCreatesNothing/%s" % (name, _req(ev)),
                                        desc="request %s was rejected with a conflict error but a change was created" % _req(ev),
                                        replay={"event": ev}))
            continue
        if bad:
            raise InfraError("conflicts driver (%s): request %s failed with a non-conflict error: %s"
                             % (name, _req(bad[0]), bad[0]["res"]["result"]))
        for ev in rows:
            if ev["ev"] == "Request" and len(samples) < 5 and ev["res"]["result"] == ("conflict" if len(samples) % 2 == 0 else "accepted") \
                    and any(not c["ready"] for c in ev["st"]["changes"]):
                samples.append({"driver": name, "request": _req(ev), "result": ev["res"]["result"],
                                "changes_after": ["%s{%s}%s" % (c["kind"], ",".join(c["snaps"]), "" if not c["ready"] else " ready")
                                                  for c in ev["st"]["changes"]]})
        r = conf.two_pass(ctx, "TraceConflicts", "TraceConflicts.cfg", out, name, timeout=ctx.pick(1800, 7200))
        ctx.log("trace validation %s: %d events, accepted=%s" % (name, len(rows), r["accepted"]))
        if not r["accepted"]:
            if r["kind"] == "stuck":
                raise InfraError("conflicts trace %s: lenient pass stuck at line %s" % (name, r.get("lenient_line")))
            if r["kind"] == "divergence":
                evs = conf.case_events(rows, r["line"])
                last = evs[-1]
                divergences.append("conflicts trace %s: request %s with in-progress [%s] returned %r, which deviates from "
                                   "Conflicts at line %d without violating a C14 invariant (e.g. an over-strict rejection or a "
                                   "different affected-snap set: %s) -- model/code divergence to triage"
                                   % (name, _req(last), "; ".join(_live(evs[-2]) if len(evs) > 1 else []),
                                      last["res"]["result"], r["line"], json.dumps(last["st"]["changes"])))
                continue
            violations.append(_violation(rows, r, name))
            continue
        n, smp = _weak_exclusive(rows)
        weak_n += n
        weak_sample = weak_sample or smp
        if name == "snapstate":
            selfcheck = conf.corruption_check(ctx, "TraceConflicts", "TraceConflicts.cfg", out, _corrupt, "conf")
    if divergences and not violations:
        raise InfraError(divergences[0])
    if not violations and (totals["conflicts"] < 20 or totals["accepted"] < 20 or totals["distinct_classes"] < 50):
        raise InfraError("vacuity guard: real executions too thin: %s" % totals)
    if weak_n:
        notes.append("observation (outside the statement): %d real request(s) started an exclusive change while an ordinary "
                     "change was still unfinished, e.g. %s -- checkChangeConflictExclusiveKinds lets a new exclusive change "
                     "pass unfinished refresh-snap/revert-snap changes (TLC counterexample to ExclusiveAlone: %d states)"
                     % (weak_n, json.dumps(weak_sample), alone_len))

    violations = _dedupe(violations)
    if not samples and violations:
        samples = [{"violating_case": violations[0].key}]
    return Result(
        level="model_checking",
        coverage={
            "states": mc.distinct, "transitions": mc.generated, "tlc_wall_s": round(mc.wall, 1), "tlc_config": cfg,
            "tlc_deep_states": deep.distinct if deep else None, "tlc_deep_transitions": deep.generated if deep else None,
            "action_coverage": tlc.coverage_summary(mc), "invariants": INVS,
            "traces_validated_against_impl": totals["traces"],
            "systematic_request_pairs": totals["pairs"],
            "histories_with_automatic_alias_changes": totals.get("alias_histories", 0),
            "real_requests": totals["requests"], "real_accepted": totals["accepted"], "real_conflicts": totals["conflicts"],
            "real_events": totals["events"],
            "distinct_real_request_classes": totals["distinct_classes"],
            "exclusive_started_beside_unfinished_change": weak_n,
            "binding_selfcheck": selfcheck,
            "samples": samples,
        },
        assumptions=[
            "in-progress = a real change whose tasks are never run; progress = chg.Abort() or all tasks Done",
            "affected snaps of a change = union of the real SnapsAffectedByTask over its request-time tasks; tasks injected "
            "while a change runs (auto-connect -> connect) are outside the invariant",
            "remodel / create- / remove-recovery-system requests are represented by the real "
            "CheckChangeConflictRunExclusively(kind) followed by CheckChangeConflictMany on the snaps the change will touch; "
            "core/snapd transitions by the real changeInFlight guard",
            "the 'snap record changed while preparing' window is exercised by changing the SnapState from inside the fake "
            "store's SnapAction (state unlocked there, as in production)",
            "the statement does not require that an exclusive change is refused while ordinary changes are unfinished; "
            "the code refuses it except beside unfinished refresh-snap/revert-snap changes (reported as an observation)",
        ],
        violations=violations, notes=notes)
