"""C16 -- auto-refresh runs inside timer windows and is never postponed past the limit; format/parse round trip;
invalid timers rejected.  Machinery in props/_timer.py; specs RefreshTimer.tla, Calendar.tla, TimerWindows.tla."""
from props import _timer


def run(ctx):
    return _timer.run(ctx)
