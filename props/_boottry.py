"""Shared machinery for C17 (BootTry.tla): TLC runs, case generation from TLC's reachable states / behaviours,
the Go driver in /repo/boot (overlay), trace validation, grub.cfg rule extraction.

Binding, per variant (UC20grub / UC20ns / UC16):
  (1) I->T write order: for EVERY reachable (idle disk state, enabled snapd action) of the exhaustive config (taken from
      TLC's -dump: the states right after Start(...)), the real SetNextBoot / MarkBootSuccessful is run on a mock
      bootloader + real modeenv materialised from that state; the recorded total order of durable writes and every
      intermediate state must be exactly the plan the spec computed (TraceBootTry: W = Step).  Every prefix is also
      cross-checked by really interrupting the call (panic in the bootloader mock).
  (2) T->I: for EVERY reachable initramfs-entry state the real InitramfsRunModeSelectSnapsToMount /
      InitramfsRunModeUpdateBootloaderVars are run and compared with InitNs/InitBase/InitKernel; and TLC -simulate
      behaviours (with PowerLoss at any pc) are replayed step by step on one persistent real state.
  (3) grub.cfg: the if/elif chain on $kernel_status is extracted from the asset and compared with GrubRule.
"""
import json
import os
import re
import shutil

from lib import common, tlc, goharness, tlaparse
from lib.common import InfraError, Violation

OVERLAY = os.path.join(common.HARNESS, "overlay", "boot", "zz_verif_boottry_test.go")
INVARIANTS = ["OnlyGoodOrTried", "FallbackWorks", "GoodOnlyAfterMark", "NeverStuck", "InUseProtects"]
ACTIONS = ("SetNextK", "UndoK", "SetNextB", "UndoB", "Mark")
TRACE_CFG = {"UC20grub": "TraceBootTry.cfg", "UC20ns": "TraceBootTry_UC20ns.cfg", "UC16": "TraceBootTry_UC16.cfg"}


# ------------------------------------------------------------------ TLC dump -> python states

def iter_dump(path, want=None, dedupe=False):
    """Yield dict(var -> python value) for every state of a TLC -dump file whose raw text satisfies want(text).
    dedupe: yield only the first of the states that differ in nothing but the history variable h."""
    seen = set() if dedupe else None
    if not os.path.exists(path) and os.path.exists(path + ".dump"):
        path = path + ".dump"
    with open(path) as f:
        buf = []
        for line in f:
            if line.startswith("State "):
                if buf:
                    st = _parse_state(buf, want, seen)
                    if st is not None:
                        yield st
                buf = []
            else:
                buf.append(line)
        if buf:
            st = _parse_state(buf, want, seen)
            if st is not None:
                yield st


_var_re = re.compile(r'^/\\ ([A-Za-z_][A-Za-z0-9_]*) = (.*)$')


def _parse_state(lines, want, seen=None):
    text = "".join(lines)
    if want is not None and not want(text):
        return None
    out = {}
    cur = None
    for ln in lines:
        m = _var_re.match(ln)
        if m:
            cur = m.group(1)
            out[cur] = [m.group(2)]
        elif cur is not None and ln.strip():
            out[cur].append(ln)
    if seen is not None:
        # cheap textual dedupe on everything but the history variable before the (slow) value parser runs
        k = hash(tuple((v, "".join(out[v])) for v in sorted(out) if v != "h"))
        if k in seen:
            return None
        seen.add(k)
    return {k: tlaparse.parse_value("\n".join(v)) for k, v in out.items()}


def disk_key(st):
    d = st["d"]
    return (d["kst"], d["kcur"], d["ktry"], tuple(d["ck"]), d["bcur"], d["btry"], d["bst"],
            tuple(st["pres"]["k"]), tuple(st["pres"]["b"]))


def fmt_disk(d):
    return "kst=%s kcur=%d ktry=%d ck=%s bcur=%d btry=%d bst=%s" % (
        d["kst"] or '""', d["kcur"], d["ktry"], list(d["ck"]), d["bcur"], d["btry"], d["bst"] or '""')


def cases_from_dump(path, variant, limit=None, rng=None):
    """act cases: states right after Start (pc=0, action named); init cases: initramfs entry states."""
    acts, inits = {}, {}

    def want(text):
        return ('pc |-> 0' in text and 'name |-> "idle"' not in text) or 'phase |-> "ins"' in text or \
            'phase |-> "ibase"' in text

    n = 0
    for st in iter_dump(path, want, dedupe=True):
        n += 1
        a = st["act"]
        ph = st["boot"]["phase"]
        if a["name"] != "idle" and a["pc"] == 0 and ph == "run":
            k = disk_key(st) + (a["name"], a["arg"])
            acts.setdefault(k, st)
        elif ph in ("ins", "ibase") and a["name"] == "idle":
            k = disk_key(st) + (ph, st["boot"]["cmdtrying"])
            inits.setdefault(k, st)
    al = [acts[k] for k in sorted(acts, key=repr)]
    il = [inits[k] for k in sorted(inits, key=repr)]
    if limit and rng:
        if len(al) > limit:
            al = rng.sample(al, limit)
        if len(il) > limit:
            il = rng.sample(il, limit)
    out = []
    for st in al:
        out.append({"kind": "act", "variant": variant, "full": st})
    for st in il:
        out.append({"kind": "init", "variant": variant, "full": st})
    return out


def beh_case(variant, behaviour):
    return {"kind": "beh", "variant": variant, "steps": behaviour}


# ------------------------------------------------------------------ driver

_tb_cache = {}


def build_driver(ctx):
    if ctx.scratch not in _tb_cache:
        tb = goharness.overlay_test_build(ctx, "boot", [OVERLAY])
        # osutil.IsTestBinary() (guards boot.MockInitramfsReboot etc.) wants argv[0] to look like a binary in go's
        # build dir: ^.*/.*go-build.*/.*\.test$
        d = os.path.join(ctx.subdir("go-build-c17"), "b")
        os.makedirs(d)
        dst = os.path.join(d, "boot.test")
        shutil.copy2(tb, dst)
        _tb_cache[ctx.scratch] = dst
    return _tb_cache[ctx.scratch]


def _run_driver_chunk(ctx, tb, cases, name):
    d = ctx.subdir("drv_" + name)
    cp = os.path.join(d, "cases.ndjson")
    op = os.path.join(d, "out.ndjson")
    common.write_ndjson(cp, cases)
    rc, o = goharness.run_test_bin(ctx, tb, "^TestVerifBootTry$", env={"VERIF_CASES": cp, "VERIF_OUT": op},
                                   cwd=os.path.join(common.REPO, "boot"), timeout=1500)
    goharness.check_driver(rc, o, "boottry driver (%s)" % name)
    if not os.path.exists(op):
        raise InfraError("boottry driver wrote no output\n%s" % common.tail(o, 20))
    return common.read_ndjson(op)


def run_driver(ctx, cases, name, procs=1):
    """Run the real code on the cases (optionally split over several driver processes); returns output events."""
    tb = build_driver(ctx)
    for i, c in enumerate(cases):
        c["id"] = i
    if procs <= 1 or len(cases) < 400:
        return _run_driver_chunk(ctx, tb, cases, name)
    import concurrent.futures as cf
    n = (len(cases) + procs - 1) // procs
    chunks = [cases[i:i + n] for i in range(0, len(cases), n)]
    with cf.ThreadPoolExecutor(max_workers=procs) as ex:
        outs = list(ex.map(lambda a: _run_driver_chunk(ctx, tb, a[1], "%s_%d" % (name, a[0])), enumerate(chunks)))
    return [e for o in outs for e in o]


def case_key(case):
    if case["kind"] == "beh":
        return "%s behaviour" % case["variant"]
    f = case["full"]
    if case["kind"] == "act":
        return "%s %s(%d) from %s" % (case["variant"], f["act"]["name"], f["act"]["arg"], fmt_disk(f["d"]))
    return "%s initramfs(%s%s) on %s pres=%s/%s" % (case["variant"], f["boot"]["phase"],
                                                    ",cmdline trying" if f["boot"]["cmdtrying"] else "",
                                                    fmt_disk(f["d"]), f["pres"]["k"], f["pres"]["b"])


class Deviation:
    """A real step that is not the spec's step. NOT yet a verdict: classify() decides with the statement oracle."""

    def __init__(self, case, kind, why, real=None, rejected=None):
        self.case = case          # the act / init case (reachable spec state + action / initramfs entry)
        self.kind = kind          # write-order | initramfs | inuse | error | trace
        self.why = why
        self.real = real or []    # act: [(op, post-state)] of the REAL call, in order
        self.rejected = rejected

    def ident(self):
        return (self.kind, case_key(self.case))


def expected_writes(full):
    d = dict(full["d"])
    out = []
    for w in full["act"]["ws"]:
        d = dict(d)
        d.update(w["upd"])
        out.append((w["op"], d))
    return out


def _norm(d):
    d = dict(d)
    d["ck"] = list(d.get("ck") or [])
    return d


def expected_inuse(variant, d):
    k = {d["kcur"]} | ({d["ktry"]} if d["ktry"] else set())
    b = {d["bcur"]} | ({d["btry"]} if d["btry"] and (variant == "UC16" or d["bst"] != "") else set())
    return sorted(k), sorted(b)


def selectable(variant, d):
    k = {d["kcur"]} | ({d["ktry"]} if d["kst"] != "" and d["ktry"] else set())
    st = d["kst"] if variant == "UC16" else d["bst"]
    b = {d["bcur"]} | ({d["btry"]} if st == "try" and d["btry"] else set())
    return k, b


def direct_deviations(variant, cases, events):
    """Python-side comparison of EVERY act case with the plan TLC computed (write kinds, every intermediate state,
    boot.InUse, errors). Finds all deviating cases at once (TLC trace validation stops at the first per run)."""
    by = {}
    for e in events:
        if e.get("ev") in ("W", "End", "Err", "InUse"):
            by.setdefault(e["case"], []).append(e)
    devs = []
    for c in cases:
        if c["kind"] != "act":
            continue
        ev = by.get(c["id"], [])
        full = c["full"]
        real = [(e["op"], _norm(e["st"])) for e in ev if e["ev"] == "W"]
        errs = [e for e in ev if e["ev"] == "Err"]
        exp = [(op, _norm(st)) for op, st in expected_writes(full)]
        iu = [e for e in ev if e["ev"] == "InUse"]
        if iu:
            ek, eb = expected_inuse(variant, full["d"])
            rk = sorted(r for r in iu[0]["k"] if r <= 3)
            rb = sorted(r for r in iu[0]["b"] if r <= 3)
            if (rk, rb) != (ek, eb):
                devs.append(Deviation(c, "inuse", "boot.InUse says kernel %s base %s, spec %s %s" % (rk, rb, ek, eb),
                                      rejected=iu[0]))
        if errs:
            devs.append(Deviation(c, "error", "real call failed / prefix cross-check: %s" % errs[0].get("msg"), real=real,
                                  rejected=errs[0]))
        elif real != exp:
            devs.append(Deviation(c, "write-order", "spec plan %s, real writes %s" % ([o for o, _ in exp], [o for o, _ in real]),
                                  real=real))
        elif not any(e["ev"] == "End" for e in ev):
            devs.append(Deviation(c, "error", "no End event", real=real))
    return devs


def validate_events(ctx, variant, cases, events, name, skip=(), max_rounds=6, chunk=15000):
    """I->T: TLC checks the recorded events against TraceBootTry (cases in `skip` are left out: already known to
    deviate). Returns (deviations, n_cases_accepted, n_lines)."""
    devs = []
    bad = set(skip)
    tev = [e for e in events if e.get("ev") not in ("Beh", "Pipe")]
    chunks, cur, last = [], [], None
    for e in tev:
        if e["case"] != last and len(cur) >= chunk:
            chunks.append(cur)
            cur = []
        cur.append(e)
        last = e["case"]
    if cur:
        chunks.append(cur)
    n_lines = 0
    for ci, chunk_ev in enumerate(chunks):
        for rnd in range(max_rounds):
            lines = [e for e in chunk_ev if e["case"] not in bad]
            if not lines:
                break
            p = os.path.join(ctx.subdir("trace_%s_%d" % (name, ci)), "trace.ndjson")
            common.write_ndjson(p, lines)
            tv = tlc.validate_trace(ctx, "TraceBootTry", TRACE_CFG[variant], p, timeout=1500,
                                    name="tv_%s_%d_%d" % (name, ci, rnd))
            if tv["accepted"]:
                n_lines += len(lines)
                break
            ln = tv["stuck_line"]
            ev = lines[min(max(ln, 1), len(lines)) - 1]
            c = cases[ev["case"]]
            mine = [e for e in lines if e["case"] == ev["case"]]
            what = "invariant %s violated by the real step" % tv["invariant"] if tv["invariant"] else \
                "real step is not a step of the spec"
            kind = "initramfs" if c["kind"] == "init" else "trace"
            devs.append(Deviation(c, kind, "%s; rejected event %s" % (what, json.dumps(ev, sort_keys=True)[:300]),
                                  real=[(e["op"], _norm(e["st"])) for e in mine if e["ev"] == "W"], rejected=ev))
            bad.add(ev["case"])
    ncases = len({e["case"] for e in tev} - bad)
    return devs, ncases, n_lines


def _allowed(full):
    h = full["h"]
    gk, gb = set(h["goodk"]), set(h["goodb"])
    if full["act"]["name"] == "Mark":      # the combination that is running reached snapd: it is what Mark declares good
        gk.add(full["boot"]["rk"])
        gb.add(full["boot"]["rb"])
    ak = gk | ({h["trialk"]} - {0})
    ab = gb | ({h["trialb"]} - {0})
    return gk, gb, ak, ab


def _judge(pipe, ak, ab, excused):
    """Statement on what the real pipeline did: -> None | (clause, text)."""
    p1, p2 = pipe.get(1), pipe.get(2)
    for p, what in ((p1, "every boot attempt works"), (p2, "boots of revisions under trial fail")):
        if p is None:
            continue
        if p["end"] == "halt" and not excused:
            return "NeverStuck", "boot stops: %s (%s)" % (p["boots"][-1].get("msg"), what)
        if p["end"] == "loop":
            return "FallbackWorks", "no known-good boot within 8 attempts: %s (%s)" % ([b["res"] for b in p["boots"]], what)
    if p1 and p1["end"] == "ok":
        b = p1["boots"][-1]
        if b["rk"] not in ak or b["rb"] not in ab or b["mk"] != b["rk"]:
            return "OnlyGoodOrTried", "boots kernel image %d (kernel snap %d) + base %d; known-good or under trial: kernel %s base %s" % (
                b["rk"], b["mk"], b["rb"], sorted(ak), sorted(ab))
    return None


def _allowed_after(full):
    """Known-good / intended revisions once the action has COMPLETED (the spec's End effects on the history)."""
    h = full["h"]
    a = full["act"]
    d = full["d"]
    gk, gb = set(h["goodk"]), set(h["goodb"])
    tk, tb = h["trialk"], h["trialb"]
    if a["name"] == "Mark":
        gk.add(full["boot"]["rk"])
        gb.add(full["boot"]["rb"])
        tk = tb = 0
    elif a["name"] == "UndoK" or (a["name"] == "SetNextK" and a["arg"] == d["kcur"]):
        tk = 0
    elif a["name"] == "UndoB" or (a["name"] == "SetNextB" and a["arg"] == d["bcur"]):
        tb = 0
    return gk, gb, gk | ({tk} - {0}), gb | ({tb} - {0})


def continuation_cases(variant, cases, events):
    """One pipe case per act case whose real call returned: clean reboot from the REAL final state, real initramfs,
    real MarkBootSuccessful (and the same with every boot of a not-known-good revision failing)."""
    last, done = {}, set()
    for e in events:
        if e.get("ev") == "W":
            last[e["case"]] = _norm(e["st"])
        elif e.get("ev") == "End":
            done.add(e["case"])
    out = []
    for c in cases:
        if c["kind"] != "act" or c["id"] not in done:
            continue
        full = c["full"]
        gk, gb, _, _ = _allowed_after(full)
        out.append({"kind": "pipe", "variant": variant, "d": last.get(c["id"], _norm(full["d"])), "pres": full["pres"],
                    "start": "fw", "cmdtrying": False, "rk": 0, "goodk": sorted(gk), "goodb": sorted(gb),
                    "reboot": True, "mark": True, "_of": c["id"]})
    return out


def judge_continuation(full, pipe):
    """-> None | (clause, text): statement on reboot [-> MarkBootSuccessful] after the completed real action."""
    gk, gb, ak, ab = _allowed_after(full)
    j = _judge(pipe, ak, ab, excused=False)
    if j:
        return j
    a = full["act"]
    for n, p in sorted(pipe.items()):
        what = "every boot attempt works" if n == 1 else "boots of revisions under trial fail"
        if p["end"] != "ok":
            continue
        b = p["boots"][-1]
        f = p["final"]
        okk, okb = (ak, ab) if n == 1 else (gk, gb)
        if p.get("mark_err"):
            return "GoodOnlyAfterMark", "MarkBootSuccessful fails after the reboot: %s (%s)" % (p["mark_err"], what)
        if f["kcur"] not in okk or f["bcur"] not in okb:
            return "GoodOnlyAfterMark", ("after reboot + MarkBootSuccessful the fallback pointers are kernel %d base %d; known-good or "
                                         "intended: kernel %s base %s (%s)" % (f["kcur"], f["bcur"], sorted(okk), sorted(okb), what))
        if a["name"] == "UndoK" and (b["rk"] != a["arg"] or f["kcur"] != a["arg"]):
            return "FallbackWorks", "undo to kernel %d, but the device boots %d and commits %d (%s)" % (a["arg"], b["rk"], f["kcur"], what)
        if a["name"] == "UndoB" and (b["rb"] != a["arg"] or f["bcur"] != a["arg"]):
            return "FallbackWorks", "undo to base %d, but the device boots %d and commits %d (%s)" % (a["arg"], b["rb"], f["bcur"], what)
    return None


def classify(ctx, variant, devs, name, cont=None):
    """Statement oracle for deviations (FRAMEWORK soundness rule 1): a real step that differs from the spec is a
    VIOLATION only if the real prefix / resulting states break the property statement when the REAL initramfs code
    (+ firmware table) boots from them; otherwise it is an unexplained deviation (spec or harness to be triaged)."""
    violations, unexplained = [], []
    pipes = []          # (deviation, label, case dict)
    cont_broken = {}
    seen = set()
    uniq = []
    for dv in devs:
        if dv.ident() in seen:
            continue
        seen.add(dv.ident())
        uniq.append(dv)
    for dv in uniq:
        full = dv.case["full"]
        gk, gb, ak, ab = _allowed(full)
        if dv.kind == "inuse":
            sk, sb = selectable(variant, full["d"])
            rk, rb = set(dv.rejected["k"]), set(dv.rejected["b"])
            if not sk <= rk or not sb <= rb:
                violations.append(Violation(
                    key="%s boot.InUse leaves a selectable revision unprotected (kst=%s bst=%s)" % (variant, full["d"]["kst"] or '""', full["d"]["bst"] or '""'),
                    desc="%s: %s; the pipeline can select kernel %s base %s from this state, so snapstate may garbage-collect "
                         "a revision the next boot needs (InUseProtects / 'boot never stops')" % (case_key(dv.case), dv.why, sorted(sk), sorted(sb)),
                    replay={"case": dv.case, "event": dv.rejected}))
            else:
                unexplained.append(dv)
            continue
        if dv.case["kind"] == "act":
            states = [("before the first write", _norm(full["d"]))] + \
                     [("after real write #%d (%s)" % (i + 1, op), st) for i, (op, st) in enumerate(dv.real)]
            for k, (label, st) in enumerate(states[1:], 1):
                pipes.append((dv, k, label, {"kind": "pipe", "variant": variant, "d": st, "pres": full["pres"], "start": "fw",
                                             "cmdtrying": False, "rk": 0, "goodk": sorted(gk), "goodb": sorted(gb)}))
            cb = (cont or {}).get(dv.case.get("id"))
            if cb and cb["case"] is dv.case:
                cont_broken[dv.ident()] = (dv, len(dv.real), "continuation", cb["pipe_case"], cb["judgement"], cb["pipe"])
            elif len(states) == 1:
                unexplained.append(dv)
        else:
            b = full["boot"]
            pipes.append((dv, 0, "initramfs entry", {"kind": "pipe", "variant": variant, "d": _norm(full["d"]), "pres": full["pres"],
                                                     "start": b["phase"], "cmdtrying": b["cmdtrying"], "rk": b["rk"],
                                                     "goodk": sorted(gk), "goodb": sorted(gb)}))
    if pipes or cont_broken:
        res = {}
        if pipes:
            pcs = [p[3] for p in pipes]
            out = run_driver(ctx, pcs, "pipe_" + name, procs=2)
            for e in out:
                if e.get("ev") == "Pipe":
                    res.setdefault(e["case"], {})[e["pass"]] = e
        broken = {}
        for (dv, k, label, pc) in pipes:
            full = dv.case["full"]
            _, _, ak, ab = _allowed(full)
            j = _judge(res.get(pc["id"], {}), ak, ab, excused=bool(full["h"].get("win")))
            if j and dv.ident() not in broken:
                broken[dv.ident()] = (dv, k, label, pc, j, res.get(pc["id"]))
        for k_, v_ in cont_broken.items():
            broken.setdefault(k_, v_)
        groups = {}
        for dv in uniq:
            if dv.kind == "inuse" or (dv.case["kind"] == "act" and not dv.real and dv.ident() not in broken):
                continue
            hit = broken.get(dv.ident())
            if not hit:
                if dv not in unexplained and dv.kind != "probe":
                    unexplained.append(dv)
                continue
            _, k, label, pc, (clause, text), pr = hit
            full = dv.case["full"]
            if dv.case["kind"] == "act" and label == "continuation":
                gkey = "%s %s real-writes=%s then reboot+mark breaks %s" % (variant, full["act"]["name"],
                                                                          ",".join(o for o, _ in dv.real) or "none", clause)
                desc = ("%s: %s. The real call leaves %s; clean reboot, real initramfs code and real MarkBootSuccessful from "
                        "there: %s. Statement clause: %s." % (case_key(dv.case), dv.why, fmt_disk(pc["d"]), text, clause))
            elif dv.case["kind"] == "act":
                gkey = "%s %s real-writes=%s power-loss@%d breaks %s" % (variant, full["act"]["name"],
                                                                        ",".join(o for o, _ in dv.real), k, clause)
                desc = ("%s: %s. Power loss %s leaves the REAL state %s; booting it with the real initramfs code: %s. "
                        "Statement clause: %s." % (case_key(dv.case), dv.why, label, fmt_disk(pc["d"]), text, clause))
            else:
                gkey = "%s initramfs deviation breaks %s: %s" % (variant, clause, fmt_disk(full["d"]))
                desc = "%s: %s. Real pipeline from this state: %s. Statement clause: %s." % (case_key(dv.case), dv.why, text, clause)
            g = groups.setdefault(gkey, {"n": 0, "desc": desc, "replay": {"case": dv.case, "real_writes": dv.real,
                                                                         "stuck_prefix_state": pc["d"], "pipeline": pr}})
            g["n"] += 1
        for gkey, g in sorted(groups.items()):
            vv = Violation(key=gkey, desc="%s [%d reachable (state, action) cases of this kind]" % (g["desc"], g["n"]),
                           replay=g["replay"])
            vv.count = g["n"]
            violations.append(vv)
    return violations, unexplained


def beh_divergences(cases, events):
    """T->I behaviour replays: verdict lines of the driver -> (divergences, n_ok, real_calls). A divergence is mapped
    back to the act / init case it belongs to so that it is classified by the same statement oracle."""
    out = []
    ok = 0
    real_calls = 0
    for e in events:
        if e.get("ev") != "Beh":
            continue
        if e["ok"]:
            ok += 1
            real_calls += e.get("real_calls", 0)
            continue
        c = cases[e["case"]]
        steps = c["steps"]
        i = e["step"]
        derived = None
        if steps[i]["action"] in ("Step", "End") or steps[i]["action"] in ACTIONS + ("SetNextKStale16", "SetNextBStale16"):
            j = i
            while j > 0 and steps[j]["vars"]["act"]["pc"] != 0:
                j -= 1
            while j > 0 and steps[j]["vars"]["act"]["name"] == "idle":
                j -= 1
            if steps[j]["vars"]["act"]["name"] != "idle" and steps[j]["vars"]["act"]["pc"] == 0:
                derived = {"kind": "act", "variant": c["variant"], "full": steps[j]["vars"]}
        elif steps[i]["action"] in ("InitNs", "InitBase", "InitKernel"):
            j = i - 1
            while j > 0 and steps[j]["vars"]["boot"]["phase"] not in ("ins", "ibase"):
                j -= 1
            while j > 0 and steps[j - 1]["vars"]["boot"]["phase"] == "ins":
                j -= 1
            if steps[j]["vars"]["boot"]["phase"] in ("ins", "ibase"):
                derived = {"kind": "init", "variant": c["variant"], "full": steps[j]["vars"]}
        out.append({"case": c, "verdict": e, "derived": derived,
                    "text": "replay of a TLC behaviour diverged at step %d (%s): %s; real %s" % (
                        i, e["action"], e["msg"], json.dumps(e.get("got"))[:200])})
    return out, ok, real_calls


def check_cases(ctx, variant, cases, name, procs=1, trace=True):
    """All oracles for a set of act / init cases: real execution, direct comparison, TLC trace validation, statement
    oracle for whatever deviates. -> dict(violations, unexplained, ncases, nlines, events)"""
    events = run_driver(ctx, cases, name, procs=procs)
    devs = direct_deviations(variant, cases, events)
    skip = {dv.case["id"] for dv in devs}
    ncases = nlines = 0
    if trace:
        tdevs, ncases, nlines = validate_events(ctx, variant, cases, events, name, skip=skip)
        devs += tdevs
        if any(dv.kind == "initramfs" for dv in tdevs):
            # TLC stops at the first rejection per run: look at every initramfs case directly
            have = {dv.ident() for dv in devs}
            for c in cases:
                if c["kind"] == "init":
                    dv = Deviation(c, "probe", "initramfs cases of this configuration deviate; direct statement check")
                    if dv.ident() not in have:
                        devs.append(dv)
    # continuation oracle on EVERY completed act case: what the device does after the real call (reboot -> real initramfs
    # -> real MarkBootSuccessful) must satisfy the statement w.r.t. the history of that case
    cont = {}
    ccases = continuation_cases(variant, cases, events)
    byid = {c["id"]: c for c in cases}
    if ccases:
        of = [pc.pop("_of") for pc in ccases]
        out = run_driver(ctx, ccases, "cont_" + name, procs=procs)
        res = {}
        for e in out:
            if e.get("ev") == "Pipe":
                res.setdefault(e["case"], {})[e["pass"]] = e
        for pc, cid in zip(ccases, of):
            c = byid[cid]
            j = judge_continuation(c["full"], res.get(pc["id"], {}))
            if j:
                cont[cid] = {"case": c, "pipe_case": pc, "judgement": j, "pipe": res.get(pc["id"])}
    v, un = classify(ctx, variant, devs, name, cont=cont) if devs else ([], [])
    # a continuation that breaks the statement although the real call itself followed the spec
    devids = {id(dv.case) for dv in devs}
    groups = {}
    for cid, cb in cont.items():
        if id(cb["case"]) in devids:
            continue
        full = cb["case"]["full"]
        clause, text = cb["judgement"]
        g = groups.setdefault("%s %s then reboot+mark breaks %s" % (variant, full["act"]["name"], clause),
                              {"n": 0, "desc": "%s: the real call leaves %s; clean reboot, real initramfs code and real MarkBootSuccessful "
                                               "from there: %s. Statement clause: %s." % (case_key(cb["case"]), fmt_disk(cb["pipe_case"]["d"]), text, clause),
                               "replay": {"case": cb["case"], "pipeline": cb["pipe"]}})
        g["n"] += 1
    for gkey, g in sorted(groups.items()):
        vv = Violation(key=gkey, desc="%s [%d reachable (state, action) cases of this kind]" % (g["desc"], g["n"]), replay=g["replay"])
        vv.count = g["n"]
        v.append(vv)
    return {"violations": v, "unexplained": un, "ncases": ncases, "nlines": nlines, "events": events, "ndev": len(devs),
            "ncont": len(ccases)}


# ------------------------------------------------------------------ grub.cfg

def _grub_rules(text):
    """Extract the rule table of the if/elif chain on $kernel_status. Everything else in the file is ignored."""
    lines = [l.strip() for l in text.split("\n")]
    lines = [l for l in lines if l and not l.startswith("#")]
    default_kernel = None
    rules = {}
    cur = None
    in_chain = False
    menu0 = None
    menus = []
    for l in lines:
        m = re.match(r'^(if|elif) \[ (.*) \]; then$', l)
        if m and "kernel_status" in m.group(2):
            cond = m.group(2)
            mm = re.match(r'^"\$kernel_status" = "([a-z]*)"$', cond)
            if mm:
                key = mm.group(1) if mm.group(1) else "empty"
            elif cond == '-n "$kernel_status"':
                key = "other"
            else:
                key = "?" + cond
            if m.group(1) == "if":
                in_chain = True
            if not in_chain:
                key = "!elif-outside-chain " + key
            cur = {"newst": None, "save": False, "kernel": None, "fallback": False}
            rules[key] = cur
            continue
        if in_chain and l == "fi":
            in_chain = False
            cur = None
            continue
        if in_chain and l == "else":
            cur = {"newst": None, "save": False, "kernel": None, "fallback": False}
            rules["else"] = cur
            continue
        m = re.match(r'^set kernel=(\S+)$', l)
        if m:
            if cur is not None:
                cur["kernel"] = m.group(1)
            elif default_kernel is None and not menus:
                default_kernel = m.group(1)
            continue
        if cur is not None:
            m = re.match(r'^set kernel_status="?([a-z]*)"?$', l)
            if m:
                cur["newst"] = m.group(1)
            elif l == "save_env kernel_status":
                cur["save"] = True
            elif re.match(r'^set fallback=1$', l):
                cur["fallback"] = True
        m = re.match(r'^menuentry "(.*)" \{$', l)
        if m:
            menus.append({"title": m.group(1), "body": []})
            continue
        if menus and l != "}":
            menus[-1]["body"].append(l)
    table = {}
    for key in ("try", "trying", "other"):
        r = rules.get(key)
        if r is None:
            table[key] = None
            continue
        table[key] = {"newst": r["newst"] if r["save"] and r["newst"] is not None else key if key != "other" else "?",
                      "save": r["save"], "kernel": r["kernel"] or default_kernel, "fallback": r["fallback"]}
    # no branch matches the empty status: nothing saved, default kernel
    table["empty"] = {"newst": "", "save": False, "kernel": default_kernel, "fallback": False} \
        if "empty" not in rules else {"newst": rules["empty"]["newst"], "save": rules["empty"]["save"],
                                      "kernel": rules["empty"]["kernel"] or default_kernel,
                                      "fallback": rules["empty"]["fallback"]}
    extra = sorted(k for k in rules if k not in ("try", "trying", "other", "empty"))
    boots_kernel_var = bool(menus) and any(re.search(r'chainloader \$prefix/\$kernel\b', b) for b in menus[0]["body"])
    fallback_reboots = len(menus) > 1 and "reboot" in menus[1]["body"]
    return {"table": table, "extra_branches": extra, "entry0_boots_kernel_var": boots_kernel_var,
            "entry1_reboots": fallback_reboots}


def check_grub_cfg(ctx):
    """(3) compare the asset with the spec's firmware table. Returns (violations, summary)."""
    out = os.path.join(ctx.subdir("grubtab"), "tab.json")
    res = tlc.run(ctx, "BootTryTab", "BootTryTab.cfg", workers=1, env={"VERIF_OUT": out}, timeout=300)
    if not res.ok or not os.path.exists(out):
        raise InfraError("BootTryTab export failed: %s\n%s" % (res.summary(), common.tail(res.out, 20)))
    with open(out) as f:
        spec = json.load(f)
    p = os.path.join(common.REPO, "bootloader", "assets", "data", "grub.cfg")
    with open(p) as f:
        text = f.read()
    with open(os.path.join(common.REPO, "bootloader", "assets", "grub_cfg_asset.go")) as f:
        gen = f.read()
    i = gen.find("registerInternal(")
    gen_text = bytes(int(x, 16) for x in re.findall(r'0x([0-9a-fA-F]{2})', gen[i:])).decode("utf-8", "replace")
    vs = []
    summ = {}
    for what, t in (("bootloader/assets/data/grub.cfg", text), ("bootloader/assets/grub_cfg_asset.go", gen_text)):
        r = _grub_rules(t)
        summ[what] = r
        for st in ("try", "trying", "empty", "other"):
            if r["table"].get(st) != spec[st]:
                vs.append(Violation(key="grub.cfg kernel_status rule %r (%s)" % (st, what),
                                    desc="%s: firmware rule for kernel_status=%s is %s, the try-boot protocol (BootTry!GrubRule) "
                                         "needs %s" % (what, st, r["table"].get(st), spec[st]),
                                    replay={"file": what, "extracted": r, "spec": spec}))
        if r["extra_branches"]:
            vs.append(Violation(key="grub.cfg kernel_status extra branch (%s)" % what,
                                desc="%s has branches on kernel_status unknown to the spec: %s" % (what, r["extra_branches"]),
                                replay={"file": what, "extracted": r}))
        if not r["entry0_boots_kernel_var"] or not r["entry1_reboots"]:
            vs.append(Violation(key="grub.cfg menu entries (%s)" % what,
                                desc="%s: default entry must chainload $prefix/$kernel and the fallback entry must reboot: %s" % (what, r),
                                replay={"file": what, "extracted": r}))
    return vs, {"spec_table": spec, "extracted": summ["bootloader/assets/data/grub.cfg"]["table"]}


# ------------------------------------------------------------------ TLC helpers

def mc(ctx, cfg, *, dump=False, coverage=False, workers=4, timeout=1500, heap=None, name=None):
    extra = []
    dpath = None
    if dump:
        dpath = os.path.join(ctx.subdir("dump"), "states")
        extra = ["-dump", dpath]
    res = tlc.run(ctx, "BootTry", cfg, workers=workers, coverage=coverage, timeout=timeout, extra_args=extra,
                  heap=heap, name=name or ("mc_" + cfg.replace(".cfg", "")))
    return res, dpath


def to_steps(trace):
    """tlaparse states -> steps for the Go replay (sets are already sorted lists)."""
    return [{"action": re.sub(r"\(.*\)$", "", s["action"] or "Init"), "vars": s["vars"]} for s in trace]
