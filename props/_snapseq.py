"""Shared machinery for C10-C13 (spec SnapSeq.tla, trace spec TraceSnapSeq.tla, overlay harness
harness/overlay/snapstate/zz_verif_snapseq_test.go).

Verdict for property P =
  design       TLC checks P's invariants on SnapSeq (bounded-exhaustive, faults at every task / backend operation)
  conformance  the real SnapManager/TaskRunner is driven through seeded random histories + enumerated fault
               positions; every recorded step (request, each task do/fail/undo, settle) must be a step of the
               spec (TraceSnapSeq) and P's invariants are evaluated on the real projected states
  direct       P's statement is evaluated directly (python) on the real projections, independently of the spec
  strict       clauses the spec is known to violate (named deviations) are model-checked separately; the TLC
               counterexample is replayed into the real code and reported as a Violation iff it reproduces
"""
import concurrent.futures
import json
import os
import re

from lib import common, tlc, goharness
from lib.common import Result, Violation, InfraError

HARNESS = os.path.join(common.HARNESS, "overlay", "snapstate", "zz_verif_snapseq_test.go")
SNAPS = ["some-snap", "some-other-snap", "kernel"]
KERNEL = "kernel"

INVS = {
    "C10": ["C10_Restored", "C10_BlockRestored"],
    "C11": ["C11_Consistent"],
    "C12": ["C12_Retain"],
    "C13": ["C13_Revert", "C13_RevertPre"],
}
# clauses of the statement that the spec (= the code, by conformance) violates: checked separately, replayed
STRICT = {
    "C12": [("C12_InUseStrict", "SnapSeq_mc_c12strict.cfg")],
}
IRR = ("install", "refresh", "revert")
PARTIAL_DISCARD_OPS = ("remove-snap-mount-units", "remove-inhibit-lock", "remove-snap-dir")


# ----------------------------------------------------------------------------------------------- cfg handling

def _derive_cfg(ctx, base_cfg, invariants, name, drop_constraint=False):
    """copy of spec/<base_cfg> with the INVARIANTS section replaced"""
    src = open(os.path.join(common.SPEC, base_cfg)).read()
    out, skipping = [], False
    for ln in src.split("\n"):
        if ln.strip() == "INVARIANTS":
            skipping = True
            out.append("INVARIANTS")
            out.extend("    " + i for i in ["TypeOK"] + list(invariants))
            continue
        if skipping:
            if ln.startswith(" ") or ln.startswith("\t") or not ln.strip():
                continue
            skipping = False
        out.append(ln)
    d = ctx.subdir("cfg")
    p = os.path.join(d, name)
    with open(p, "w") as f:
        f.write("\n".join(out) + "\n")
    return p


def _constants_of(cfg):
    src = open(os.path.join(common.SPEC, cfg)).read()
    m = re.search(r'CONSTANTS\n(.*?)\n[A-Z_]+\n', src, re.S)
    out = {}
    if m:
        for ln in m.group(1).split("\n"):
            ln = ln.strip()
            mm = re.match(r'(\w+)\s*(=|<-)\s*(.+)', ln)
            if mm:
                out[mm.group(1)] = mm.group(3)
    return out


# ----------------------------------------------------------------------------------------------- model checking

def model_check(ctx, prop):
    # the quick config always runs with -coverage 1 (vacuity guard, per-action counts); the big one without (2x cost)
    cfgs = ["SnapSeq_mc_quick.cfg"] if ctx.quick else ["SnapSeq_mc_quick.cfg", "SnapSeq_mc_thorough.cfg"]
    if prop == "C10" and not ctx.quick:
        # (thorough only; the quick tier relies on the directed real histories d-nb-*, d-order-*, d-keep-*)
        # regression probe for the fixed RevertStatus defect (2565626): 4 operations on 2 revisions reach
        # install; refresh; revert(NotBlocked); failed refresh-to-kept, which MaxOps=3 does not
        cfgs.append("SnapSeq_mc_c10strict.cfg")
        # attributes non-default before (install+refresh with the Alt bundle: channel, devmode, ignore-validation, cohort,
        # config), a refresh that does not name them, fault after link-snap
        cfgs.append("SnapSeq_mc_c10attrs.cfg")
    if prop == "C13":
        # install + 2 refreshes + 2 reverts on 3 revisions: NotBlocked marks must accumulate across consecutive reverts
        cfgs.append("SnapSeq_mc_c13chain.cfg")
    if prop == "C12":
        # kernel on classic (retain 2), boot uses rev 1: install; refresh 2; refresh 3; refresh 4 puts an in-use
        # revision FIRST in a garbage-collection range that has a further candidate after it
        if not ctx.quick:
            cfgs.append("SnapSeq_mc_c12gc.cfg")
        # install; refresh 2; refresh 3; revert to 1; refresh to 2: two leftovers after current, target is not the last
        cfgs.append("SnapSeq_mc_c12left.cfg")
        cfgs.append(ctx.pick("SnapSeq_mc_kernel_quick.cfg", "SnapSeq_mc_kernel.cfg"))     # boot.InUse answers
    total = {"states": 0, "transitions": 0, "coverage": {}, "constants": {}, "wall": 0.0, "depth": 0}
    for base in cfgs:
        name = "%s_%s" % (prop, base)
        p = _derive_cfg(ctx, base, INVS[prop], name)
        # -coverage 1 (vacuity guard, x2 cost) on the shared quick config and the kernel configs; the big config and
        # the small probe configs (c10strict, c13chain: reachability shown by spec-level mutants, see notes) run plain
        cov = base in ("SnapSeq_mc_quick.cfg", "SnapSeq_mc_kernel_quick.cfg", "SnapSeq_mc_kernel.cfg")
        res = tlc.run(ctx, "SnapSeqMC", name, extra_files=[p], coverage=cov, workers=ctx.pick(8, 16),
                      timeout=ctx.pick(900, 3000), heap=ctx.pick("6g", "12g"), name="mc_" + base[:-4])
        if not res.ok:
            raise InfraError("spec-level counterexample in %s (%s): the spec violates %s; triage spec vs code\n%s" % (
                base, res.summary(), res.name, _behaviour_summary(res.trace)))
        if cov:
            tlc.require_coverage(res, ["Request", "StepDo", "Finish", "StepUndo", "SettleError"])
            # the failing step is reported as AnyFail (OpFaults) or StepFail (TLC expands the constant set)
            if res.coverage.get("AnyFail", (0, 0))[1] + res.coverage.get("StepFail", (0, 0))[1] == 0:
                raise InfraError("vacuity guard: no task failure was explored in %s" % base)
            for k, v in tlc.coverage_summary(res).items():
                total["coverage"][k] = total["coverage"].get(k, 0) + v
        total["states"] += res.distinct
        total["transitions"] += res.generated
        total["depth"] = max(total["depth"], res.depth)
        total["wall"] += res.wall
        total["constants"][base] = _constants_of(base)
        ctx.log("TLC %s: %d distinct / %d generated states, depth %d, %.0fs" % (base, res.distinct, res.generated, res.depth, res.wall))
    return total


def _behaviour_summary(trace):
    try:
        return json.dumps(_behaviour_to_history(trace))
    except Exception as e:  # pragma: no cover
        return "(cannot summarise behaviour: %s)" % e


def _behaviour_to_history(trace):
    """TLC counterexample (list of {"action","vars"}) -> history for the harness replay mode"""
    ops = []
    prev = None
    on_classic = False
    kernel = False
    for st in trace:
        v = st["vars"]
        chg, env, rec = v["chg"], v["env"], v["rec"]
        on_classic = bool(env.get("onClassic"))
        kernel = bool(env.get("kernel"))
        if prev is not None:
            pchg, penv, prec = prev["chg"], prev["env"], prev["rec"]
            if pchg["phase"] == "idle" and chg["phase"] == "do":
                o = dict(chg["op"])
                ops.append({"kind": o["kind"], "rev": o.get("rev", 0), "chan": o.get("chan", ""), "dev": bool(o.get("dev")),
                            "jail": bool(o.get("jail")), "cohort": o.get("cohort", ""), "leave": bool(o.get("leave")),
                            "ignv": bool(o.get("ignv")), "nb": bool(o.get("nb")), "store": bool(o.get("store")), "fk": 0, "fop": ""})
            elif pchg["phase"] == "do" and chg["phase"] == "undo":
                f = chg["fail"]
                ops[-1]["fk"] = f["idx"]
                ops[-1]["fop"] = f["mode"][3:] if f["mode"].startswith("op:") else ""
            elif pchg["phase"] == "idle" and chg["phase"] == "idle":
                if env["retain"] != penv["retain"]:
                    r = env["retain"]
                    ops.append({"kind": "setretain", "val": r["v"], "str": r["t"] == "str"})
                elif env["boot"] != penv["boot"]:
                    b = sorted(env["boot"])
                    ops.append({"kind": "setboot", "rev": b[0] if b else 0, "val": b[1] if len(b) > 1 else 0})
                elif rec["cfg"] != prec["cfg"]:
                    ops.append({"kind": "setconfig", "val": rec["cfg"]})
                elif rec["inhibited"] != prec["inhibited"]:
                    ops.append({"kind": "inhibit"})
        prev = v
    name = KERNEL if kernel else SNAPS[0]
    for o in ops:
        o["snap"] = name
    return {"id": "tlc", "onClassic": on_classic, "ops": ops}


def strict_clauses(ctx, prop, tb):
    """Model-check the clauses that the spec is known to violate; replay each counterexample on the real code."""
    out = {"checked": [], "violations": []}
    for inv, base in STRICT.get(prop, []):
        name = "%s_strict_%s" % (inv, base)
        p = _derive_cfg(ctx, base, [inv], name)
        res = tlc.run(ctx, "SnapSeqMC", name, extra_files=[p], workers=ctx.pick(4, 8), timeout=900, name="strict_" + inv)
        if res.ok:
            out["checked"].append({"invariant": inv, "holds_on_spec": True, "states": res.distinct})
            continue
        if res.kind != "invariant" or res.name != inv:
            raise InfraError("strict run for %s ended unexpectedly: %s" % (inv, res.summary()))
        hist = _behaviour_to_history(res.trace)
        log = replay(ctx, tb, [hist], "strict_" + inv)
        vs = direct_check(prop, log)
        out["checked"].append({"invariant": inv, "holds_on_spec": False, "counterexample": history_string(hist["ops"]),
                               "reproduced_on_real_code": bool(vs)})
        if not vs:
            raise InfraError("spec-level counterexample to %s does not reproduce on the real code (spec is wrong?): %s" % (
                inv, json.dumps(hist)))
        out["violations"].extend(vs)
    return out


# ----------------------------------------------------------------------------------------------- real executions

_build_cache = {}


def build(ctx):
    if ctx.scratch not in _build_cache:
        _build_cache[ctx.scratch] = goharness.overlay_test_build(ctx, "overlord/snapstate", [HARNESS])
    return _build_cache[ctx.scratch]


def _run_harness(ctx, tb, env, what):
    out = os.path.join(ctx.subdir("log_" + what), "events.ndjson")
    e = {"VERIF_OUT": out}
    e.update(env)
    rc, o = goharness.run_test_bin(ctx, tb, "TestVerifSnapSeq", env=e,
                                   cwd=os.path.join(common.REPO, "overlord/snapstate"), timeout=ctx.pick(900, 3000))
    goharness.check_driver(rc, o, "snapseq driver (%s)" % what)
    m = re.search(r'VERIF-SNAPSEQ events=(\d+) changes=(\d+) faults=(\d+) wall=([\d.]+)s', o)
    if not m:
        raise InfraError("snapseq driver printed no summary:\n%s" % common.tail(o, 20))
    stats = {"events": int(m.group(1)), "changes": int(m.group(2)), "faults": int(m.group(3)), "wall": float(m.group(4))}
    return common.read_ndjson(out), stats


def record(ctx, tb):
    return _run_harness(ctx, tb, {"VERIF_N": ctx.pick(30, 400), "VERIF_ENUM": ctx.pick(3, 25),
                                  "VERIF_LEN": ctx.pick(4, 6)}, "random")


def replay(ctx, tb, histories, what):
    d = ctx.subdir("replay_" + what)
    p = os.path.join(d, "histories.json")
    with open(p, "w") as f:
        json.dump(histories, f)
    log, _ = _run_harness(ctx, tb, {"VERIF_REPLAY": p, "VERIF_N": 0}, what)
    return log


# which directed scenarios the QUICK tier of each property replays (thorough: all of them, for every property)
DIRECTED_FOR = {
    "C10": ("d-nb-k9", "d-nb-k10", "d-nb-k12", "d-nb-k17", "d-nb-store", "d-attrs-k15", "d-keep-", "d-order-n3-t1",
            "d-order-n4-t2", "d-missingrevs-k17", "d-leftover-n5-back3-middle"),
    "C11": ("d-remove", "d-partial-discard-", "d-attrs-", "d-kernel-1", "d-nb-store", "d-missingrevs-"),
    "C12": ("d-retain-", "d-kernel-", "d-missingrevs-k17", "d-blocked", "d-leftover-"),
    "C13": ("d-reverts-", "d-blocked", "d-nb-store", "d-nb-k1", "d-order-n3-t1", "d-kernel-1", "d-remove-current-inactive"),
}


def directed_for(ctx, prop):
    hs = directed_histories()
    if ctx.quick:
        hs = [h for h in hs if h["id"].startswith(DIRECTED_FOR[prop])]
    return hs


def directed_histories():
    """Deterministic scenarios always run: the C10 RevertStatus asymmetry candidate, boot in-use, retain sweep."""
    def op(kind, snap=SNAPS[0], **kw):
        d = {"kind": kind, "snap": snap}
        d.update(kw)
        return d
    hs = []
    # failed refresh to a kept, NotBlocked revision at every task of the chain (candidate finding, DESIGN 2.8)
    for k in range(1, 21):
        hs.append({"id": "d-nb-k%d" % k, "onClassic": False, "ops": [
            op("install", rev=1), op("refresh", rev=2), op("revert", rev=1, nb=True), op("refresh", rev=2, fk=k)]})
    # same but through the store (which must be offered rev 2 because it is not blocked)
    hs.append({"id": "d-nb-store", "onClassic": False, "ops": [
        op("install", rev=1), op("refresh", rev=2), op("revert", rev=0, nb=True), op("candidates", rev=2),
        op("refresh", rev=2, store=True, fk=14), op("candidates", rev=2), op("refresh", rev=2, store=True)]})
    # blocked revision is not offered by the store, but can be asked for explicitly
    hs.append({"id": "d-blocked", "onClassic": True, "ops": [
        op("install", rev=1), op("refresh", rev=2), op("refresh", rev=3), op("revert", rev=1),
        op("candidates", rev=3), op("candidates", rev=2), op("candidates", rev=4), op("candidates", rev=1),
        op("refresh", rev=3, store=True), op("candidates", rev=2), op("revert", rev=2, nb=True), op("candidates", rev=3),
        op("revert", rev=1), op("candidates", rev=3), op("candidates", rev=2), op("refresh", rev=4, store=True)]})
    # whole-snap and single-revision removal with every backend operation of the change failing in turn
    for j in range(1, 23):
        hs.append({"id": "d-remove-j%d" % j, "onClassic": False, "ops": [
            op("install", rev=1), op("setconfig", val=2), op("refresh", rev=2), op("remove", rev=0, fj=j), op("remove", rev=0)]})
    for kk in range(1, 10):
        hs.append({"id": "d-remove1-k%d" % kk, "onClassic": True, "ops": [
            op("install", rev=3), op("remove", rev=0, fk=kk), op("enable"), op("disable", fk=kk % 5), op("remove", rev=3)]})
    # removing the current revision of a disabled snap (doDiscardSnap must pick a new current)
    hs.append({"id": "d-remove-current-inactive", "onClassic": False, "ops": [
        op("install", rev=1), op("refresh", rev=2), op("refresh", rev=3), op("revert", rev=2), op("disable"),
        op("remove", rev=2), op("enable"), op("disable"), op("remove", rev=3, fk=2), op("remove", rev=3),
        op("remove", rev=1), op("candidates", rev=2)]})
    # PartialDiscard (named deviation of SnapSeq): discard-snap of the last revision fails after the files are gone
    for fop in PARTIAL_DISCARD_OPS:
        hs.append({"id": "d-partial-discard-" + fop, "onClassic": False, "ops": [
            op("install", rev=1), op("remove", rev=0, fk=9, fop=fop), op("remove", rev=0)]})
    # every recorded attribute is switched by the failing operation (channel, confinement flags, validation flag,
    # cohort, refresh times, config) and the fault comes after link-snap
    for kk in (12, 15, 19):
        hs.append({"id": "d-attrs-k%d" % kk, "onClassic": False, "ops": [
            op("install", rev=1, chan="latest/edge", dev=True), op("setconfig", val=1), op("inhibit"),
            op("refresh", rev=2, store=True, chan="latest/stable", cohort="c1", ignv=True, jail=True, fk=kk),
            op("refresh", rev=2, store=True, chan="latest/stable", cohort="c1", ignv=True, jail=True),
            op("setconfig", val=2), op("inhibit"),
            op("revert", rev=1, dev=True, fk=min(kk, 13)), op("revert", rev=1, nb=True),
            op("refresh", rev=3, chan="latest/edge", fk=kk), op("disable"), op("enable", fk=4), op("enable")]})
    # every listed attribute NON-default before the failing operation and NOT changed by it (cohort, tracking channel,
    # confinement flag, ignore-validation, refresh-inhibited time, last-refresh time, config): refresh to a new revision
    # (by revision, and store-chosen) and to a kept revision, failing inside LinkSnap, on link-snap entry and later
    for tag, fl, coh, chan in (("dev", {"dev": True}, "c1", "latest/edge"), ("jail", {"jail": True}, "c2", "latest/edge")):
        keep = dict(fl, ignv=True)
        ops = [op("setretain", val=5),   # nothing is garbage-collected: revision 1 stays a kept revision throughout
               op("install", rev=1, chan=chan, **fl), op("refresh", rev=2, store=True, cohort=coh, **keep),
               op("setconfig", val=2), op("inhibit")]
        ops.append(op("refresh", rev=3, fk=11, fop="link-snap", **keep))
        for kk in (11, 12, 15, 18, 19):
            ops.append(op("refresh", rev=3, store=(kk % 2 == 0), **keep))
            ops[-1]["fk"] = kk
        ops.append(op("refresh", rev=1, fk=9, fop="link-snap", **keep))
        for kk in (9, 10, 14, 17):
            ops.append(op("refresh", rev=1, fk=kk, **keep))
        ops += [op("refresh", rev=3, chan="latest/stable", fk=16, **keep), op("revert", rev=1, fk=9, **fl),
                op("refresh", rev=3, **keep), op("candidates", rev=4)]
        hs.append({"id": "d-keep-" + tag, "onClassic": tag == "jail", "ops": ops})
    # ORDER of the kept revisions after a failed refresh to a kept revision that is >= 2 positions from the end
    # (undoLinkSnap must rotate the candidate back, not swap it): 3 and 4 kept revisions, nothing discarded
    # (retain 5), target 1 and 2, fault on link-snap itself (entry and inside LinkSnap) and at every later task;
    # failed and successful reverts in the same positions (order must not change at all)
    for n in (3, 4):
        for target in (1, 2):
            ops = [op("setretain", val=5, str=(n == 4))] + [op("install", rev=1)] + [op("refresh", rev=r) for r in range(2, n + 1)]
            ops.append(op("refresh", rev=target, fk=9, fop="link-snap"))
            for kk in range(9, 18):
                ops.append(op("refresh", rev=target, fk=kk))
            for kk in (7, 10, 13):
                ops.append(op("revert", rev=target, fk=kk))
            ops += [op("revert", rev=target), op("revert", rev=n, nb=True), op("refresh", rev=target, store=True, fk=12),
                    op("refresh", rev=target), op("refresh", rev=2 if target == 1 else 1, fk=15)]
            hs.append({"id": "d-order-n%d-t%d" % (n, target), "onClassic": n == 4, "ops": ops})
    # chains of reverts over 3 and 4 kept revisions mixing NotBlocked / default flags (NotBlocked marks of EARLIER
    # reverts must survive later reverts), RevertToRevision skipping revisions, Block()/RefreshCandidates after each step
    def cands(n):
        return [op("candidates", rev=r) for r in range(1, n + 1)]
    for n in (3, 4):
        base = [op("setretain", val=5)] + [op("install", rev=1)] + [op("refresh", rev=r) for r in range(2, n + 1)]
        chains = {
            "nbnb": [op("revert", rev=0, nb=True)] + cands(n) + [op("revert", rev=0, nb=True)] + cands(n)
                    + ([op("revert", rev=0, nb=True)] + cands(n) if n == 4 else [])
                    + [op("revert", rev=n, nb=True)] + cands(n) + [op("revert", rev=1)] + cands(n),
            "mixed": [op("revert", rev=0, nb=True), op("revert", rev=0)] + cands(n) + [op("revert", rev=n, nb=True)] + cands(n)
                     + [op("revert", rev=1, nb=True)] + cands(n) + [op("revert", rev=2)] + cands(n)
                     + [op("revert", rev=1, nb=True, fk=9), op("revert", rev=1, nb=True)] + cands(n),
            "skip": [op("revert", rev=1, nb=True)] + cands(n) + [op("revert", rev=2, nb=True)] + cands(n)
                    + [op("revert", rev=n)] + cands(n) + [op("revert", rev=n - 1, nb=True), op("revert", rev=1, nb=True)] + cands(n)
                    + [op("refresh", rev=n, store=True)] + cands(n),
        }
        for name, ch in chains.items():
            hs.append({"id": "d-reverts-n%d-%s" % (n, name), "onClassic": n == 3, "ops": base + ch})
    # 2-3 revisions left over after current (consecutive reverts / revert back by >= 2), then a refresh to the FIRST, a
    # MIDDLE, the LAST leftover and to a NEW revision, with a fault after link-snap first and then for real: all leftovers
    # other than the target must be discarded
    def left(name, n, back, target, classic=False):
        ops = [op("setretain", val=5)] + [op("install", rev=1)] + [op("refresh", rev=r) for r in range(2, n + 1)]
        ops += back
        ops += [op("refresh", rev=target, fk=15), op("refresh", rev=target, store=(target % 2 == 0)),
                op("candidates", rev=1), op("revert", rev=0), op("refresh", rev=target)]
        hs.append({"id": "d-leftover-" + name, "onClassic": classic, "ops": ops})
    left("n4-revert2x-first", 4, [op("revert", rev=0), op("revert", rev=0, nb=True)], 3)
    left("n4-back2-last", 4, [op("revert", rev=2)], 4, classic=True)
    left("n4-back2-new", 4, [op("revert", rev=2, nb=True)], 5)
    left("n5-back3-first", 5, [op("revert", rev=2)], 3, classic=True)
    left("n5-back3-middle", 5, [op("revert", rev=2, nb=True)], 4)
    left("n5-back3-last", 5, [op("revert", rev=3), op("revert", rev=2)], 5)
    left("n5-back4-middle", 5, [op("revert", rev=1)], 3)
    # failed refresh to a kept revision after older revisions were discarded in the same change
    # (old-candidate-index must be corrected by countMissingRevs)
    for kk in (17, 18, 19):
        hs.append({"id": "d-missingrevs-k%d" % kk, "onClassic": False, "ops": [
            op("setretain", val=4), op("install", rev=1), op("refresh", rev=2), op("refresh", rev=3), op("refresh", rev=4),
            op("setretain", val=2, str=True), op("refresh", rev=3, fk=kk), op("revert", rev=2), op("refresh", rev=5)]})
    # kernel, boot in-use answers
    k = KERNEL
    hs.append({"id": "d-kernel-1", "onClassic": False, "ops": [
        op("install", k, rev=1), op("refresh", k, rev=2), op("setboot", k, rev=1, val=0), op("refresh", k, rev=3),
        op("refresh", k, rev=4), op("remove", k, rev=1), op("setboot", k, rev=4, val=2), op("remove", k, rev=1),
        op("remove", k, rev=2), op("revert", k, rev=0), op("setboot", k, rev=3, val=0), op("refresh", k, rev=5),
        op("remove", k, rev=0), op("disable", k)]})
    hs.append({"id": "d-kernel-2", "onClassic": False, "ops": [
        op("setretain", val=2), op("install", k, rev=1), op("refresh", k, rev=2), op("setboot", k, rev=1, val=2),
        op("refresh", k, rev=3), op("refresh", k, rev=4, fk=18), op("refresh", k, rev=4), op("refresh", k, rev=1),
        op("setboot", k, rev=1, val=0), op("refresh", k, rev=5)]})
    # garbage collection range with an in-use revision FIRST / in the MIDDLE / LAST / two in use, and further
    # candidates after it (the in-use one must be skipped, not end the collection); retain lowered between refreshes
    hs.append({"id": "d-kernel-gc-first", "onClassic": False, "ops": [
        op("setretain", val=2), op("install", k, rev=1), op("refresh", k, rev=2), op("setboot", k, rev=1, val=0),
        op("refresh", k, rev=3), op("refresh", k, rev=4), op("refresh", k, rev=5)]})
    for name, boot in (("middle", (2, 0)), ("last", (3, 0)), ("two", (1, 3)), ("first4", (1, 0))):
        hs.append({"id": "d-kernel-gc-" + name, "onClassic": name == "two", "ops": [
            op("setretain", val=5), op("install", k, rev=1), op("refresh", k, rev=2), op("refresh", k, rev=3),
            op("refresh", k, rev=4), op("setboot", k, rev=boot[0], val=boot[1]), op("setretain", val=2, str=True),
            op("refresh", k, rev=5, fk=21), op("refresh", k, rev=5)]})
    # in-use revision after current (left over from a revert): statement clauses conflict, code discards it
    hs.append({"id": "d-kernel-aftercur", "onClassic": False, "ops": [
        op("install", k, rev=1), op("refresh", k, rev=2), op("refresh", k, rev=3), op("revert", k, rev=2),
        op("setboot", k, rev=3, val=0), op("refresh", k, rev=4)]})
    # refresh.retain: every accepted value 2..20 as number and as legacy string; the value resolution is observed
    # on every event (retainEff), the garbage collection on histories of 5 revisions
    for v in list(range(2, 21)):
        for s in (False, True):
            ops = [op("setretain", val=v, str=s), op("install", rev=1)]
            if v <= 5:
                ops += [op("refresh", rev=2), op("refresh", rev=3), op("refresh", rev=4), op("refresh", rev=5),
                        op("refresh", rev=1), op("setretain", val=0), op("refresh", rev=2)]
            else:
                ops += [op("refresh", rev=2)]
            hs.append({"id": "d-retain-%d%s" % (v, "s" if s else ""), "onClassic": v % 2 == 0, "ops": ops})
    return hs


# ----------------------------------------------------------------------------------------------- trace validation

_KEEP = ("ev", "case", "op", "ok", "tasks", "idx", "mode", "status", "boot")
_ENV_EVENTS = ("Request", "SetRetain", "SetConfig", "Inhibit", "SetBoot", "Candidates", "Panic")


def split_per_snap(log):
    """harness log (all snaps) -> {snap: [events]} in the shape TraceSnapSeq expects (st.rec = that snap)"""
    out = {n: [] for n in SNAPS}
    cur = None
    for e in log:
        target = (e.get("op") or {}).get("snap") or e.get("snap")
        for n in SNAPS:
            take = (e["ev"] in ("Reset", "SetRetain") or (e["ev"] == "SetBoot" and n == KERNEL) or target == n
                    or (e["ev"] in ("Do", "Undo", "Fail", "Unexpected") and cur == n))
            if not take:
                continue
            ee = {k: e[k] for k in _KEEP if k in e}
            st = e["st"]
            ee["st"] = {"rec": st["snaps"][n], "retain": st["retain"], "retainEff": st["retainEff"],
                        "onClassic": st["onClassic"], "kernel": n == KERNEL, "boot": st["boot"] if n == KERNEL else []}
            ee["src"] = e["_line"]
            out[n].append(ee)
        if e["ev"] == "Request":
            cur = target
    return out


def _chunks(events, maxlines):
    """split at Reset boundaries"""
    chunks, cur = [], []
    for e in events:
        if e["ev"] == "Reset" and len(cur) >= maxlines:
            chunks.append(cur)
            cur = []
        cur.append(e)
    if cur:
        chunks.append(cur)
    return chunks


def validate(ctx, prop, log, what):
    """-> (n_cases_validated, [Violation])"""
    for i, e in enumerate(log):
        e["_line"] = i + 1
    per = split_per_snap(log)
    cfg = _derive_cfg(ctx, "TraceSnapSeq.cfg", INVS[prop], "%s_TraceSnapSeq.cfg" % prop)
    d = ctx.subdir("traces_" + what)
    jobs = []
    for n, evs in per.items():
        if len(evs) <= 1:
            continue
        for ci, ch in enumerate(_chunks(evs, 12000)):
            p = os.path.join(d, "%s.%d.ndjson" % (n, ci))
            common.write_ndjson(p, ch)
            jobs.append((n, ci, p, ch))
    violations = []
    ncases = 0

    def one(job):
        n, ci, p, ch = job
        return job, tlc.validate_trace(ctx, "TraceSnapSeq", os.path.basename(cfg), p, extra_files=[cfg],
                                       timeout=ctx.pick(900, 2400), name="trace_%s_%s_%d" % (what, n, ci))
    with concurrent.futures.ThreadPoolExecutor(max_workers=ctx.pick(3, 6)) as ex:
        results = list(ex.map(one, jobs))
    for (n, ci, p, ch), tv in results:
        ncases += len({e["case"] for e in ch})
        if tv["accepted"]:
            continue
        ln = tv["stuck_line"]
        ev = ch[min(max(ln, 1), len(ch)) - 1]
        hist = history_of_case(log, ev["case"], upto_line=ev["src"])
        if tv["invariant"]:
            key = "%s:%s violated on the real state after %s: hist=%s" % (prop, tv["invariant"], _evdesc(ev), hist)
            desc = "invariant %s of SnapSeq is false on the REAL projected state (snap %s, case %s, event %s)" % (
                tv["invariant"], n, ev["case"], _evdesc(ev))
        else:
            key = "%s:real step is not a step of SnapSeq at %s: hist=%s" % (prop, _evdesc(ev), hist)
            desc = "trace of snap %s rejected at line %d (case %s, event %s): the real post-state is not what the spec allows" % (
                n, ln, ev["case"], _evdesc(ev))
        violations.append(Violation(key=key, desc=desc, replay={"case": ev["case"], "snap": n, "event": {k: v for k, v in ev.items() if k != "st"},
                                                              "real_state": ev["st"], "history": hist, "trace_file_line": ln}))
    return ncases, violations


def _evdesc(ev):
    if ev["ev"] in ("Do", "Undo", "Fail"):
        return "%s(task %d%s)" % (ev["ev"], ev["idx"], ("," + ev["mode"]) if "mode" in ev else "")
    if ev["ev"] == "Request":
        return "Request(%s)" % opstr(ev["op"])
    return ev["ev"]


def corruption_control(ctx, prop, log):
    """binding is real: corrupting one recorded field of a real trace must make validation reject"""
    per = split_per_snap(log)
    evs = per[SNAPS[0]]
    # first history that contains a completed link-snap: flip the recorded current revision of one Do event
    cut = _chunks(evs, 1)[:6]
    flat = [e for ch in cut for e in ch]
    target = None
    for i, e in enumerate(flat):
        if e["ev"] == "Do" and e["st"]["rec"]["cur"] != 0 and len(e["st"]["rec"]["seq"]) >= 1:
            target = i
            break
    if target is None:
        raise InfraError("corruption control: no suitable event in the first histories")
    bad = json.loads(json.dumps(flat))
    bad[target]["st"]["rec"]["chan"] = "corrupted/by-verif"
    cfg = _derive_cfg(ctx, "TraceSnapSeq.cfg", INVS[prop], "%s_TraceSnapSeq.cfg" % prop)
    d = ctx.subdir("corrupt")
    p = os.path.join(d, "bad.ndjson")
    common.write_ndjson(p, bad)
    tv = tlc.validate_trace(ctx, "TraceSnapSeq", os.path.basename(cfg), p, extra_files=[cfg], timeout=600, name="trace_corrupt")
    if tv["accepted"]:
        raise InfraError("corruption control: a corrupted trace was accepted (binding is not effective)")
    if tv["stuck_line"] != target + 1:
        raise InfraError("corruption control: rejected at line %s, expected %d" % (tv["stuck_line"], target + 1))
    return {"corrupted_line": target + 1, "rejected_at": tv["stuck_line"]}


# ----------------------------------------------------------------------------------------------- direct checks

def opstr(o):
    k = o["kind"]
    a = []
    if k in ("install", "refresh", "revert", "remove", "setboot", "candidates"):
        a.append(str(o.get("rev", 0)))
    if k in ("setretain", "setconfig", "setboot"):
        a.append(("s" if o.get("str") else "") + str(o.get("val", 0)))
    for f, lab in (("chan", "ch="), ("cohort", "co=")):
        if o.get(f):
            a.append(lab + o[f])
    for f in ("dev", "jail", "ignv", "leave", "nb", "store"):
        if o.get(f):
            a.append(f)
    s = "%s(%s)" % (k, ",".join(a))
    if o.get("snap") and o["snap"] != SNAPS[0]:
        s = o["snap"] + "." + s
    if o.get("fk"):
        s += "!k%d%s" % (o["fk"], (":" + o["fop"]) if o.get("fop") else "")
    elif o.get("fj"):
        s += "!j%d" % o["fj"]
    return s


def history_string(ops):
    return ";".join(opstr(o) for o in ops)


def history_of_case(log, case, upto_line=None):
    ops = []
    for e in log:
        if e["case"] != case:
            continue
        if upto_line is not None and e.get("_line", 0) > upto_line:
            break
        if "op" in e and e["ev"] in _ENV_EVENTS:
            ops.append(e["op"])
    return history_string(ops)


def changes_of(log):
    """group the log into settled changes / refused requests / environment events, per case, with history so far"""
    out = []
    cur = None
    hist = {}
    for e in log:
        c = e["case"]
        if e["ev"] == "Reset":
            hist[c] = []
            out.append({"type": "reset", "case": c, "post": e["st"], "hist": ""})
            continue
        if "op" in e and e["ev"] in _ENV_EVENTS:
            hist.setdefault(c, []).append(e["op"])
        h = history_string(hist.get(c, []))
        if e["ev"] == "Request":
            if e["ok"]:
                cur = {"type": "change", "case": c, "op": e["op"], "pre": e["st"], "tasks": e["tasks"], "events": [], "hist": h}
            else:
                out.append({"type": "refused", "case": c, "op": e["op"], "post": e["st"], "err": e.get("err", ""), "hist": h})
        elif e["ev"] in ("Do", "Undo", "Fail", "Unexpected"):
            if cur is not None:
                cur["events"].append(e)
        elif e["ev"] == "Panic":
            cur = None
        elif e["ev"] == "Settle":
            cur.update({"post": e["st"], "status": e["status"], "ops": e.get("ops") or [], "injected": e.get("injected", ""),
                        "storeBlock": e.get("storeBlock")})
            out.append(cur)
            cur = None
        else:
            out.append({"type": "env", "case": c, "op": e.get("op"), "post": e["st"], "hist": h, "ev": e["ev"], "raw": e})
    return out


def _after_current(rec):
    if rec["cur"] in rec["seq"]:
        i = len(rec["seq"]) - 1 - rec["seq"][::-1].index(rec["cur"])
        return rec["seq"][i + 1:]
    return []


def _consistent(rec):
    """C11 statement on one snap's projection -> list of violated clauses"""
    bad = []
    if rec["seq"]:
        if rec["cur"] not in rec["seq"]:
            bad.append("current-not-kept")
        if sorted(rec["mounted"]) != sorted(rec["seq"]):
            bad.append("mounted!=kept")
        if rec["active"] != (rec["linked"] == rec["cur"] and rec["cur"] != 0):
            bad.append("linked-vs-active")
        if not rec["active"] and rec["linked"] != 0:
            bad.append("inactive-but-linked")
    else:
        if rec["mounted"]:
            bad.append("removed-but-mounted")
        if rec["linked"]:
            bad.append("removed-but-linked")
        if rec["cfg"] != 0 or any(rec["revcfg"]):
            bad.append("removed-but-config")
        if rec["cur"] != 0 or rec["active"]:
            bad.append("removed-but-record")
    return bad


def _expected_retain(st):
    r = st["retain"]
    v = r["v"] if r["t"] in ("num", "str") else 0
    if v == 0:
        v = 2 if st["onClassic"] else 3
    return v


def direct_check(prop, log):
    """Evaluate the statement of `prop` on the real projections. -> [Violation] (one per class, shortest history)"""
    found = {}   # class -> (histlen, Violation, count)

    def report(cls, hist, desc, replay):
        key = "%s: hist=%s" % (cls, hist)
        n = found.get(cls, (None, None, 0))[2] + 1
        if cls not in found or len(hist) < found[cls][0]:
            found[cls] = (len(hist), Violation(key=key, desc=desc, replay=replay), n)
        else:
            found[cls] = (found[cls][0], found[cls][1], n)

    tainted = set()   # (case, snap) already reported as inconsistent (C11): report the first event only
    for ch in changes_of(log):
        t = ch["type"]
        snap = (ch.get("op") or {}).get("snap") or SNAPS[0]
        post = ch["post"]
        # frame + retain resolution, for every property (cheap sanity on the projection itself)
        if prop == "C12":
            if post["retainEff"] != _expected_retain(post):
                report("C12:refresh.retain resolved to %d for raw %s/%d onClassic=%s" % (
                    post["retainEff"], post["retain"]["t"], post["retain"]["v"], post["onClassic"]), ch["hist"],
                    "refreshRetain() returned %d" % post["retainEff"], ch)
        if prop == "C11":
            for n, rec in post["snaps"].items():
                bad = _consistent(rec)
                if bad and (ch["case"], n) not in tainted:
                    tainted.add((ch["case"], n))
                    cls = "C11:record and system disagree (%s)" % ",".join(bad)
                    if t == "change" and ch["op"]["kind"] == "remove" and ch.get("injected") in PARTIAL_DISCARD_OPS:
                        cls = ("C11:PartialDiscard: discard-snap of the last revision failed (RemoveContainerMountUnits/RemoveSnapInhibitLock/"
                               "RemoveSnapDir) after RemoveSnapFiles; the record still lists a revision that is no longer on the system")
                    report(cls, ch["hist"], "snap %s after %s: %s; record/world=%s" % (n, ch["hist"], bad, json.dumps(rec)),
                           {"case": ch["case"], "history": ch["hist"], "snap": n, "real": rec})
                elif not bad:
                    tainted.discard((ch["case"], n))
        if t == "env" and ch["ev"] == "Candidates" and prop == "C13":
            raw, r = ch["raw"], post["snaps"][snap]
            # refresh-all only considers snaps that are active and neither in devmode nor in trymode
            # (collectCurrentSnaps / addCand in storehelpers.go: "no auto-refresh for devmode", inactive and try
            # snaps are skipped); for the others nothing is demanded
            eligible = r["active"] and not r["dev"] and not r["try"]
            if r["seq"] and raw["asked"] and eligible:
                if sorted(raw["storeBlock"] or []) != sorted(r["block"]):
                    report("C13:refresh-all does not tell the store the blocked revisions", ch["hist"],
                           "store got block=%s, Block()=%s" % (raw["storeBlock"], r["block"]), ch)
                want = ch["op"]["rev"] if (ch["op"]["rev"] != r["cur"] and ch["op"]["rev"] not in r["block"]) else 0
                if raw["offered"] != want:
                    report("C13:refresh candidate %s although Block()=%s" % ("offered" if raw["offered"] else "withheld", r["block"]),
                           ch["hist"], "store has rev %d, candidate offered=%d, current=%d block=%s" % (
                               ch["op"]["rev"], raw["offered"], r["cur"], r["block"]), ch)
        if t == "refused":
            continue
        if t != "change":
            continue
        op, pre, status = ch["op"], ch["pre"], ch["status"]
        p, q = pre["snaps"][snap], post["snaps"][snap]
        # other snaps untouched
        for n in post["snaps"]:
            if n != snap and post["snaps"][n] != pre["snaps"][n]:
                report("%s:frame: change on %s modified %s" % (prop, snap, n), ch["hist"], "other snap modified", ch)
        disc = set()
        for e in ch["events"]:
            if e["ev"] == "Do" and ch["tasks"][e["idx"] - 1]["k"] == "discard-snap":
                disc.add(ch["tasks"][e["idx"] - 1]["r"])
        if prop == "C10" and status == "Error" and op["kind"] in IRR:
            diffs = []
            exp_seq = [r for r in p["seq"] if r not in disc]
            if q["seq"] != exp_seq:
                diffs.append("seq")
            for f in ("cur", "active", "chan", "dev", "jail", "classic", "try", "ignv", "cohort", "lastRefresh", "inhibited",
                      "cfg", "apend", "linked"):
                if q[f] != p[f]:
                    diffs.append(f)
            if sorted(q["mounted"]) != sorted(r for r in p["mounted"] if r not in disc):
                diffs.append("mounted")
            exp_block = [r for r in p["block"] if r not in disc]
            if sorted(q["block"]) != sorted(exp_block):
                diffs.append("block")
            if diffs:
                target = op["rev"]
                if (diffs == ["block"] and op["kind"] == "refresh" and target in p["seq"] and target in p["rstat"]
                        and sorted(q["block"]) == sorted(exp_block + [target])):
                    cls = ("C10:Block-not-restored: failed refresh to a kept revision marked NotBlocked leaves it blocked "
                           "(doLinkSnap deletes its RevertStatus entry, undoLinkSnap restores RevertStatus only for reverts)")
                else:
                    cls = "C10:not-restored after failed %s: %s" % (op["kind"], ",".join(diffs))
                report(cls, ch["hist"], "after failed %s the record differs in %s: before=%s after=%s" % (
                    opstr(op), diffs, json.dumps(p), json.dumps(q)),
                    {"case": ch["case"], "history": ch["hist"], "before": p, "after": q, "discarded": sorted(disc)})
        if prop == "C12" and status == "Done" and op["kind"] == "refresh":
            R = pre["retainEff"]
            boot = set(pre["boot"]) if snap == KERNEL else set()
            kept = set(q["seq"])
            target = op["rev"]
            bad = []
            if len(kept - boot) > max(R, len(p["seq"])):
                bad.append("more-than-before-and-retain")
            if target not in p["seq"] and len(kept - boot) > R:
                bad.append("new-revision-exceeds-retain")
            if any(r != target and r in kept for r in _after_current(p)):
                bad.append("after-current-kept")
            if target not in kept or q["cur"] != target:
                bad.append("target-not-current")
            missing = (boot & set(p["seq"])) - kept
            if missing:
                if missing <= set(_after_current(p)):
                    bad.append("in-use-after-current-discarded")
                else:
                    bad.append("in-use-discarded")
            if bad:
                cls = "C12:" + ",".join(bad)
                if bad == ["in-use-after-current-discarded"]:
                    cls = ("C12:in-use-after-current-discarded: the 'discard everything after current' loop of doInstall "
                           "does not consult boot.InUse")
                report(cls, ch["hist"], "refresh %s with retain=%d boot=%s: kept %s -> %s" % (
                    opstr(op), R, sorted(boot), p["seq"], q["seq"]),
                    {"case": ch["case"], "history": ch["hist"], "before": p, "after": q, "retain": R, "boot": sorted(boot)})
        if prop == "C13":
            if op["kind"] == "revert":
                ci = p["seq"].index(p["cur"]) if p["cur"] in p["seq"] else -1
                target = op["rev"] if op["rev"] else (p["seq"][ci - 1] if ci > 0 else 0)
                if not (target in p["seq"] and target != p["cur"] and p["active"]):
                    report("C13:revert accepted although preconditions fail", ch["hist"], "revert %s accepted on %s" % (opstr(op), json.dumps(p)), ch)
                if "copy-data" in ch["ops"] or any(tk["k"] == "copy-snap-data" for tk in ch["tasks"]):
                    report("C13:revert copies data", ch["hist"], "copy-data during revert", ch)
                if status == "Done":
                    bad = []
                    if q["seq"] != p["seq"]:
                        bad.append("order-changed")
                    if q["cur"] != target:
                        bad.append("current!=target")
                    if sorted(q["data"]) != sorted(p["data"]):
                        bad.append("data-changed")
                    nbset = (set(p["rstat"]) - {p["cur"]}) | ({p["cur"]} if op.get("nb") else set())
                    exp = [r for r in _after_current(q) if r not in nbset]
                    if sorted(q["block"]) != sorted(exp):
                        bad.append("block")
                    if bad:
                        report("C13:" + ",".join(bad), ch["hist"], "revert %s: before=%s after=%s" % (opstr(op), json.dumps(p), json.dumps(q)),
                               {"case": ch["case"], "history": ch["hist"], "before": p, "after": q})
    for e in log:
        if e["ev"] == "Panic":
            report("%s:real entry point panicked: %s" % (prop, e.get("what")), history_of_case(log, e["case"], e.get("_line")),
                   "panic in %s: %s" % (opstr(e["op"]), e.get("what")), {"case": e["case"], "op": e["op"]})
    # refused reverts: state must be unchanged and the refusal justified
    if prop == "C13":
        prev = None
        for e in log:
            if e["ev"] == "Request" and not e["ok"] and e["op"]["kind"] == "revert" and prev is not None and prev["case"] == e["case"]:
                snap = e["op"]["snap"]
                p = prev["st"]["snaps"][snap]
                if e["st"]["snaps"] != prev["st"]["snaps"]:
                    report("C13:refused revert changed state", history_of_case(log, e["case"], e.get("_line")), "state changed", e)
                ci = p["seq"].index(p["cur"]) if p["cur"] in p["seq"] else -1
                target = e["op"]["rev"] if e["op"]["rev"] else (p["seq"][ci - 1] if ci > 0 else 0)
                if target in p["seq"] and target != p["cur"] and p["active"]:
                    report("C13:valid revert refused", history_of_case(log, e["case"], e.get("_line")), e.get("err", ""), e)
            if e["ev"] == "Unexpected":
                report("C13:%s" % e.get("what"), history_of_case(log, e["case"], e.get("_line")), "unexpected", e)
            prev = e
    out = []
    for cls, (_, v, n) in sorted(found.items()):
        v.desc = "%s [%d occurrence(s) this run]" % (v.desc, n)
        out.append(v)
    return out


# ----------------------------------------------------------------------------------------------- driver

def _distinct_real_states(log):
    s = set()
    for e in log:
        for n, r in e["st"]["snaps"].items():
            if r["seq"] or r["mounted"]:
                s.add(json.dumps(r, sort_keys=True))
    return len(s)


def _relevant_counts(prop, log):
    c = {"failed_install_refresh_revert": 0, "settled_changes": 0, "successful_refreshes": 0, "successful_reverts": 0,
         "refused_reverts": 0, "refreshes_that_discarded": 0, "removes": 0}
    for ch in changes_of(log):
        if ch["type"] == "refused" and ch["op"]["kind"] == "revert":
            c["refused_reverts"] += 1
        if ch["type"] != "change":
            continue
        c["settled_changes"] += 1
        k, st = ch["op"]["kind"], ch["status"]
        if st == "Error" and k in IRR:
            c["failed_install_refresh_revert"] += 1
        if st == "Done" and k == "refresh":
            c["successful_refreshes"] += 1
            if any(t["k"] == "discard-snap" for t in ch["tasks"]):
                c["refreshes_that_discarded"] += 1
        if st == "Done" and k == "revert":
            c["successful_reverts"] += 1
        if k == "remove":
            c["removes"] += 1
    return c


VACUITY = {
    "C10": ("failed_install_refresh_revert", 20),
    "C11": ("settled_changes", 50),
    "C12": ("refreshes_that_discarded", 5),
    "C13": ("successful_reverts", 5),
}


def run(ctx, prop):
    # VERIF_SNAPSEQ_CONF_ONLY=1 (selftest convenience on a loaded machine): skip the TLC runs on the spec itself,
    # which do not depend on /repo; evidence then carries the numbers of the conformance part only.
    conf_only = bool(os.environ.get("VERIF_SNAPSEQ_CONF_ONLY"))
    if conf_only:
        mc = {"states": 1, "transitions": 1, "coverage": {}, "constants": {}, "wall": 0.0, "depth": 0}
    else:
        mc = model_check(ctx, prop)
    tb = build(ctx)
    violations = []

    strict = {"checked": [], "violations": []} if conf_only else strict_clauses(ctx, prop, tb)
    violations += strict["violations"]

    directed = directed_for(ctx, prop)
    dlog = replay(ctx, tb, directed, "directed")
    rlog, stats = record(ctx, tb)
    ctx.log("driver: %d events, %d changes, %d faults in %.0fs" % (stats["events"], stats["changes"], stats["faults"], stats["wall"]))

    alllog = dlog + rlog
    ncases, vs = validate(ctx, prop, alllog, "all")
    violations += vs
    violations += direct_check(prop, alllog)
    control = corruption_control(ctx, prop, rlog)

    counts = _relevant_counts(prop, alllog)
    what, least = VACUITY[prop]
    if counts[what] < least:
        raise InfraError("vacuity guard: only %d %s in the real executions (need %d)" % (counts[what], what, least))
    distinct = _distinct_real_states(alllog)
    if distinct < 30:
        raise InfraError("vacuity guard: only %d distinct abstract states reached by real executions" % distinct)

    # dedupe violations by key
    # one violation per class (the text before ": hist="), shortest history first
    seen, uniq = set(), []
    for v in sorted(violations, key=lambda v: len(v.key)):
        cls = v.key.split(": hist=")[0]
        if cls not in seen:
            seen.add(cls)
            uniq.append(v)

    samples = []
    for ch in changes_of(rlog):
        if ch["type"] == "change" and len(samples) < 4 and (len(ch["hist"]) > 30):
            samples.append({"history": ch["hist"], "status": ch["status"], "record_after": {k: ch["post"]["snaps"][ch["op"]["snap"]][k] for k in ("seq", "cur", "active", "block", "mounted", "linked")}})
    cov = {
        "states": mc["states"], "transitions": mc["transitions"], "tlc_depth": mc["depth"], "tlc_wall_s": round(mc["wall"], 1),
        "tlc_constants": mc["constants"], "action_coverage": mc["coverage"],
        "invariants": INVS[prop], "strict_clauses": strict["checked"],
        "traces_validated_against_impl": ncases,
        "real_events_validated": len(rlog) + len(dlog), "real_changes": stats["changes"], "real_faults_injected": stats["faults"],
        "directed_histories": len(directed),
        "distinct_abstract_states_reached_by_real_executions": distinct,
        "relevant_real_cases": counts, "corruption_control": control, "samples": samples,
    }
    return Result(level="model_checking", coverage=cov, violations=uniq, assumptions=[
        "backend is overlord/snapstate's fakeSnappyBackend (wrapped: SetupSnap/LinkSnap can fail, data directories are real); "
        "store is fakeStore; hooks and interface tasks are no-op fakes",
        "one snap per change, no concurrent changes (conflicts are C14); one injected fault per change, only in do-handlers; "
        "backend operations whose failure makes a handler Retry (remove-snap-files, discard-namespace) are not failed",
        "'task fails on entry' is produced by replicating TaskRunner.run's error branch (AbortLanes + ErrorStatus) from a blocked-predicate",
        "aliases (AutoAliases mocked empty), components, refresh to the current revision (metadata switch) and classic/try flags are not modelled; "
        "revisions 1..5",
    ])
