"""C23 shared logic: SyncDir.tla (design) + real osutil.EnsureDirState* runs judged by TraceSyncDir.tla."""
import concurrent.futures
import copy
import json
import os
import random
import re

from lib import common, tlc, goharness
from lib.common import Result, Violation, InfraError


def cfg_constants(cfg):
    """Parse `Name = {"a", "b"}` / `Name = 1` constants of a cfg in /verif/spec (single source of truth
    for the python-side case sampler)."""
    out = {}
    with open(os.path.join(common.SPEC, cfg)) as f:
        for ln in f:
            m = re.match(r'\s*(\w+)\s*=\s*\{(.*)\}\s*$', ln)
            if m:
                out[m.group(1)] = re.findall(r'"([^"]*)"', m.group(2))
                continue
            m = re.match(r'\s*(\w+)\s*=\s*(\d+)\s*$', ln)
            if m:
                out[m.group(1)] = int(m.group(2))
    return out


class Domain:
    def __init__(self, k):
        self.managed = sorted(k["Managed"])
        self.unmanaged = sorted(k["Unmanaged"])
        self.file = ["f:%s:%s" % (c, p) for c in k["Contents"] for p in k["Perms"]]
        self.link = ["l:%s" % t for t in k["LinkTargets"]]
        self.bad = ["bad:%s" % b for b in k["BadKinds"]]
        self.entry = ["none", "edir", "ndir"] + self.file + self.link
        self.utok = list(k["UnmanagedTok"])
        self.extra = sorted(k["DesExtra"])
        self.names = self.managed + self.unmanaged


def sample_case(dom, rnd, i, runs, nmanaged=None):
    """One random case of the domain.  Biased so that all result classes are frequent: entries equal to
    the desired state ("same"), one faulty entry (40%), directories in the way, reject path (3%)."""
    act = dom.managed if nmanaged is None else dom.managed[:nmanaged]
    init = {n: "none" for n in dom.names}
    des = {n: "absent" for n in dom.names}
    for n in act:
        init[n] = rnd.choice(dom.entry)
    for u in dom.unmanaged:
        init[u] = rnd.choice(dom.utok)
    for n in act:
        r = rnd.random()
        if r < 0.25:
            continue
        if r < 0.45 and init[n] in dom.file + dom.link:
            des[n] = init[n]                      # already as desired
        elif r < 0.55 and init[dom.unmanaged[0]] in dom.file:
            des[n] = init[dom.unmanaged[0]]       # same as the unmanaged file (alias case when init is l:u1)
        else:
            des[n] = rnd.choice(dom.file + dom.link)
    if rnd.random() < 0.4:
        des[rnd.choice(act)] = rnd.choice(dom.bad)
    if dom.extra and rnd.random() < 0.03:
        des[rnd.choice(dom.extra)] = rnd.choice(dom.file)
    return {"case": "c%d" % i, "init": init, "des": des, "globs": rnd.randrange(3),
            "flavour": rnd.randrange(3), "runs": runs}


def all_cases_small(dom, runs, nmanaged, rnd):
    """Exhaustive enumeration of the sub-domain with `nmanaged` managed names (others none/absent)."""
    import itertools
    act = dom.managed[:nmanaged]
    desopts = ["absent"] + dom.file + dom.link + dom.bad
    out = []
    i = 0
    for ent in itertools.product(dom.entry, repeat=len(act)):
        for ut in dom.utok:
            for dd in itertools.product(desopts, repeat=len(act)):
                if sum(1 for d in dd if d.startswith("bad:")) > 1:
                    continue
                init = {n: "none" for n in dom.names}
                des = {n: "absent" for n in dom.names}
                init.update(dict(zip(act, ent)))
                init[dom.unmanaged[0]] = ut
                des.update(dict(zip(act, dd)))
                out.append({"case": "e%d" % i, "init": init, "des": des, "globs": rnd.randrange(3),
                            "flavour": rnd.randrange(3), "runs": runs})
                i += 1
    return out


def case_key(c, o=None):
    ini = ",".join("%s=%s" % (n, c["init"][n]) for n in sorted(c["init"]) if c["init"][n] != "none")
    des = ",".join("%s=%s" % (n, c["des"][n]) for n in sorted(c["des"]) if c["des"][n] != "absent")
    s = "EnsureDirState{init:%s;want:%s" % (ini, des)
    if o is not None:
        got = ",".join("%s=%s" % (n, o["dir"][n]) for n in sorted(o["dir"]) if o["dir"][n] != "none")
        s += ";got:err=%d,%s;changed=%s;removed=%s" % (1 if o["err"] else 0, got, "+".join(o["changed"]),
                                                       "+".join(o["removed"]))
        if o.get("extra"):
            s += ";extra=%s" % "+".join(re.sub(r'\.[A-Za-z0-9]{12}~', '.<rnd>~', e) for e in o["extra"])
    return s + "}"


def run_real(ctx, binary, cases, name, test="TestVerifSyncDir", par=None):
    d = ctx.subdir(name)
    inp, outp, tmp = os.path.join(d, "cases.ndjson"), os.path.join(d, "obs.ndjson"), os.path.join(d, "tmp")
    os.makedirs(tmp)
    common.write_ndjson(inp, cases)
    # osutil's unsafe-I/O (no fsync) switch for tests is keyed on argv[0] matching .*/.*go-build.*/.*\.test
    import shutil
    gb = os.path.join(ctx.subdir("go-build"), os.path.basename(binary))
    shutil.copy2(binary, gb)
    binary = gb
    rc, o = goharness.run_test_bin(ctx, binary, test, env={"VERIF_IN": inp, "VERIF_OUT": outp, "VERIF_TMP": tmp,
                                                          "VERIF_PAR": par or ctx.pick(4, 8)}, timeout=1500)
    goharness.check_driver(rc, o, "syncdir driver")
    m = re.search(r'VERIF_EXECS=(\d+)', o)
    return common.read_ndjson(outp), int(m.group(1)) if m else 0


def tlc_judge(ctx, module, cfg, lines, nchunks, timeout=1500):
    """Split observation lines in chunks, one TLC JVM each (ASSUME evaluation is single threaded)."""
    d = ctx.subdir("judge_" + module)
    nchunks = max(1, min(nchunks, (len(lines) + 199) // 200))
    chunks = [lines[i::nchunks] for i in range(nchunks)]

    def one(i):
        tp = os.path.join(d, "obs%d.ndjson" % i)
        op = os.path.join(d, "verdict%d.json" % i)
        common.write_ndjson(tp, chunks[i])
        res = tlc.run(ctx, module, cfg, workers=1, env={"VERIF_TRACE": tp, "VERIF_OUT": op}, timeout=timeout,
                      name="judge_%s_%d" % (module, i))
        if not res.ok:
            raise InfraError("TLC judge %s failed: %s\n%s" % (module, res.summary(), common.tail(res.out, 30)))
        with open(op) as f:
            v = json.load(f)
        if len(v) != len(chunks[i]):
            raise InfraError("TLC judge returned %d verdicts for %d lines" % (len(v), len(chunks[i])))
        return v

    with concurrent.futures.ThreadPoolExecutor(max_workers=nchunks) as ex:
        vs = list(ex.map(one, range(nchunks)))
    out = [None] * len(lines)
    for i in range(nchunks):
        for j, v in enumerate(vs[i]):
            out[i + j * nchunks] = v
    return out


def strip_for_tlc(r):
    """Only the typed fields TLC reads (errmsg/extra/panic are judged on the python side)."""
    return {"case": r["case"], "init": r["init"], "des": r["des"],
            "outs": [{"dir": o["dir"], "changed": o["changed"], "removed": o["removed"], "err": bool(o["err"])}
                     for o in r["outs"]]}


def corrupted_controls(obs, rnd, n):
    """Negative controls of the binding: real observations with ONE field corrupted.  Each must be
    rejected by the spec (not a member) and by the statement predicate."""
    out = []
    pool = [r for r in obs if r["outs"] and not r["outs"][0].get("panic")]
    rnd.shuffle(pool)
    for r in pool:
        if len(out) >= n:
            break
        c = copy.deepcopy(strip_for_tlc(r))
        c["outs"] = c["outs"][:1]
        o = c["outs"][0]
        kind = len(out) % 3
        u = [k for k in o["dir"] if k.startswith("u")][0]
        if kind != 0 and any(v != "absent" and not k.startswith("m") for k, v in c["des"].items()):
            continue      # argument-check path: the statement demands nothing but "unmanaged untouched"
        if kind == 0:     # an unmanaged entry was touched
            o["dir"][u] = "none" if o["dir"][u] != "none" else "f:a:644"
        elif kind == 1:   # success outcome whose changed list lost/gained an element
            if o["err"]:
                continue
            o["changed"] = o["changed"][1:] if o["changed"] else ["m1"]
        else:             # a failed write that leaves a managed file behind
            want = [k for k, v in c["des"].items() if v.startswith("bad:")]
            if not want or not o["err"]:
                continue
            o["dir"][want[0]] = "f:a:644"
        c["base"] = c["case"]
        c["case"] = "CORRUPT%d:%s" % (kind, c["case"])
        out.append(c)
    return out
