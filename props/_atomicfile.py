"""C06 machinery: strace the real atomic-write code, map system calls to AtomicFile.tla events, validate with TLC.

Pipeline
  1. design      TLC on AtomicFile.tla: WriterSpec (intended protocol, crash at every prefix), AnySpec (universal
                 client: local discipline => crash safe), spec-level negative controls (broken writer variants MUST
                 violate; the nodirsync variant must NOT violate C06 but must violate the stronger DurableWhenDone).
  2. conformance build harness/ext/atomicwrite (package main, argv[0] does not end in .test), run it under strace,
                 parse the system calls of every case (parse_strace/build_events), write NDJSON, TLC validates it
                 against TraceAtomicFile.tla with Crash enabled after every event.
  2b. fault runs: the same driver run with ONE system call failed by `strace -e inject=<call>:error=E:when=K`
                 (fsync of the temp file / of the directory -> EIO, write -> ENOSPC, renameat -> EIO); K is taken from
                 the fault-free run (the driver pins its main goroutine to the main thread, so strace's per-thread
                 counters are deterministic); failed calls become FsyncFail/Failed events; same invariants, Crash
                 after every event.
  3. binding controls: corrupt a real recorded trace (drop the fsync, rename before fsync, fsync the wrong fd: must
                 be rejected; harmless reorderings and a dropped directory fsync: must be accepted).
"""
import concurrent.futures
import json
import os
import re
import threading

from lib import common, tlc, goharness
from lib.common import InfraError, Violation

MODULE = "AtomicFile"
TRACE_MODULE = "TraceAtomicFile"

# every system call that can change file content, directory entries or durability (superset of the list in the
# assignment: the extra ones are there so that an unexpected way of writing is noticed instead of being invisible)
SYSCALLS = ("openat,open,creat,write,pwrite64,writev,pwritev,pwritev2,copy_file_range,sendfile,splice,"
            "fsync,fdatasync,sync,syncfs,sync_file_range,close,rename,renameat,renameat2,unlink,unlinkat,"
            "fchown,fchownat,chown,lchown,utimensat,symlink,symlinkat,link,linkat,ftruncate,truncate,fallocate,"
            "dup,dup2,dup3,fcntl")

ASSUMPTIONS = [
    "file-system model (trusted base, ext4-like): fsync(fd)/fdatasync(fd) make exactly that inode's content durable; "
    "unsynced content may survive a crash as any prefix/mixture of durable and volatile content",
    "directory operations (create, rename, unlink, symlink) are atomic on the entry and reach the disk in issue order "
    "(journal); fsync(dirfd) makes them durable; rename never leaves the target name missing",
    "a directory entry may become durable BEFORE the data of the inode it names unless that data was fsynced before "
    "the rename (no reliance on ext4 auto_da_alloc / data=ordered heuristics)",
    "symlink(2) creates name and link text atomically; owner/mode/times are not content",
    "the kernel and the disk honour fsync as stated (not checked: no power is cut); strace shows every system call of "
    "the process; one directory per case (cross-directory AtomicRename is not modelled)",
    "the statement does not require New to be durable when the call returns, so a lost rename (Old survives) is "
    "allowed: the directory fsync is observed and reported but its absence alone is not a C06 violation",
    "faults (strace -e inject): a system call that returns an error has no effect; a FAILED fsync of a file makes "
    "nothing durable and marks the inode bad (its dirty pages may have been dropped: a later successful fsync of that "
    "inode proves nothing); a failed directory fsync makes nothing durable; one injected fault per run",
    "content abstraction: one chunk per write(2)/copy_file_range(2); chunk k is 'New chunk k' only if it is contiguous "
    "from offset 0 and its first bytes equal New at that offset; the driver reads the final file back",
]


# ------------------------------------------------------------------------------------------------ strace parsing

class Sys:
    __slots__ = ("pid", "name", "args", "ret", "err", "lineno", "raw")

    def __init__(self, pid, name, args, ret, err, lineno, raw):
        self.pid, self.name, self.args, self.ret, self.err, self.lineno, self.raw = pid, name, args, ret, err, lineno, raw


_LINE = re.compile(r'^(\d+)\s+(\w+)\((.*)\)\s+=\s+(-?\d+|\?|0x[0-9a-f]+)(?:\s+(.*))?$')
_UNFIN = re.compile(r'^(\d+)\s+(\w+)\((.*?)\s*<unfinished \.\.\.>$')
_RESUMED = re.compile(r'^(\d+)\s+<\.\.\. (\w+) resumed>\s*(.*)\)\s+=\s+(-?\d+|\?|0x[0-9a-f]+)(?:\s+(.*))?$')


def split_args(s):
    """Split a strace argument list on top-level commas (quotes, braces, brackets respected)."""
    out, cur, depth, i, n = [], [], 0, 0, len(s)
    while i < n:
        ch = s[i]
        if ch == '"':
            j = i + 1
            while j < n:
                if s[j] == '\\':
                    j += 2
                    continue
                if s[j] == '"':
                    break
                j += 1
            cur.append(s[i:j + 1])
            i = j + 1
            continue
        if ch in "{[(":
            depth += 1
        elif ch in "}])":
            depth -= 1
        if ch == ',' and depth == 0:
            out.append("".join(cur).strip())
            cur = []
        else:
            cur.append(ch)
        i += 1
    if cur or out:
        out.append("".join(cur).strip())
    return out


def cstr(tok):
    """Decode a strace string token "..."[...] -> (bytes, truncated). None if the token is not a string."""
    if not tok.startswith('"'):
        return None, False
    trunc = tok.endswith('...')
    body = tok[1:tok.rindex('"')]
    b = body.encode("latin-1", "replace").decode("unicode_escape").encode("latin-1", "replace")
    return b, trunc


def parse_strace(path):
    """-> list of Sys in completion order (unfinished/resumed pairs merged at the point of completion)."""
    out = []
    pending = {}
    with open(path, errors="replace") as f:
        for lineno, line in enumerate(f, 1):
            line = line.rstrip("\n")
            if "--- SIG" in line or "+++ " in line:
                continue
            if " ???(" in line or "<... ??? resumed>" in line:
                # strace could not read the syscall number: the thread was torn down (exit_group of the
                # process) at syscall entry; nothing was executed for it
                continue
            m = _UNFIN.match(line)
            if m:
                pending[m.group(1)] = (m.group(2), m.group(3))
                continue
            m = _RESUMED.match(line)
            if m:
                pid, name, rest, ret, err = m.groups()
                pn, pargs = pending.pop(pid, (name, ""))
                if pn != name:
                    raise InfraError("strace: resumed %s does not match unfinished %s (line %d)" % (name, pn, lineno))
                argstr = pargs + rest
                line_args = split_args(argstr)
                out.append(Sys(pid, name, line_args, ret, err or "", lineno, line))
                continue
            m = _LINE.match(line)
            if m:
                pid, name, argstr, ret, err = m.groups()
                out.append(Sys(pid, name, split_args(argstr), ret, err or "", lineno, line))
                continue
            if line.strip() and "exited with" not in line and "killed by" not in line:
                raise InfraError("strace: cannot parse line %d: %r" % (lineno, line[:200]))
    if pending:
        # a call that never returned (process exit): only harmless if it is not one we model
        for pid, (name, _) in pending.items():
            if name not in ("exit_group", "exit"):
                raise InfraError("strace: %s of pid %s never finished" % (name, pid))
    return out


def _ret(s):
    try:
        return int(s.ret, 0)
    except ValueError:
        return -1


MARK = "/VERIFMARK/"


class CaseTrace:
    def __init__(self, rec):
        self.rec = rec
        self.events = []        # dicts for the NDJSON file
        self.dropped = 0        # traced system calls of the window that do not touch the case directory
        self.syscalls = 0
        self.sig = []           # compact signature of the modelled calls, in order
        self.newc = []
        self.injected = []      # (syscall, strace line, mapped to an event?) of calls failed by strace fault injection


def _flags(tok):
    return set(tok.split("|"))


def build_case(rec, calls, new_bytes):
    """Map the system calls between the begin and end markers of one case to spec events."""
    ct = CaseTrace(rec)
    d = rec["dir"].rstrip("/")
    case = rec["case"]
    is_link = rec["kind"] == "symlink"
    pre_new = any(p["content"] == "new" for p in rec["pre"])
    count_writes = not is_link and not pre_new
    L = len(new_bytes)

    fdtab = {}       # fd -> dict(kind "file"/"dir", name, off (bytes written via this fd), good (int chunks), ok(bool))
    garbage = [1000]
    complete = []    # chunk counts of fds that wrote exactly New
    maxgood = [0]
    evs = ct.events

    def ev(kind, src, **kw):
        e = {"ev": kind, "case": case, "src": src.lineno}
        e.update(kw)
        evs.append(e)
        if kind in ("Open", "Rename", "Unlink"):
            ct.sig.append("%s(%s)" % (kind, ",".join(_role(kw.get(k)) for k in ("name", "from", "to") if k in kw)))
        elif kind in ("FsyncFail", "Failed", "Fsync"):
            ct.sig.append("%s(%s)" % (kind, kw.get("what")))
        else:
            ct.sig.append(kind)

    def _role(name):
        if name == rec["target"]:
            return "target"
        if name is not None and name.startswith(rec["target"] + ".") and name.endswith("~"):
            return "tmp"
        return "other" if name is not None else "?"

    def inside(path):
        """name of `path` relative to the case directory if it is a direct child, '' if it is the directory, else None"""
        p = os.path.normpath(path)
        if p == d:
            return ""
        if os.path.dirname(p) == d:
            return os.path.basename(p)
        if p.startswith(d + "/"):
            raise InfraError("case %s: system call below the case directory is not modelled: %s" % (case, path))
        return None

    def path_arg(s, dirfd_tok, path_tok):
        b, trunc = cstr(path_tok)
        if b is None:
            return None
        if trunc:
            raise InfraError("case %s: path truncated by strace: %s" % (case, s.raw[:160]))
        p = b.decode("utf-8", "replace")
        if not p.startswith("/"):
            if dirfd_tok is not None and dirfd_tok != "AT_FDCWD":
                try:
                    fd = int(dirfd_tok)
                except ValueError:
                    return None
                if fd in fdtab and fdtab[fd]["kind"] == "dir":
                    return os.path.join(d, p)
                return None
            p = os.path.join(os.getcwd(), p)   # the driver always uses absolute paths; cwd is inherited
        return p

    def unmodelled(s, why):
        raise InfraError("case %s: %s is not modelled (%s): %s" % (case, s.name, why, s.raw[:200]))

    for s in calls:
        ct.syscalls += 1
        r = _ret(s)
        n = s.name
        a = s.args
        if r < 0:
            # a call that returned an error (in fault runs: injected by strace) has no effect, except that a failed
            # fsync is an event of its own (spec D7); failed calls on other directories are dropped
            fk = None
            try:
                if n in ("fsync", "fdatasync") and int(a[0]) in fdtab:
                    fd = int(a[0])
                    ev("FsyncFail", s, fd=fd, what=fdtab[fd]["kind"], err=s.err[:60])
                    fk = True
                elif n in ("write", "pwrite64", "writev") and int(a[0]) in fdtab:
                    ev("Failed", s, what="write", err=s.err[:60])
                    fk = True
                elif n == "copy_file_range" and int(a[2]) in fdtab:
                    ev("Failed", s, what="write", err=s.err[:60])
                    fk = True
                elif n in ("rename", "renameat", "renameat2"):
                    if n == "rename":
                        p1, p2 = path_arg(s, None, a[0]), path_arg(s, None, a[1])
                    else:
                        p1, p2 = path_arg(s, a[0], a[1]), path_arg(s, a[2], a[3])
                    if (p1 and inside(p1) is not None) or (p2 and inside(p2) is not None):
                        ev("Failed", s, what="rename", err=s.err[:60])
                        fk = True
            except (ValueError, IndexError):
                pass
            if "INJECTED" in s.err:
                ct.injected.append((n, s.lineno, bool(fk)))
            if not fk:
                ct.dropped += 1
            continue
        if n in ("openat", "open", "creat"):
            if n == "openat":
                p = path_arg(s, a[0], a[1])
                fl = _flags(a[2])
            elif n == "open":
                p = path_arg(s, None, a[0])
                fl = _flags(a[1])
            else:
                p = path_arg(s, None, a[0])
                fl = {"O_CREAT", "O_WRONLY", "O_TRUNC"}
            nm = inside(p) if p is not None else None
            if nm is None:
                fdtab.pop(r, None)
                ct.dropped += 1
                continue
            if nm == "":
                fdtab[r] = {"kind": "dir", "name": ""}
                ev("OpenDir", s, fd=r)
                continue
            if "O_APPEND" in fl or "O_TMPFILE" in fl or "__O_TMPFILE" in fl:
                unmodelled(s, "O_APPEND/O_TMPFILE")
            fdtab[r] = {"kind": "file", "name": nm, "off": 0, "good": 0, "ok": True}
            ev("Open", s, fd=r, name=nm, creat="O_CREAT" in fl, excl="O_EXCL" in fl, trunc="O_TRUNC" in fl)
            continue
        if n in ("write", "copy_file_range", "sendfile", "splice", "pwrite64", "writev", "pwritev", "pwritev2"):
            if n == "write":
                fd = int(a[0])
            elif n == "copy_file_range":
                fd = int(a[2])
            elif n == "sendfile":
                fd = int(a[0])
            elif n == "splice":
                fd = int(a[2])
            else:
                fd = int(a[0])
            t = fdtab.get(fd)
            if t is None:
                ct.dropped += 1
                continue
            if t["kind"] == "dir" or n in ("pwrite64", "writev", "pwritev", "pwritev2"):
                unmodelled(s, "positional/vector write on a file of the case directory")
            if n in ("copy_file_range", "splice") and (a[3] != "NULL"):
                unmodelled(s, "explicit output offset")
            if r == 0:
                ct.dropped += 1
                continue
            data = None
            if n == "write":
                data, _ = cstr(a[1])
            off = t["off"]
            good = (count_writes and t["ok"] and off + r <= L and
                    (data is None or new_bytes[off:off + len(data)] == data))
            t["off"] = off + r
            if good:
                t["good"] += 1
                chunk = t["good"]
                maxgood[0] = max(maxgood[0], chunk)
                if t["off"] == L:
                    complete.append(chunk)
            else:
                t["ok"] = False
                garbage[0] += 1
                chunk = garbage[0]
            ev("Write", s, fd=fd, chunk=chunk, bytes=r, via=n)
            continue
        if n in ("fsync", "fdatasync"):
            fd = int(a[0])
            if fd in fdtab:
                ev("Fsync", s, fd=fd, what=fdtab[fd]["kind"])
            else:
                ct.dropped += 1
            continue
        if n in ("sync", "syncfs", "sync_file_range"):
            unmodelled(s, "global sync")
        if n == "close":
            fd = int(a[0])
            if fd in fdtab:
                del fdtab[fd]
                ev("Close", s, fd=fd)
            else:
                ct.dropped += 1
            continue
        if n in ("rename", "renameat", "renameat2"):
            if n == "rename":
                p1, p2 = path_arg(s, None, a[0]), path_arg(s, None, a[1])
            else:
                p1, p2 = path_arg(s, a[0], a[1]), path_arg(s, a[2], a[3])
                if n == "renameat2" and a[4] not in ("0", "RENAME_NOREPLACE"):
                    unmodelled(s, "renameat2 flags")
            n1 = inside(p1) if p1 else None
            n2 = inside(p2) if p2 else None
            if n1 == "" or n2 == "":
                unmodelled(s, "rename of the case directory")
            if n1 is not None and n2 is not None:
                ev("Rename", s, **{"from": n1, "to": n2})
            elif n2 is not None:
                garbage[0] += 1
                ev("RenameIn", s, name=n2, content=[garbage[0]])
            elif n1 is not None:
                ev("Unlink", s, name=n1)
            else:
                ct.dropped += 1
            continue
        if n in ("unlink", "unlinkat"):
            p = path_arg(s, None, a[0]) if n == "unlink" else path_arg(s, a[0], a[1])
            nm = inside(p) if p else None
            if nm:
                ev("Unlink", s, name=nm)
            else:
                ct.dropped += 1
            continue
        if n in ("fchown",):
            if int(a[0]) in fdtab:
                ev("Meta", s, what=n)
            else:
                ct.dropped += 1
            continue
        if n in ("fchownat", "utimensat", "chown", "lchown"):
            if n in ("chown", "lchown"):
                p = path_arg(s, None, a[0])
            elif a[1] == "NULL":
                p = None
                if a[0] != "AT_FDCWD" and int(a[0]) in fdtab:
                    p = d + "/x"
            else:
                p = path_arg(s, a[0], a[1])
            if p is not None and inside(p) is not None:
                ev("Meta", s, what=n)
            else:
                ct.dropped += 1
            continue
        if n in ("symlink", "symlinkat"):
            tgt, _ = cstr(a[0])
            p = path_arg(s, None, a[1]) if n == "symlink" else path_arg(s, a[1], a[2])
            nm = inside(p) if p else None
            if nm:
                if is_link and tgt == new_bytes:
                    content = [1]
                else:
                    garbage[0] += 1
                    content = [garbage[0]]
                ev("Symlink", s, name=nm, content=content)
            else:
                ct.dropped += 1
            continue
        if n in ("link", "linkat"):
            p = path_arg(s, None, a[1]) if n == "link" else path_arg(s, a[2], a[3])
            if p and inside(p) is not None:
                unmodelled(s, "hard link into the case directory")
            ct.dropped += 1
            continue
        if n in ("ftruncate", "fallocate"):
            fd = int(a[0])
            if fd in fdtab:
                if n == "ftruncate" and a[1] == "0":
                    fdtab[fd].update(off=0, good=0, ok=True)
                    ev("Truncate", s, fd=fd)
                else:
                    unmodelled(s, "size change")
            else:
                ct.dropped += 1
            continue
        if n == "truncate":
            p = path_arg(s, None, a[0])
            if p and inside(p) is not None:
                unmodelled(s, "truncate by path")
            ct.dropped += 1
            continue
        if n in ("dup", "dup2", "dup3") or (n == "fcntl" and len(a) > 1 and a[1].startswith("F_DUPFD")):
            if int(a[0]) in fdtab:
                unmodelled(s, "dup of a file descriptor of the case directory")
            if n in ("dup2", "dup3"):
                fdtab.pop(int(a[1]), None)
            ct.dropped += 1
            continue
        if n == "fcntl":
            ct.dropped += 1
            continue
        raise InfraError("case %s: traced system call without a mapping: %s" % (case, s.raw[:200]))

    # New as a sequence of chunk ids
    if is_link or pre_new:
        ct.newc = [1]
    elif L == 0:
        ct.newc = []
    elif complete:
        if len(set(complete)) > 1:
            raise InfraError("case %s: New was written completely through several fds with different chunking %s"
                             % (case, complete))
        ct.newc = list(range(1, complete[0] + 1))
    else:
        ct.newc = list(range(1, maxgood[0] + 2))      # never completed: no observed content equals New
    pre = []
    for p in rec["pre"]:
        pre.append({"name": p["name"], "content": [1] if p["content"] == "new" else [99]})
    begin = {"ev": "Begin", "case": case, "src": 0, "target": rec["target"], "hasold": bool(rec["old"]),
             "newc": ct.newc, "pre": pre}
    ct.events = [begin] + evs + [{"ev": "End", "case": case, "src": 0}]
    return ct


def split_cases(calls):
    """-> dict case -> list of Sys between begin and end markers; global sanity of the markers."""
    out = {}
    cur = None
    known_fds = {}
    for s in calls:
        if s.name in ("unlinkat", "unlink") and s.args:
            tok = s.args[1] if s.name == "unlinkat" else s.args[0]
            b, _ = cstr(tok)
            if b is not None and b.startswith(MARK.encode()):
                _, _, kind, name = b.decode().split("/", 3)
                if kind == "begin":
                    if cur is not None:
                        raise InfraError("marker: begin %s inside %s" % (name, cur))
                    cur = name
                    out[cur] = []
                elif kind == "end":
                    if cur != name:
                        raise InfraError("marker: end %s while in %s" % (name, cur))
                    cur = None
                continue
        if cur is not None:
            out[cur].append(s)
    if cur is not None:
        raise InfraError("marker: case %s never ended" % cur)
    return out


# ------------------------------------------------------------------------------------------------ running things

def build_driver(ctx):
    binp = goharness.ext_build(ctx, "atomicwrite", name="atomicwrite-driver")
    if binp.endswith(".test"):
        raise InfraError("driver binary name ends in .test")
    return binp


def run_driver(ctx, binp, reps, nck, tag="run", inject=None):
    """strace the driver. inject: strace fault-injection expression, e.g. "fsync:error=EIO:when=3".
    -> (manifest records, strace path)"""
    d = ctx.subdir("strace_" + tag)
    root = os.path.join(d, "root")
    os.makedirs(root)
    st = os.path.join(d, "strace.txt")
    mf = os.path.join(d, "manifest.ndjson")
    env = dict(os.environ)
    env.pop("SNAPD_UNSAFE_IO", None)
    env.pop("SNAPD_DEBUG", None)
    import subprocess
    cmd = ["strace", "-f", "-s", "128", "-e", "trace=" + SYSCALLS]
    if inject:
        cmd += ["-e", "inject=" + inject]
    cmd += ["-o", st, binp, "-root", root, "-manifest", mf, "-seed", str(ctx.seed), "-reps", str(reps),
            "-checkpoints", str(nck)]
    try:
        p = subprocess.run(cmd, env=env, stdout=subprocess.PIPE, stderr=subprocess.STDOUT, timeout=900)
        rc, out = p.returncode, p.stdout.decode("utf-8", "replace")
    except subprocess.TimeoutExpired:
        raise InfraError("atomicwrite driver timed out under strace")
    if rc != 0 or "PASS" not in out:
        raise InfraError("atomicwrite driver failed rc=%s (inject=%s)\n%s" % (rc, inject, common.tail(out, 30)))
    recs = common.read_ndjson(mf)
    if not recs:
        raise InfraError("atomicwrite driver produced no cases")
    return recs, st


# ---- fault runs: the same driver invocation with ONE system call failed by strace (-e inject=...:when=K)

def plan_faults(cts, calls, want):
    """Pick the calls to fail from the fault-free run. The driver issues every system call of the cases from its
    main thread (runtime.LockOSThread) and is deterministic for a seed, so the K-th fsync/write/renameat of that
    thread in the fault-free run is the K-th in the fault run too (verified after each fault run).

    want: list of (variant, old, kind) with kind in fsync-file, fsync-dir, write, rename
    -> list of dict(case, variant, old, kind, inject)"""
    import collections
    main = collections.Counter(s.pid for s in calls).most_common(1)[0][0]
    counters = {}
    index = {}          # strace line -> (syscall name, K)
    for s in calls:
        if s.pid != main:
            continue
        counters[s.name] = counters.get(s.name, 0) + 1
        index[s.lineno] = (s.name, counters[s.name])
    plans = []
    for variant, old, kind in want:
        ct = next((c for c in cts if c.rec["variant"] == variant and bool(c.rec["old"]) == old), None)
        if ct is None:
            raise InfraError("fault plan: no case %s old=%s" % (variant, old))
        src = None
        nth_write = 0
        for e in ct.events:
            if kind == "fsync-file" and e["ev"] == "Fsync" and e.get("what") == "file":
                src = e["src"]
                break
            if kind == "fsync-dir" and e["ev"] == "Fsync" and e.get("what") == "dir":
                src = e["src"]
                break
            if kind == "write" and e["ev"] == "Write" and e.get("via") == "write":
                src = e["src"]           # the LAST write of the case: earlier chunks are already in the temp file
            if kind == "rename" and e["ev"] == "Rename":
                src = e["src"]
                break
        if src is None:
            continue                     # this variant has no such call (e.g. rename: no file fsync)
        if src not in index:
            raise InfraError("fault plan: call at strace line %s of %s was not issued by the main thread" % (src, ct.rec["case"]))
        name, k = index[src]
        err = {"fsync-file": "EIO", "fsync-dir": "EIO", "write": "ENOSPC", "rename": "EIO"}[kind]
        plans.append({"case": ct.rec["case"], "variant": variant, "old": old, "kind": kind,
                      "inject": "%s:error=%s:when=%d" % (name, err, k)})
    return plans


def run_fault(ctx, binp, reps, nck, plan, n):
    """One fault run. -> CaseTrace of the case that received the fault (rec["fault"] set)."""
    recs, st = run_driver(ctx, binp, reps, nck, tag="fault%d" % n, inject=plan["inject"])
    calls = parse_strace(st)
    per_case = split_cases(calls)
    rec = next((r for r in recs if r["case"] == plan["case"]), None)
    if rec is None or plan["case"] not in per_case:
        raise InfraError("fault run %s: case %s missing" % (plan["inject"], plan["case"]))
    inj = [s for s in calls if "INJECTED" in s.err]
    if len(inj) != 1:
        raise InfraError("fault run %s: %d injected calls, expected 1" % (plan["inject"], len(inj)))
    if inj[0] not in per_case[plan["case"]]:
        raise InfraError("fault run %s: the injected call (strace line %d) is not inside case %s" % (
            plan["inject"], inj[0].lineno, plan["case"]))
    with open(rec["new_file"], "rb") as f:
        nb = f.read()
    rec["fault"] = plan["kind"]
    rec["inject"] = plan["inject"]
    rec["case"] = "%s+%s" % (plan["case"], plan["kind"])      # unique among the fault runs
    ct = build_case(rec, per_case[plan["case"]], nb)
    if not ct.injected or not ct.injected[0][2]:
        raise InfraError("fault run %s: the injected call was not mapped to an event: %s" % (plan["inject"], inj[0].raw[:160]))
    return ct


def load_traces(recs, strace_path):
    calls = parse_strace(strace_path)
    per_case = split_cases(calls)
    cts = []
    for rec in recs:
        if rec["case"] not in per_case:
            raise InfraError("case %s has no markers in the strace output" % rec["case"])
        with open(rec["new_file"], "rb") as f:
            nb = f.read()
        cts.append(build_case(rec, per_case[rec["case"]], nb))
    return cts, len(calls)


def write_trace(path, cts):
    rows = []
    for ct in cts:
        rows.extend(ct.events)
    rows.append({"ev": "Eof", "case": "", "src": 0})
    common.write_ndjson(path, rows)
    return rows


_lock = threading.Lock()


def locked_subdir(ctx):
    """ctx.subdir is not thread safe; wrap it once."""
    if getattr(ctx, "_c06_locked", False):
        return
    orig = ctx.subdir

    def sub(name):
        with _lock:
            return orig(name)
    ctx.subdir = sub
    ctx._c06_locked = True


def validate_rows(ctx, rows, name):
    """One TLC run over an NDJSON trace. -> dict(accepted, line (1-based culprit line or None), invariant, res, last)"""
    d = ctx.subdir("ndjson_" + name)
    path = os.path.join(d, "trace.ndjson")
    common.write_ndjson(path, rows)
    e = {"VERIF_TRACE": path}
    res = tlc.run(ctx, TRACE_MODULE, "TraceAtomicFile.cfg", workers=1, env=e, timeout=900, name="trace_" + name)
    out = {"accepted": res.ok, "line": None, "invariant": None, "res": res, "last": None, "path": path}
    if res.ok:
        return out
    if res.kind == "postcondition":
        # deepest main-path state has depth (consumed + 1) and always has a Crash successor one level deeper
        out["line"] = res.depth - 1
        out["invariant"] = "not-a-behaviour"
    elif res.kind == "invariant":
        last = res.trace[-1]["vars"] if res.trace else {}
        out["last"] = last
        out["invariant"] = res.name
        lval = last.get("l")
        if not isinstance(lval, int):
            raise InfraError("cannot read l from TLC counterexample: %r" % (last,))
        out["line"] = lval - 1            # the last consumed line
    else:
        raise InfraError("trace validation ended unexpectedly: %s\n%s" % (res.summary(), common.tail(res.out, 30)))
    return out


def validate_cases(ctx, cts, max_violations=12):
    """Validate all cases in one TLC run; on a rejection record it, drop that case's group and run again.
    -> (findings: list of dict(ct, invariant, event, last, group_size), stats)"""
    remaining = list(cts)
    findings = []
    total_states = 0
    total_distinct = 0
    runs = 0
    while remaining:
        rows = []
        for ct in remaining:
            rows.extend(ct.events)
        rows.append({"ev": "Eof", "case": "", "src": 0})
        v = validate_rows(ctx, rows, "cases%d" % runs)
        runs += 1
        if v["accepted"]:
            total_states += v["res"].generated
            total_distinct += v["res"].distinct
            break
        line = v["line"]
        if not line or line < 1 or line > len(rows):
            raise InfraError("trace validation: culprit line %r out of range" % (line,))
        e = rows[line - 1]
        bad = [ct for ct in remaining if ct.rec["case"] == e["case"]]
        if not bad:
            raise InfraError("trace validation: line %d belongs to no case: %r" % (line, e))
        bad = bad[0]
        gk = lambda c: (c.rec["variant"], c.rec["old"], c.rec.get("fault"))
        group = [ct for ct in remaining if gk(ct) == gk(bad)]
        findings.append({"ct": bad, "invariant": v["invariant"], "event": e, "last": v["last"], "group": len(group),
                         "tlc": common.tail(v["res"].out, 60)})
        remaining = [ct for ct in remaining if ct not in group]
        if len(findings) >= max_violations:
            break
    return findings, {"tlc_runs": runs, "generated": total_states, "distinct": total_distinct,
                      "unexamined_cases": len(remaining) if findings and len(findings) >= max_violations else 0}


def role(rec, name):
    if name == rec["target"]:
        return "target"
    if name and name.startswith(rec["target"] + ".") and name.endswith("~"):
        return "tmp"
    return "other"


def describe_event(rec, e):
    k = e["ev"]
    if k == "Rename":
        return "Rename(%s->%s)" % (role(rec, e["from"]), role(rec, e["to"]))
    if k in ("Open", "Unlink", "Symlink", "RenameIn"):
        return "%s(%s)" % (k, role(rec, e["name"]))
    if k in ("Fsync", "FsyncFail", "Failed"):
        return "%s(%s)" % (k, e.get("what", "?"))
    return k


# ------------------------------------------------------------------------------------------------ binding controls

def trace_controls(ctx, ct):
    """Corrupt one real recorded case. -> list of (name, expect_accept, rows)"""
    evs = ct.events
    idx = {k: [i for i, e in enumerate(evs) if e["ev"] == k] for k in ("Fsync", "Rename", "OpenDir", "Write", "Close", "Open")}
    fs_file = [i for i in idx["Fsync"] if evs[i].get("what") == "file"]
    fs_dir = [i for i in idx["Fsync"] if evs[i].get("what") == "dir"]
    if not (fs_file and idx["Rename"] and idx["OpenDir"] and idx["Write"]):
        raise InfraError("control case %s lacks the expected events: %s" % (ct.rec["case"], ct.sig))
    eof = [{"ev": "Eof", "case": "", "src": 0}]
    out = []
    # 1 drop the fsync of the temp file
    out.append(("drop-file-fsync", False, [e for i, e in enumerate(evs) if i != fs_file[0]] + eof))
    # 2 rename before the fsync of the temp file
    r = idx["Rename"][0]
    rows = list(evs)
    ren = rows.pop(r)
    rows.insert(fs_file[0], ren)
    out.append(("rename-before-fsync", False, rows + eof))
    # 3 fsync on the wrong fd (the directory instead of the file)
    rows = [dict(e) for e in evs]
    rows[fs_file[0]]["fd"] = evs[idx["OpenDir"][0]]["fd"]
    rows[fs_file[0]]["what"] = "dir"
    out.append(("fsync-wrong-fd", False, rows + eof))
    # 4 one recorded field corrupted: the rename goes to another name than the target => target keeps Old: accepted?
    #   no: corrupt the chunk id of the write (content that reaches the target is not New)
    rows = [dict(e) for e in evs]
    rows[idx["Write"][0]]["chunk"] = 777
    out.append(("corrupt-chunk", False, rows + eof))
    # 5 the target itself opened with O_TRUNC (write in place) before everything else
    rows = list(evs)
    rows.insert(1, {"ev": "Open", "case": ct.rec["case"], "src": 0, "fd": 9999, "name": ct.rec["target"],
                    "creat": True, "excl": False, "trunc": True})
    out.append(("truncate-target-in-place", False, rows + eof))
    # harmless reorderings: must stay accepted
    rows = list(evs)
    od = rows.pop(idx["OpenDir"][0])
    rows.insert(1, od)                                             # directory opened first
    out.append(("harmless-opendir-first", True, rows + eof))
    rows = list(evs)
    rows.insert(fs_file[0] + 1, {"ev": "Meta", "case": ct.rec["case"], "src": 0, "what": "fchown"})   # chown after fsync
    rows.insert(2, {"ev": "Meta", "case": ct.rec["case"], "src": 0, "what": "fchown"})                # chown before write
    out.append(("harmless-chown-anywhere", True, rows + eof))
    # close before fsync is impossible (fd gone); fsync twice is harmless
    rows = list(evs)
    rows.insert(fs_file[0], dict(evs[fs_file[0]]))
    out.append(("harmless-double-fsync", True, rows + eof))
    # the statement does not need the directory fsync (a lost rename leaves Old)
    if fs_dir:
        out.append(("no-dir-fsync-still-old-or-new", True, [e for i, e in enumerate(evs) if i != fs_dir[0]] + eof))
    return out


def run_parallel(jobs, nthreads):
    """jobs: list of (key, callable). -> dict key -> result (exceptions re-raised)."""
    res = {}
    with concurrent.futures.ThreadPoolExecutor(max_workers=nthreads) as ex:
        futs = {ex.submit(fn): key for key, fn in jobs}
        for f in concurrent.futures.as_completed(futs):
            res[futs[f]] = f.result()
    return res
