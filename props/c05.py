from props import _statestore


def run(ctx):
    return _statestore.run(ctx, "C05")
