"""C17 -- kernel and base updates can always fall back to the last known-good revision (BootTry.tla).

design:       TLC, exhaustive, on BootTry for UC16 / UC20grub / UC20ns (invariants OnlyGoodOrTried, FallbackWorks,
              GoodOnlyAfterMark, NeverStuck, InUseProtects; liveness ComesBack with a fault budget)
conformance:  see props/_boottry.py (write order I->T for every reachable (state, action); initramfs T->I for every
              reachable initramfs-entry state; replay of TLC behaviours; grub.cfg rule table)
"""
import concurrent.futures as cf
import copy
import random
import threading

from lib import common, tlc
from lib.common import Result, Violation, InfraError
from props import _boottry as bt

VARIANTS = ["UC20grub", "UC20ns", "UC16"]
MAIN_ACTIONS = ["SetNextK", "SetNextB", "UndoK", "UndoB", "Mark", "Step", "End", "RemoveK", "RemoveB", "PowerLoss",
                "Reboot", "Firmware", "InitBase", "InitKernel", "BootOK", "BootFail"]


QUICK = {"UC20grub": ["k", "b"], "UC20ns": ["k"], "UC16": ["kb"]}
THOROUGH = {"UC20grub": ["k", "b", "kb", "k3b2"], "UC20ns": ["k", "b", "kb", "k3b2"], "UC16": ["k", "b", "kb", "k3b2", "k3b3"]}


def _cfgs(ctx, variant):
    return ["BootTry_mc_%s_%s.cfg" % (variant, x) for x in ctx.pick(QUICK, THOROUGH)[variant]]


class Acc:
    def __init__(self):
        self.lock = threading.Lock()
        self.violations = []
        self.states = 0
        self.transitions = 0
        self.cases_ok = 0
        self.lines = 0
        self.beh_ok = 0
        self.real_calls = 0
        self.per_cfg = {}
        self.action_cov = {}
        self.samples = []
        self.notes = []
        self.deviations_seen = {}
        self.unexplained = []      # deviations of the real code from the spec that do not break the statement
        self.known_keys = set()    # keys of violations produced by replaying the known-finding counterexamples


def job_mc(ctx, acc, variant, cfg, workers, rng):
    big = "k3b" in cfg
    cov = cfg.endswith("_kb.cfg") and not ctx.quick
    res, dump = bt.mc(ctx, cfg, dump=True, coverage=cov, workers=workers, timeout=ctx.pick(900, 7200),
                      heap="12g" if big else None)
    if not res.ok:
        raise InfraError("spec-level counterexample in %s: %s (triage per DESIGN 2.8; not a verdict about the code)\n%s" % (
            cfg, res.summary(), common.tail(res.out, 5)))
    if cov:
        need = list(MAIN_ACTIONS)
        if variant == "UC16":
            need = [a for a in need if a not in ("InitBase", "InitKernel")] + ["SetNextKStale16", "SetNextBStale16"]
        else:
            need += ["PowerLossUndoWindow"]
        if variant == "UC20ns":
            need.append("InitNs")
        tlc.require_coverage(res, need)
    cases = bt.cases_from_dump(dump, variant, limit=ctx.pick(1200, 12000), rng=rng)
    nact = sum(1 for c in cases if c["kind"] == "act")
    census = {}
    for c in cases:
        k = c["full"]["act"]["name"] if c["kind"] == "act" else "init:" + c["full"]["boot"]["phase"]
        census[k] = census.get(k, 0) + 1
    want = {"Mark"}
    if "_b.cfg" not in cfg:
        want |= {"SetNextK", "UndoK"}
    if "_k.cfg" not in cfg:
        want |= {"SetNextB", "UndoB"}
    if variant != "UC16":
        want.add("init:ins" if variant == "UC20ns" else "init:ibase")
    if want - set(census):
        raise InfraError("vacuity guard: %s reaches no %s cases" % (cfg, sorted(want - set(census))))
    r = bt.check_cases(ctx, variant, cases, cfg[11:-4], procs=ctx.pick(1, 4))
    v, ncases, nlines, events = r["violations"], r["ncases"], r["nlines"], r["events"]
    ctx.log("%s: %d distinct states (%.0fs), %d act + %d initramfs cases on real code, %d events validated, "
            "%d deviating cases -> %d violations, %d unexplained" % (
                cfg, res.distinct, res.wall, nact, len(cases) - nact, nlines, r["ndev"], len(v), len(r["unexplained"])))
    with acc.lock:
        acc.violations += v
        acc.unexplained += ["%s: %s (%s)" % (bt.case_key(dv.case), dv.why, dv.kind) for dv in r["unexplained"]]
        acc.states += res.distinct
        acc.transitions += res.generated
        acc.cases_ok += ncases
        acc.lines += nlines
        acc.per_cfg[cfg] = {"distinct": res.distinct, "generated": res.generated, "depth": res.depth,
                            "wall_s": round(res.wall, 1), "real_cases": census}
        if cov:
            acc.action_cov[variant] = tlc.coverage_summary(res)
        if len(acc.samples) < 6 and cases:
            c = cases[rng.randrange(len(cases))]
            mine = [e for e in events if e.get("case") == c["id"] and e["ev"] not in ("Reset",)]
            acc.samples.append({"case": bt.case_key(c),
                                "real": [dict((k, e[k]) for k in e if k in ("ev", "op", "res", "rev", "k", "b")) for e in mine]})
    return res


def _classify_divergences(ctx, variant, divs, name):
    """A replay that diverges is not a verdict by itself: the (state, action) / initramfs state it diverged in goes
    through the same oracles as every other case (write order, TLC trace validation, statement oracle)."""
    derived, unexplained = [], []
    seen = set()
    for dv in divs:
        c = dv["derived"]
        if c is None:
            unexplained.append(dv["text"])
            continue
        k = bt.case_key(c)
        if k not in seen:
            seen.add(k)
            derived.append(c)
    if not derived:
        return [], unexplained
    r = bt.check_cases(ctx, variant, derived[:300], name + "_div")
    unexplained += ["%s: %s (%s)" % (bt.case_key(x.case), x.why, x.kind) for x in r["unexplained"]]
    if not r["violations"] and not r["unexplained"]:
        unexplained += [d["text"] for d in divs[:3]]
    return r["violations"], unexplained


def job_sim(ctx, acc, variant, rng):
    """T->I: replay TLC -simulate behaviours (incl. PowerLoss at any pc) on one persistent real state each."""
    cfg = "BootTry_mc_%s_kb.cfg" % variant
    num = ctx.pick(60, 2000)
    res = tlc.run(ctx, "BootTry", cfg, workers=1, simulate={"num": num, "file": True}, depth=ctx.pick(60, 90),
                  seed=ctx.seed, timeout=ctx.pick(600, 1800), name="sim_" + variant)
    if res.kind is not None and res.kind != "error":
        raise InfraError("spec-level counterexample while simulating %s: %s" % (cfg, res.summary()))
    behs = tlc.sim_behaviours(res)
    if len(behs) < num // 2:
        raise InfraError("simulate produced only %d behaviours for %s\n%s" % (len(behs), cfg, common.tail(res.out, 10)))
    cases = [bt.beh_case(variant, bt.to_steps(b)) for b in behs]
    events = bt.run_driver(ctx, cases, "sim_" + variant, procs=ctx.pick(1, 4))
    divs, ok, real_calls = bt.beh_divergences(cases, events)
    v, unexplained = _classify_divergences(ctx, variant, divs, "sim_" + variant)
    npl = sum(1 for c in cases for s in c["steps"] if s["action"].startswith("PowerLoss"))
    nplmid = sum(1 for c in cases for i, s in enumerate(c["steps"]) if s["action"].startswith("PowerLoss")
                 and c["steps"][i - 1]["vars"]["act"]["name"] != "idle")
    ctx.log("%s: %d behaviours replayed on real code (%d real calls, %d power losses, %d of them inside an action), "
            "%d diverged -> %d violations, %d unexplained" % (variant, ok, real_calls, npl, nplmid, len(divs), len(v), len(unexplained)))
    if npl == 0 or nplmid == 0:
        raise InfraError("vacuity guard: no PowerLoss inside an action among the replayed behaviours of %s" % variant)
    with acc.lock:
        acc.violations += v
        acc.unexplained += unexplained
        acc.beh_ok += ok
        acc.real_calls += real_calls
        acc.per_cfg["simulate_" + variant] = {"behaviours": len(behs), "power_losses": npl, "power_losses_mid_action": nplmid}


def job_live(ctx, acc, variant):
    cfg = "BootTry_live_%s.cfg" % variant if not ctx.quick else "BootTry_liveq_%s.cfg" % variant
    res = tlc.run(ctx, "BootTry", cfg, workers=4, timeout=ctx.pick(600, 1800), name="live_" + variant)
    if not res.ok:
        raise InfraError("spec-level liveness counterexample in %s: %s" % (cfg, res.summary()))
    with acc.lock:
        acc.per_cfg[cfg] = {"distinct": res.distinct, "generated": res.generated, "wall_s": round(res.wall, 1),
                            "property": "ComesBack"}


def job_strict(ctx, acc, variant):
    """The two known deviations: with ExcuseKnown=FALSE TLC must produce the counterexample; it is then replayed on
    the real code.  Only a counterexample REPRODUCED on the real code becomes a Violation."""
    cfg = "BootTry_mc_%s_strict.cfg" % variant
    res = tlc.run(ctx, "BootTry", cfg, workers=4, timeout=600, name="strict_" + variant)
    if res.ok:
        with acc.lock:
            acc.notes.append("%s: strict config has no counterexample any more (spec no longer contains the deviation)" % variant)
        return
    if res.kind != "invariant" or not res.trace:
        raise InfraError("strict run of %s ended unexpectedly: %s" % (cfg, res.summary()))
    steps = bt.to_steps(res.trace)
    case = bt.beh_case(variant, copy.deepcopy(steps))
    events = bt.run_driver(ctx, [case], "strict_" + variant)
    verdict = [e for e in events if e.get("ev") == "Beh"]
    if not verdict:
        raise InfraError("strict replay of %s produced no verdict" % variant)
    e = verdict[0]
    if not e["ok"]:
        # The real code does not follow the spec's counterexample. Not a verdict by itself and no reason to abort:
        # the step it diverged in is classified like any other case; "known finding not reproducible" is only
        # fatal (exit 2) when nothing else explains it (see run()).
        divs, _, _ = bt.beh_divergences([case], events)
        v, unexplained = _classify_divergences(ctx, variant, divs, "strict_" + variant)
        ctx.log("%s: known-finding counterexample (%s) not reproducible on this tree at step %d (%s): %s -> %d violations" % (
            variant, res.name, e["step"], e["action"], e["msg"], len(v)))
        with acc.lock:
            acc.violations += v
            acc.unexplained += unexplained
            acc.unexplained.append("counterexample of %s (%s) is NOT reproducible on the real code at step %d (%s): %s" % (
                cfg, res.name, e["step"], e["action"], e["msg"]))
        return
    compact = ["%s%s" % (s["action"], "(%d)" % s["vars"]["act"]["arg"] if s["action"] in ("SetNextK", "SetNextB", "UndoK", "UndoB") else "")
               for s in steps[1:]]
    if res.name == "NeverStuck":
        i = max(j for j, s in enumerate(steps) if s["action"] == "PowerLoss")
        prev = steps[i - 1]["vars"]
        if e["final_phase"] != "halt" or not e.get("real_halt_msg"):
            raise InfraError("strict replay of %s: spec halts but no real halt message recorded: %s" % (variant, e))
        key = "undo-window %s %s power-loss@pc=%d" % (variant, prev["act"]["name"], prev["act"]["pc"])
        desc = ("%s: power loss after write #%d (%s) of SetNextBoot{BootWithoutTry}(kernel rev %d) leaves %s; the real "
                "initramfs code then stops the boot: %r. Statement: 'the boot never stops for lack of a trusted kernel'. "
                "Events: %s" % (variant, prev["act"]["pc"], prev["act"]["ws"][prev["act"]["pc"] - 1]["op"], prev["act"]["arg"],
                                bt.fmt_disk(steps[i]["vars"]["d"]), e["real_halt_msg"], " ".join(compact)))
    elif res.name == "OnlyGoodOrTried" and variant == "UC16":
        last = steps[-1]["vars"]
        fs = e["final_real_state"]
        key = "stale-try-var UC16 cancelled snap_try_* re-activated by SetNextBoot"
        desc = ("UC16: after the real calls %s the real bootenv is %s: a snap_try_* variable whose trial snapd has cancelled "
                "(setNext(current) returned 'already clean' / only cleared its own variable) is re-activated by the next "
                "SetNextBoot (snap_mode=try is shared); per the documented boot script the device boots kernel %d + base %d, "
                "known-good %s/%s, under trial %d/%d. Statement: 'only ever boots the last known-good revision or the single "
                "revision being tried'." % (" ".join(compact), bt.fmt_disk(fs), last["boot"]["rk"], last["boot"]["rb"],
                                            last["h"]["goodk"], last["h"]["goodb"], last["h"]["trialk"], last["h"]["trialb"]))
    else:
        raise InfraError("unexpected spec-level counterexample in %s: %s" % (cfg, res.summary()))
    ctx.log("%s: strict counterexample (%s) reproduced on the real code: %s" % (variant, res.name, key))
    with acc.lock:
        acc.known_keys.add(key)
        acc.violations.append(Violation(key=key, desc=desc, replay={"variant": variant, "cfg": cfg, "steps": steps, "verdict": e}))
        acc.deviations_seen[key] = {"invariant": res.name, "events": compact, "real": e.get("real_halt_msg") or e.get("final_real_state")}


def selftest(ctx):
    """Binding is real: corrupting one recorded field of a real trace must make validation reject."""
    rng = random.Random(ctx.seed)
    res, dump = bt.mc(ctx, "BootTry_mc_UC20grub_b.cfg", dump=True, workers=4)
    cases = bt.cases_from_dump(dump, "UC20grub", limit=150, rng=rng)
    events = bt.run_driver(ctx, cases, "selftest")
    v0, n0, _ = bt.validate_events(ctx, "UC20grub", cases, events, "self0")
    out = {"baseline_violations": len(v0)}
    for what in ("op", "st", "drop"):
        ev = copy.deepcopy(events)
        idx = [i for i, e in enumerate(ev) if e["ev"] == "W"]
        i = idx[rng.randrange(len(idx))]
        if what == "op":
            ev[i]["op"] = "enable" if ev[i]["op"] != "enable" else "status"
        elif what == "st":
            ev[i]["st"]["bst"] = "trying" if ev[i]["st"]["bst"] != "trying" else ""
        else:
            del ev[i]
        v, _, _ = bt.validate_events(ctx, "UC20grub", cases, ev, "self_" + what, max_rounds=1)
        out["corrupt_" + what] = "rejected" if v else "ACCEPTED"
        ctx.log("selftest: corrupt %s of event %d -> %s" % (what, i, out["corrupt_" + what]))
    if len(v0) or any(x == "ACCEPTED" for k, x in out.items() if k.startswith("corrupt")):
        raise InfraError("selftest failed: %s" % out)
    return out


def run(ctx):
    rng = random.Random(ctx.seed)
    acc = Acc()
    st = None
    if ctx.selftest:
        st = selftest(ctx)
    vs, grub = bt.check_grub_cfg(ctx)
    acc.violations += vs
    ctx.log("grub.cfg kernel_status rules vs BootTry!GrubRule: %d violations" % len(vs))
    bt.build_driver(ctx)

    jobs = []
    for v in VARIANTS:
        for cfg in _cfgs(ctx, v):
            w = 4 if "k3b" not in cfg else 6
            jobs.append((job_mc, (ctx, acc, v, cfg, w, random.Random(rng.random()))))
        jobs.append((job_sim, (ctx, acc, v, random.Random(rng.random()))))
        jobs.append((job_live, (ctx, acc, v)))
        jobs.append((job_strict, (ctx, acc, v)))
    # biggest first
    jobs.sort(key=lambda j: 0 if (j[0] is job_mc and "k3b" in j[1][3]) else 1)
    errs = []
    with cf.ThreadPoolExecutor(max_workers=ctx.pick(4, 4)) as ex:
        futs = [ex.submit(f, *a) for f, a in jobs]
        for fu in futs:
            try:
                fu.result()
            except InfraError as e:
                errs.append(e)
    # verdict order: violations that the oracles established on the real code come first; infrastructure trouble and
    # deviations that could not be tied to the statement only decide (exit 2) when there is no such violation
    uniq = {}
    for v in acc.violations:
        if v.key not in uniq or getattr(v, "count", 0) > getattr(uniq[v.key], "count", 0):
            uniq[v.key] = v
    acc.violations = list(uniq.values())
    other = [v for v in acc.violations if v.key not in acc.known_keys]
    for e in errs:
        acc.notes.append("infra: %s" % str(e)[:400])
    for u in acc.unexplained[:20]:
        acc.notes.append("unexplained deviation: %s" % u[:400])
    if not other:
        if errs:
            raise InfraError("; ".join(str(e) for e in errs[:3]))
        if acc.unexplained:
            raise InfraError("%d deviation(s) of the real code from the spec that do not break the statement by themselves "
                             "(spec/harness to be triaged, DESIGN 2.8), e.g.: %s" % (len(acc.unexplained), " || ".join(acc.unexplained[:3])))
    else:
        for n in acc.notes:
            ctx.log("note:", n[:300])

    return Result(
        level="model_checking",
        coverage={"states": acc.states, "transitions": acc.transitions,
                  "traces_validated_against_impl": acc.cases_ok + acc.beh_ok,
                  "real_state_action_cases_validated": acc.cases_ok, "trace_events_validated": acc.lines,
                  "tlc_behaviours_replayed_on_real_code": acc.beh_ok, "real_calls_in_replays": acc.real_calls,
                  "samples": acc.samples, "per_config": acc.per_cfg, "action_coverage": acc.action_cov,
                  "tlc_constants": {"KRevs/BRevs": "k:{1,2,3}x{1}  b:{1}x{1,2,3}  kb:{1,2}x{1,2}  k3b2:{1,2,3}x{1,2}",
                                    "MaxCK": 3, "events": "unbounded (finite state space)", "liveness MaxFaults": 2},
                  "invariants": bt.INVARIANTS + ["TypeOK", "ComesBack (liveness)"],
                  "grub_cfg": grub, "known_deviations_reproduced": acc.deviations_seen, "selftest": st},
        assumptions=[
            "bootloader interface level: each SetBootVars / EnableKernel / EnableTryKernel / DisableTryKernel call and each "
            "modeenv rewrite (AtomicWriteFile) is one atomic durable write (C06 covers the file part)",
            "UC16: the gadget boot script behaves as documented in boot.MarkBootSuccessful (try->trying + boot snap_try_*, trying->'')",
            "UC20ns: firmware boots snap_try_kernel with kernel_status=trying on the cmdline iff the volatile tryboot flag was set "
            "by snapd's reboot, else snap_kernel (piboot.go config.txt/tryboot.txt handling is below the mock level)",
            "snapd runs MarkBootSuccessful before any other boot-state action after each boot; a SetNext(try) is only issued "
            "when no other trial of the same snap is pending; undo targets are known-good revisions",
            "a kernel image and its snap file disappear together (RemoveKernelAssets + discard), guarded by boot.InUse",
        ],
        violations=acc.violations, notes=acc.notes)
