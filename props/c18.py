"""C18 -- only correctly signed, currently valid assertions are accepted (AssertCheck.tla)."""
from props import _assertcheck


def run(ctx):
    return _assertcheck.run(ctx)
