"""C32 -- snapshot import and restore cannot escape or corrupt snap data (SnapshotIO.tla, see props/_snapshotio.py)."""
from props import _snapshotio


def run(ctx):
    return _snapshotio.run(ctx)
