"""C24 shared logic: Naming.tla / NamingTable.tla verdict tables vs the daemon (Go), snap-confine (C) and
snap-update-ns (C) validators built from the working tree."""
import concurrent.futures
import json
import os
import random

from lib import common, tlc, goharness
from lib.common import REPO, HARNESS, InfraError

CDIR = os.path.join(HARNESS, "c")
LSCP = ["snap", "utils", "string-utils", "cleanup-funcs", "error", "panic"]


# ---------------------------------------------------------------- builds
def build_c_drivers(ctx):
    """gcc the two drivers FROM THE WORKING TREE into ctx scratch."""
    d = ctx.subdir("cbuild")
    sc, sun = os.path.join(d, "sc_validate"), os.path.join(d, "sun_validate")
    lib = [os.path.join(REPO, "cmd/libsnap-confine-private", f + ".c") for f in LSCP]
    cmd = (["gcc", "-std=gnu11", "-O1", "-w", "-I" + os.path.join(CDIR, "cfg"), "-I" + CDIR,
            "-I" + os.path.join(REPO, "cmd"), os.path.join(CDIR, "sc_validate_driver.c")] + lib +
           [os.path.join(REPO, "cmd/snap-confine/snap-confine-invocation.c"),
            os.path.join(REPO, "cmd/snap-confine/snap-confine-args.c"),
            "-Wl,--wrap=die", "-Wl,--wrap=exit", "-Wl,--wrap=sc_snap_mount_dir", "-o", sc])
    rc, o = common.sh(cmd, timeout=600)
    if rc != 0:
        raise InfraError("gcc of snap-confine validator driver failed:\n%s" % common.tail(o, 30))
    cmd = ["gcc", "-std=gnu11", "-O1", "-w", "-I" + os.path.join(CDIR, "shim"), "-I" + CDIR,
           "-I" + os.path.join(REPO, "cmd/snap-update-ns"), os.path.join(CDIR, "sun_validate_driver.c"),
           os.path.join(REPO, "cmd/snap-update-ns/bootstrap.c"), "-o", sun]
    rc, o = common.sh(cmd, timeout=600)
    if rc != 0:
        raise InfraError("gcc of snap-update-ns validator driver failed:\n%s" % common.tail(o, 30))
    return sc, sun


# ---------------------------------------------------------------- strings
def tok2bytes(c):
    """a character token of the spec -> the byte(s) it stands for"""
    if len(c) == 4 and c[0] == "<" and c[3] == ">":
        return bytes([int(c[1:3], 16)])
    return c.encode("latin-1")


def byte2tok(b):
    if 0x21 <= b <= 0x7e and b not in (0x22, 0x5c, 0x3c):   # printable, not quote/backslash/'<'
        return chr(b)
    return "<%02x>" % b


def runs2bytes(runs):
    """[{"c":..,"n":..}] (TLC output) -> bytes"""
    return b"".join(tok2bytes(r["c"]) * r["n"] for r in runs)


def bytes2runs(b):
    """bytes -> [[tok, n], ...] canonical (TLC input)"""
    out = []
    for x in b:
        t = byte2tok(x)
        if out and out[-1][0] == t:
            out[-1][1] += 1
        else:
            out.append([t, 1])
    return out


def show(b):
    """short, stable rendering of a byte string for keys: runs longer than 4 are compressed"""
    if b is None:
        return "NULL"
    out = []
    for t, n in bytes2runs(b):
        out.append(t * n if n <= 4 else "%s{%d}" % (t, n))
    return '"' + "".join(out) + '"'


def enc(b):
    return "-" if b is None else "=" + b.hex()


# ---------------------------------------------------------------- TLC tables
def tlc_parts(ctx, cfg, parts, par, timeout):
    """Run NamingTable for each (part, infile|None) in parallel JVMs; returns {part-id: rows-json}."""
    d = ctx.subdir("naming_tables")

    def one(job):
        pid, part, infile = job
        outp = os.path.join(d, "rows_%s.json" % pid)
        env = {"VERIF_PART": part, "VERIF_OUT": outp}
        if infile:
            env["VERIF_IN"] = infile
        res = tlc.run(ctx, "NamingTable", cfg, workers=1, env=env, timeout=timeout, name="tlc_naming_" + pid)
        if not res.ok:
            raise InfraError("TLC NamingTable part %s failed: %s\n%s" % (part, res.summary(), common.tail(res.out, 30)))
        with open(outp) as f:
            return pid, json.load(f), res.wall

    with concurrent.futures.ThreadPoolExecutor(max_workers=par) as ex:
        return {pid: (j, w) for pid, j, w in ex.map(one, parts)}


# ---------------------------------------------------------------- extra inputs (I->T)
LOW = b"abcdefghijklmnopqrstuvwxyz"
DIG = b"0123456789"


def rand_valid_name(rnd, n):
    """a valid snap-like name of length n >= 2 (lower/digit/dash, has a letter, no bad dashes)"""
    while True:
        out = bytearray()
        for i in range(n):
            if 0 < i < n - 1 and out[-1] != 0x2d and rnd.random() < 0.15:
                out.append(0x2d)
            else:
                out.append(rnd.choice(LOW + DIG))
        if any(c in LOW for c in out):
            return bytes(out)


def edit(rnd, b):
    """one random single-character edit"""
    pool = b"az09-_.+AZ!`{/:@[ \t\n\x7f\x80\xe9\xff" + b"snaphok"
    b = bytearray(b)
    k = rnd.randrange(3)
    if k == 0 or not b:
        b.insert(rnd.randrange(len(b) + 1), rnd.choice(pool))
    elif k == 1:
        del b[rnd.randrange(len(b))]
    else:
        b[rnd.randrange(len(b))] = rnd.choice(pool)
    return bytes(b)


def extra_names(rnd, n):
    out = []
    # every byte value alone and around a letter (class boundaries: '`' '{' '/' ':' '@' '[' and high bytes)
    for x in range(1, 256):
        out += [bytes([x]), b"a" + bytes([x]), bytes([x]) + b"a", b"a" + bytes([x]) + b"a", b"ab_" + bytes([x]),
                b"ab+c" + bytes([x])]
    # structured near-misses of valid names of several lengths
    for ln in (2, 3, 5, 20, 38, 39, 40):
        v = rand_valid_name(rnd, ln).replace(b"-", b"x")
        mid = len(v) // 2
        out += [v[:mid] + b"--" + v[mid:], v[:mid] + b"-" + v[mid:], b"-" + v, v + b"-", v.upper(), v[:mid] + b"A" + v[mid:],
                bytes(rnd.choice(DIG) for _ in v), v + b"_", v + b"__k", v + b"_k_k", v + b"_-", v + b"+", b"+" + v,
                v + b"+" + v + b"+" + v, v + b"+-" + v, v + b"+" + v[:mid] + b"--" + v[mid:] + b"x", v + b"_k+" + v]
    lens = [2, 3, 10, 39, 40, 41, 42, 50, 51, 52, 53, 60, 80, 81, 82, 100]
    klens = [0, 1, 2, 9, 10, 11, 12]
    while len(out) < n:
        r = rnd.random()
        if r < 0.2:
            s = rand_valid_name(rnd, rnd.choice(lens[:6]))
        elif r < 0.4:
            s = rand_valid_name(rnd, rnd.choice([2, 5, 29, 38, 39, 40, 41])) + b"_" + \
                bytes(rnd.choice(LOW + DIG) for _ in range(rnd.choice(klens)))
        elif r < 0.55:
            s = rand_valid_name(rnd, rnd.choice([2, 5, 39, 40, 41])) + b"+" + rand_valid_name(rnd, rnd.choice([2, 5, 39, 40, 41]))
        elif r < 0.7:
            s = bytes(rnd.choice(b"ab09-_+.A!") for _ in range(rnd.choice([0, 1, 2, 3, 6, 7, 8, 12, 20])))
        elif r < 0.8:
            s = bytes(rnd.randrange(1, 256) for _ in range(rnd.randrange(0, 12)))
        else:
            s = rand_valid_name(rnd, rnd.choice(lens[:8]))
        if rnd.random() < 0.5:
            s = edit(rnd, s)
        out.append(s)
    return out


def extra_tags(rnd, n):
    """well-formed tags from random parts, single edits of them, asked for the same / a perturbed owner"""
    out = []
    while len(out) < n:
        inst = rand_valid_name(rnd, rnd.choice([2, 3, 8, 39, 40, 41]))
        if rnd.random() < 0.4:
            inst += b"_" + bytes(rnd.choice(LOW + DIG) for _ in range(rnd.choice([1, 5, 10, 11])))
        if rnd.random() < 0.15:
            inst = edit(rnd, inst)
        comp = None
        if rnd.random() < 0.4:
            comp = rand_valid_name(rnd, rnd.choice([2, 4, 40, 41]))
            if rnd.random() < 0.2:
                comp = edit(rnd, comp)
        name = bytes(rnd.choice(LOW + DIG + b"-" + (b"ABZ" if rnd.random() < 0.5 else b"")) for _ in
                     range(rnd.choice([1, 2, 5, 12])))
        kind = rnd.random()
        ic = inst + (b"+" + comp if comp is not None else b"")
        if kind < 0.45:
            tag = b"snap." + ic + b"." + name
        else:
            tag = b"snap." + ic + b".hook." + name
        if rnd.random() < 0.08:   # push the length around the 256 limit
            tag += b"x" * (rnd.choice([255, 256, 257, 300]) - len(tag)) if len(tag) < 255 else b""
        if rnd.random() < 0.4:
            tag = edit(rnd, tag)
        qi, qc = inst, comp
        r = rnd.random()
        if r < 0.08:
            qi = edit(rnd, inst)
        elif r < 0.16:
            qc = None if comp is not None else b"cd"
        elif r < 0.20 and comp is not None:
            qc = edit(rnd, comp)
        elif r < 0.25:
            qi = inst.split(b"_")[0]
        elif r < 0.45 and comp is not None:
            # an expected component RELATED to the tag's: proper prefix / extension / last char different / empty
            k = rnd.randrange(5)
            qc = [comp[:rnd.randrange(0, len(comp))], comp[:-1], comp + bytes([rnd.choice(LOW + DIG)]),
                  comp + b"-" + bytes([rnd.choice(LOW)]), comp[:-1] + bytes([rnd.choice(LOW + DIG)])][k]
        elif r < 0.60:
            # likewise for the expected instance, incl. adding / extending / truncating an instance key
            k = rnd.randrange(6)
            qi = [inst[:rnd.randrange(0, len(inst))], inst[:-1], inst + bytes([rnd.choice(LOW + DIG)]),
                  inst + b"_" + bytes([rnd.choice(LOW + DIG)]), inst[:-1] + bytes([rnd.choice(LOW + DIG)]),
                  inst + b"-" + bytes([rnd.choice(LOW)])][k]
        out.append((tag, qi, qc))
    return out


def write_file_inputs(path, names, tags):
    rows = [{"k": "name", "s": bytes2runs(s)} for s in names]
    rows += [{"k": "tag", "t": bytes2runs(t), "inst": bytes2runs(i), "has": c is not None,
              "comp": bytes2runs(c or b"")} for (t, i, c) in tags]
    common.write_ndjson(path, rows)


# ---------------------------------------------------------------- running the implementations
def run_c(ctx, binary, reqs, what):
    d = ctx.subdir("run_" + what)
    inp, outp = os.path.join(d, "req.txt"), os.path.join(d, "out.txt")
    with open(inp, "w") as f:
        f.write("\n".join(reqs) + "\n")
    with open(inp, "rb") as fi, open(outp, "wb") as fo:
        import subprocess
        try:
            p = subprocess.run([binary], stdin=fi, stdout=fo, stderr=subprocess.DEVNULL, timeout=1800)
        except subprocess.TimeoutExpired:
            raise InfraError("%s driver timed out" % what)
    with open(outp) as f:
        out = f.read().split("\n")
    if out and out[-1] == "":
        out.pop()
    if p.returncode != 0 or len(out) != len(reqs):
        k = min(len(out), len(reqs) - 1)
        raise InfraError("%s driver died (rc=%s) after %d/%d requests; next request: %s" % (
            what, p.returncode, len(out), len(reqs), reqs[k]))
    return out


def run_go(ctx, binary, reqs, what="go"):
    d = ctx.subdir("run_" + what)
    inp, outp = os.path.join(d, "req.txt"), os.path.join(d, "out.txt")
    with open(inp, "w") as f:
        f.write("\n".join(reqs) + "\n")
    rc, o = goharness.run_test_bin(ctx, binary, "TestVerifNaming", env={"VERIF_IN": inp, "VERIF_OUT": outp}, timeout=1800)
    goharness.check_driver(rc, o, "naming Go driver")
    with open(outp) as f:
        out = f.read().split("\n")
    if out and out[-1] == "":
        out.pop()
    if len(out) != len(reqs):
        raise InfraError("naming Go driver answered %d of %d requests" % (len(out), len(reqs)))
    return out
