"""C31 -- Download.tla bound to store/store_download.go (Store.Download + downloadImpl).

design       TLC checks TargetOnlyIfCorrect / FailureLeavesNoTarget (+ helpers) on Download.tla exhaustively
             against an adversarial server (any status, any body over {x,y}, clean end or dropped connection,
             no response), every initial .partial file, LeavePartialOnError on/off, several retry limits.
T->I         scripts = TLC -simulate behaviours of DownloadSim.tla (Download.tla + history of responses), the
             scripted counterexample of DownloadSim_cex.cfg if the statement fails on the spec, and an
             enumeration of "named" server strategies (honest 206, 200-ignoring-Range, truncated, corrupted,
             over-long, short, 5xx, 404, no response, via redirect) -- all replayed into the real Store.Download
             through a scripted httptest server (overlay driver in package store).
I->T         every real execution is recorded (request seen by the server: Range header + bytes of the .partial
             file on disk; response sent; final error class / target / partial) and validated step by step
             against TraceDownload.tla, with the invariants evaluated on every recorded state.
statement    evaluated directly on every real outcome: target exists => bytes == content; error => no target.
"""
import itertools
import os
import random

from lib import common, tlc, goharness
from lib.common import Result, Violation, InfraError

OVERLAY = os.path.join(common.HARNESS, "overlay", "store", "zz_verif_download_test.go")

STALE_PROBE = {"case": "probe-stale-tail", "content": "xy", "partial": None, "leave": False, "maxatt": 7, "block": 1,
               "script": [{"kind": "raw", "status": 200, "body": "xyy", "end": "drop"},
                          {"kind": "raw", "status": 200, "body": "xy", "end": "ok"}]}


# ----------------------------------------------------------------------------------------------- cases

def _reactive(kind, trunc=-1, short=-1, corrupt=-1, extra="", redir=False):
    return {"kind": kind, "trunc": trunc, "short": short, "corrupt": corrupt, "extra": extra, "redir": redir}


def named_responses():
    """The named server behaviours of DESIGN.md C31 (reactive: computed from the Range header at run time)."""
    out = []
    for base in ("range206", "full200"):
        out.append(_reactive(base))                         # honest / ignores Range
        for k in (0, 1, 2):
            out.append(_reactive(base, trunc=k))            # truncated after k (connection drop)
        out.append(_reactive(base, trunc=99))               # whole body, then the connection drops
        out.append(_reactive(base, short=1))                # short but complete
        for j in (0, 1):
            out.append(_reactive(base, corrupt=j))          # corrupted at j
        out.append(_reactive(base, extra="x"))              # over-long, complete
        out.append(_reactive(base, extra="y", trunc=99))    # over-long, then the connection drops
    out.append({"kind": "raw", "status": 500, "body": "", "end": "ok"})
    out.append({"kind": "raw", "status": 404, "body": "", "end": "ok"})
    out.append({"kind": "raw", "status": 0, "body": "", "end": "ok"})     # no response
    return out


def initial_partials(content):
    n = len(content)
    flip = lambda c: "y" if c == "x" else "x"
    wrong1 = flip(content[0])
    ps = [None, "", content[:1], content[:n - 1], wrong1, content[:n - 1][:-1] + flip(content[n - 2]) if n > 2 else wrong1,
          content, content[:-1] + flip(content[-1]), content + "x", wrong1 + content]
    out = []
    for p in ps:
        if p not in out:
            out.append(p)
    return out


def enumerated_cases(ctx):
    rnd = random.Random(ctx.seed * 7919 + 31)
    named = named_responses()
    contents = ctx.pick(["xy", "xyx"], ["xy", "xyx", "xyyx", "xxxx"])
    full_len = ctx.pick(1, 2)             # every named strategy up to this length for every (content, partial)
    n_random = ctx.pick([(2, 1500), (3, 500), (4, 300), (6, 200)],
                        [(3, 20000), (4, 10000), (5, 5000), (8, 5000)])   # (length, how many) sampled strategies
    cases = []

    def mk(content, partial, script):
        sc = []
        for r in script:
            r = dict(r)
            if r.get("status", 1) != 0 and rnd.random() < 0.2:
                r["redir"] = True
            sc.append(r)
        block = 1
        x = rnd.random()
        if x < 0.05:
            block = 3
        elif x < 0.06:
            block = 20000                 # bodies larger than io.Copy's 32 KiB buffer
        return {"case": "e%d" % len(cases), "content": content, "partial": partial, "leave": rnd.random() < 0.3,
                "maxatt": rnd.choice([2, 3, 7, 7]), "block": block, "script": sc}

    for content in contents:
        for partial in initial_partials(content):
            for n in range(1, full_len + 1):
                for script in itertools.product(named, repeat=n):
                    cases.append(mk(content, partial, script))
    for n, count in n_random:
        for _ in range(count):
            content = rnd.choice(contents)
            partial = rnd.choice(initial_partials(content))
            cases.append(mk(content, partial, [rnd.choice(named) for _ in range(n)]))
    return cases


def _s(seq):
    return "".join(seq)


def sim_cases(ctx, n):
    """T->I: behaviours of the spec (DownloadSim.tla, -simulate) turned into scripts."""
    res = tlc.run(ctx, "DownloadSim", "DownloadSim.cfg", simulate={"num": n, "file": True}, depth=9,
                  seed=ctx.seed, workers=1, timeout=900, name="tlc_sim")
    if res.kind is not None:
        raise InfraError("DownloadSim simulation failed: %s\n%s" % (res.summary(), common.tail(res.out, 20)))
    out = []
    for i, beh in enumerate(tlc.sim_behaviours(res)):
        if not beh:
            continue
        first, last = beh[0]["vars"], beh[-1]["vars"]
        out.append(_case_from_vars("s%d" % i, first, last["script"]))
    return out


def _case_from_vars(name, first, script):
    return {"case": name, "content": _s(first["content"]),
            "partial": _s(first["partial"]["bytes"]) if first["partial"]["present"] else None,
            "leave": first["leave"], "maxatt": first["maxatt"], "block": 1,
            "script": [{"kind": "raw", "status": r["status"], "body": _s(r["body"]), "end": r["end"],
                        "redir": r["redir"]} for r in script]}


# ----------------------------------------------------------------------------------------------- driver

def run_driver(ctx, tb, cases, name, timeout=1500):
    d = ctx.subdir(name)
    cp, out = os.path.join(d, "cases.ndjson"), os.path.join(d, "trace.ndjson")
    common.write_ndjson(cp, cases)
    rc, o = goharness.run_test_bin(ctx, tb, "^TestVerifDownload$",
                                   env={"VERIF_CASES": cp, "VERIF_OUT": out, "VERIF_PAR": 8},
                                   cwd=os.path.join(common.REPO, "store"), timeout=timeout)
    goharness.check_driver(rc, o, "download driver")
    if not os.path.exists(out):
        raise InfraError("download driver wrote no trace:\n%s" % common.tail(o, 20))
    runs, cur = [], None
    for ev in common.read_ndjson(out):
        if ev["ev"] == "Open":
            cur = []
            runs.append(cur)
        cur.append(ev)
    if len(runs) != len(cases):
        raise InfraError("download driver: %d cases in, %d traces out" % (len(cases), len(runs)))
    for r in runs:
        if r[-1]["ev"] != "Done" or r[-1].get("timeout"):
            raise InfraError("download driver: case %s did not finish (watchdog): %s" % (r[0]["case"], r[-1]))
    return runs


def describe(run):
    a = run[0]["args"]
    parts = ["content=" + _s(a["content"]),
             "partial=" + (_s(a["partial"]["bytes"]) or "empty" if a["partial"]["present"] else "absent"),
             "leave=%d" % int(a["leave"]), "maxatt=%d" % a["maxatt"]]
    if run[0].get("block", 1) != 1:
        parts.append("block=%d" % run[0]["block"])
    sc = []
    for ev in run[1:-1]:
        r = ev["args"]
        if r["status"] == 0:
            sc.append("noresp")
        elif r["status"] in (200, 206):
            sc.append("%d/%s/%s%s" % (r["status"], _s(r["body"]), r["end"], "/redir" if r["redir"] else ""))
        else:
            sc.append("%d%s" % (r["status"], "/redir" if r["redir"] else ""))
    parts.append("script=" + ",".join(sc))
    return " ".join(parts)


def statement_verdict(run):
    """C31 evaluated on the real outcome. Returns None (holds) or (class, text)."""
    content = run[0]["args"]["content"]
    o = run[-1]["obs"]
    t = o["target"]
    if t["present"] and t["bytes"] != content:
        n = len(content)
        if o["ok"] and len(t["bytes"]) > n and t["bytes"][:n] == content:
            return ("stale-tail", "Download returned nil and placed %r at the target; expected content %r "
                    "(content followed by stale bytes of the .partial file)" % (_s(t["bytes"]), _s(content)))
        return ("wrong-target", "a file with bytes %r (digest differs from the expected one of %r) is at the target; "
                "error class %s" % (_s(t["bytes"]), _s(content), o["err"]))
    if not o["ok"] and t["present"]:
        return ("target-after-failure", "Download failed (%s) but left a file at the target" % o["err"])
    return None


def write_trace(path, runs):
    common.write_ndjson(path, [ev for r in runs for ev in r])


def validate(ctx, runs, cfg, name, max_rejections=5):
    """I->T. Returns (n_accepted_cases, [(run, reason)]) ; rejected cases are removed and validation repeated."""
    runs = list(runs)
    rejected = []
    while runs:
        d = ctx.subdir(name)
        path = os.path.join(d, "trace.ndjson")
        write_trace(path, runs)
        tv = tlc.validate_trace(ctx, "TraceDownload", cfg, path, timeout=1500, name="tlc_" + name)
        if tv["accepted"]:
            break
        line = tv["stuck_line"]
        n = 0
        bad = None
        for i, r in enumerate(runs):
            if n < line <= n + len(r):
                bad = i
                break
            n += len(r)
        if bad is None:
            raise InfraError("trace validation: cannot map stuck line %s to a case" % line)
        r = runs.pop(bad)
        ev = r[line - n - 1]
        if tv["invariant"]:
            why = "invariant %s of Download.tla is violated by the recorded state after line %d (%s)" % (
                tv["invariant"], line - n, ev["ev"])
        else:
            why = "the real code's step %d (%s: %s) is not a step of Download.tla from the state reached so far" % (
                line - n, ev["ev"], {k: ev[k] for k in ("obs", "args") if k in ev})
        rejected.append((r, why))
        if len(rejected) >= max_rejections:
            break
    return len(runs), rejected


# ----------------------------------------------------------------------------------------------- main

def run(ctx):
    thorough = not ctx.quick
    workers = ctx.pick(8, 16)
    violations, notes = [], []

    tb = goharness.overlay_test_build(ctx, "store", [OVERLAY])

    # which variant of the spec describes this tree?  (named deviation: TruncateOnRestart)
    probe = run_driver(ctx, tb, [STALE_PROBE], "probe")[0]
    pt = probe[-1]["obs"]["target"]
    second = probe[2]["obs"]["file"] if len(probe) > 3 else None
    variant = "asis"
    if pt["present"] and pt["bytes"] == ["x", "y"]:
        variant = "fixed"
    ctx.log("spec variant for this tree: %s (probe outcome: %s)" % (variant, probe[-1]["obs"]))

    sfx = "_thorough" if thorough else ""
    stmt_cfg = "Download_mc%s%s.cfg" % ("_fixed" if variant == "fixed" else "", sfx)
    mc = tlc.run(ctx, "Download", stmt_cfg, coverage=(variant == "fixed"), workers=workers, timeout=ctx.pick(900, 3000),
                 heap=ctx.pick("6g", "16g"), name="tlc_statement")
    ctx.log("TLC %s: %s (%.0fs)" % (stmt_cfg, mc.summary(), mc.wall))
    design_ok = mc.ok
    cex_cases = []
    main = mc
    main_cfg = stmt_cfg
    if not mc.ok:
        if not (mc.kind == "invariant" and mc.name == "TargetOnlyIfCorrect"):
            raise InfraError("spec-level counterexample to %s (not the statement): %s" % (mc.name, mc.summary()))
        # scripted counterexample (same spec + history of responses, small constants)
        cx = tlc.run(ctx, "DownloadSim", "DownloadSim_cex.cfg", workers=workers, timeout=900, name="tlc_cex")
        if cx.ok or cx.kind != "invariant" or not cx.trace:
            raise InfraError("Download.tla violates TargetOnlyIfCorrect but DownloadSim_cex.cfg gives no scripted "
                             "counterexample: %s" % cx.summary())
        cex_cases.append(_case_from_vars("tlc-cex", cx.trace[0]["vars"], cx.trace[-1]["vars"]["script"]))
        notes.append("spec-level counterexample to TargetOnlyIfCorrect: %s" % cex_cases[0])
        # full exploration of what the code as it is does guarantee
        main_cfg = "Download_mc_asis%s.cfg" % sfx
        main = tlc.run(ctx, "Download", main_cfg, coverage=True, workers=workers, timeout=ctx.pick(900, 3000),
                       heap=ctx.pick("6g", "16g"), name="tlc_asis")
        ctx.log("TLC %s: %s (%.0fs)" % (main_cfg, main.summary(), main.wall))
        if not main.ok:
            raise InfraError("spec-level counterexample in %s: %s" % (main_cfg, main.summary()))
    need = ["OpenDownload", "OpenComplete", "RespNoResponse", "Resp5xxRetry", "Resp5xxFinal", "Resp4xx",
            "RespDropRetry", "RespDropFinal", "RespHashOK", "RespHashRetry", "RespHashFinal"]
    if variant == "asis":
        need.append("RespRangeIgnoredShorter")
    tlc.require_coverage(main, need)

    fixed_note = None
    if thorough and variant == "asis" and not design_ok:
        fx = tlc.run(ctx, "Download", "Download_mc_fixed%s.cfg" % sfx, workers=workers, timeout=3000, heap="16g",
                     name="tlc_fixed")
        fixed_note = "repaired design (TruncateOnRestart=TRUE) %s: %s" % (
            "satisfies the statement" if fx.ok else "STILL violates", fx.summary())
        notes.append(fixed_note)

    # ---- conformance
    cases = list(cex_cases) + [dict(STALE_PROBE)] + sim_cases(ctx, ctx.pick(200, 3000)) + enumerated_cases(ctx)
    seen = set()
    for i, c in enumerate(cases):      # unique names
        if c["case"] in seen:
            c["case"] = "%s#%d" % (c["case"], i)
        seen.add(c["case"])
    runs = run_driver(ctx, tb, cases, "replay", timeout=ctx.pick(900, 2400))
    ctx.log("real executions: %d, requests served: %d" % (len(runs), sum(len(r) - 2 for r in runs)))

    good, bad = [], []
    for r in runs:
        v = statement_verdict(r)
        (bad if v else good).append((r, v))

    # The spec-level counterexample is replayed like every other case.  If it reproduces, the statement check below
    # reports it.  If it does not, the real code deviates from the (faithful) spec on that very input and the trace
    # validation below rejects the case (reported as nonconformance) -- nothing is silently dropped.
    if cex_cases and statement_verdict(runs[0]) is None:
        notes.append("the spec-level counterexample did not reproduce on the real code: %s -> %s" % (
            describe(runs[0]), runs[0][-1]["obs"]))

    by_class = {}
    for r, (cls, text) in bad:
        by_class.setdefault(cls, []).append((r, text))
    for cls in sorted(by_class):
        lst = sorted(by_class[cls], key=lambda rt: (len(rt[0]), describe(rt[0])))
        for r, text in lst[:ctx.pick(3, 3) if cls == "stale-tail" else 10]:
            violations.append(Violation(
                key="%s %s" % (cls, describe(r)),
                desc="%s [%d real executions in class %s this run] input: %s" % (text, len(lst), cls, describe(r)),
                replay={"class": cls, "events": r, "how": "VERIF_CASES=<file with the case> go test -overlay ... -run TestVerifDownload ./store "
                        "(see props/_download.py run_driver)"}))

    trace_cfg = "TraceDownload_fixed.cfg" if variant == "fixed" else "TraceDownload.cfg"
    n_ok, rejected = validate(ctx, [r for r, _ in good], trace_cfg, "conf")
    for r, why in rejected:
        violations.append(Violation(key="nonconformance %s" % describe(r),
                                    desc="real Store.Download deviates from Download.tla: %s; input: %s" % (why, describe(r)),
                                    replay={"class": "nonconformance", "events": r}))
    n_pred = 0
    if bad:
        # do the violating executions conform to the spec (i.e. does the faithful spec predict them)?
        n_pred, rej2 = validate(ctx, [r for r, _ in bad], "TraceDownload_conf.cfg", "confbad")
        for r, why in rej2:
            violations.append(Violation(key="nonconformance %s" % describe(r),
                                        desc="real Store.Download deviates from Download.tla: %s; input: %s" % (why, describe(r)),
                                        replay={"class": "nonconformance", "events": r}))

    abstract = set()
    outcomes = {}
    for r in runs:
        for ev in r[1:-1]:
            abstract.add((tuple(r[0]["args"]["content"]), tuple(ev["obs"]["file"]), ev["obs"]["range"], ev["obs"]["hasrange"]))
        o = r[-1]["obs"]
        k = "%s/%s" % (o["err"], "target" if o["target"]["present"] else "notarget")
        outcomes[k] = outcomes.get(k, 0) + 1
    if not violations and (len(abstract) < 20 or outcomes.get("none/target", 0) < 10 or outcomes.get("hash/notarget", 0) < 5):
        raise InfraError("vacuity guard: real executions too uniform: %s, %d abstract states" % (outcomes, len(abstract)))

    samples = [{"input": describe(r), "outcome": r[-1]["obs"]} for r in
               [runs[0], runs[len(runs) // 3], runs[len(runs) // 2], runs[-1]]]
    cov = {
        "states": main.distinct, "transitions": main.generated, "tlc_depth": main.depth,
        "tlc_config": main_cfg, "tlc_wall_s": round(main.wall, 1),
        "statement_config": stmt_cfg, "statement_holds_on_spec": design_ok,
        "spec_variant": variant,
        "tlc_constants": _constants(main_cfg),
        "action_coverage": tlc.coverage_summary(main),
        "traces_validated_against_impl": n_ok + n_pred,
        "real_executions": len(runs), "real_requests": sum(len(r) - 2 for r in runs),
        "real_distinct_abstract_request_states": len(abstract),
        "real_outcomes": outcomes,
        "tlc_simulated_behaviours_replayed": sum(1 for c in cases if c["case"].startswith("s")),
        "statement_violations_on_real_code": {k: len(v) for k, v in by_class.items()},
        "violating_executions_predicted_by_spec": n_pred,
        "samples": samples,
    }
    return Result(level="model_checking", coverage=cov, notes=notes, violations=violations, assumptions=[
        "SHA3-384 abstracted as equality with the content in the spec (real digest used on the real side)",
        "bytes abstracted to two symbols; content[1] fixed w.l.o.g. (symbol renaming symmetry)",
        "exhaustive bounds: content length / file length / number of responses as in tlc_constants",
        "retry delays mocked to ~0 (LimitCount kept); time limit of the retry strategy, cancellation, transfer-speed "
        "monitor, download cache, deltas, filesystem faults (rename/sync errors) are outside the model",
        "DownloadInfo.Size > 0 (declared size), Sha3_384 non-empty, target path initially absent",
    ])


def _constants(cfg):
    out = {}
    with open(os.path.join(common.SPEC, cfg)) as f:
        for ln in f:
            ln = ln.strip()
            if "=" in ln and not ln.startswith("\\*"):
                k, v = ln.split("=", 1)
                out[k.strip()] = v.strip()
    return out
