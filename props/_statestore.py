"""Shared machinery for C05 (reload identity, fresh ids) and C09 (Prune): spec StateStore.tla.

design      : TLC exhaustive on StateStore_mc*.cfg (invariants FreshIds/CountersCoverIds, action properties
              CountersMonotone, ReloadIdentity, NeverRemovesUnfinished, ... listed in the cfg), coverage guarded.
conformance : the Go driver harness/ext/statestore drives a real state.State through seeded op sequences
              (public API only), logs every call with the state projected through public accessors, and TLC
              checks the log against TraceStateStore.tla (I->T): every real step must be the model's step and
              the projected real state must equal the model state; the same invariants/action properties are
              evaluated on the real transitions. At every SaveReload the driver itself compares what it can
              see before/after ReadState of the checkpoint bytes.
"""
import concurrent.futures
import copy
import hashlib
import json
import os

from lib import common, tlc, goharness
from lib.common import Result, Violation, InfraError

C05_PROPS = {"FreshIds", "CountersCoverIds", "CountersMonotone", "ReloadIdentity"}
C09_PROPS = {"NeverRemovesUnfinished", "RemovedOnlyIfDue", "OldestFirst", "PruneExact", "TasksGoWithChange",
             "AbortNotBeforeAbortWait", "AbortWhenDue", "ExpiredVanish"}

# a legal state on which the real Prune panics (see notes/C09.md): change [t1 Do, t2 Done] older than abortWait
PROBE_ABORT_PANIC = {"case": 900001, "ops": [
    {"ev": "NewChange", "args": {"kind": "install", "summary": "s"}},
    {"ev": "NewTask", "args": {"kind": "a", "summary": "t1"}},
    {"ev": "NewTask", "args": {"kind": "b", "summary": "t2"}},
    {"ev": "AddTask", "args": {"c": 1, "t": 1}},
    {"ev": "AddTask", "args": {"c": 1, "t": 2}},
    {"ev": "SetStatus", "args": {"t": 2, "s": "Done"}},
    {"ev": "Tick", "args": {"h": 1000}},
    {"ev": "Prune", "args": {"start": 0, "pw": 24, "aw": 72, "mx": 500}}]}


def owner_of_step(ev):
    return "C09" if ev == "Prune" else "C05"


def owner_of_prop(name):
    if name in C09_PROPS:
        return "C09"
    return "C05"


def run_driver(ctx, tb, out, env):
    e = {"VERIF_OUT": out}
    e.update(env)
    rc, o = goharness.run_test_bin(ctx, tb, "TestVerifStateStore", env=e, timeout=1500)
    goharness.check_driver(rc, o, "statestore driver")
    if not os.path.exists(out):
        raise InfraError("statestore driver wrote no trace\n" + common.tail(o, 20))
    return common.read_ndjson(out)


def split_cases(rows):
    cases, cur = [], None
    for r in rows:
        if r["ev"] == "Reset":
            cur = []
            cases.append(cur)
        cur.append(r)
    return cases


def ops_of(case_rows, upto=None):
    rows = [r for r in case_rows if r["ev"] != "Reset"]
    if upto is not None:
        rows = [r for r in rows if r["i"] <= upto]
    return [{"ev": r["ev"], "args": r["args"]} for r in rows]


def short_ops(ops, n=14):
    def one(o):
        a = o["args"]
        return o["ev"] + "(" + ",".join("%s=%s" % (k, a[k]) for k in sorted(a)) + ")"
    s = [one(o) for o in ops]
    if len(s) > n:
        s = s[:3] + ["...%d more..." % (len(s) - n + 1)] + s[-(n - 4):]
    return " ; ".join(s)


def key_for(case_rows, row, what):
    """Stable, input-specific key: the failing call + a digest of the op sequence that led to it."""
    ops = ops_of(case_rows, row["i"])
    dig = hashlib.sha1(json.dumps(ops, sort_keys=True).encode()).hexdigest()[:10]
    a = row["args"]
    call = row["ev"] + "(" + ",".join("%s=%s" % (k, a[k]) for k in sorted(a)) + ")"
    return "%s: %s after ops#%s" % (what, call, dig)


def validate_chunk(ctx, idx, cases, tag):
    """Validate a list of cases (each a list of rows) with one TLC run; on rejection drop the offending case
    and validate the rest again. Returns (n_accepted_cases, n_lines, rejections[(case_rows,row,reason)])."""
    rej = []
    cases = list(cases)
    lines_ok = 0
    rounds = 0
    acc = []
    d = ctx.subdir("chunk_%s_%d" % (tag, idx))
    while cases:
        rounds += 1
        if rounds > 4:      # plenty of rejected cases already: leave the rest of this chunk unvalidated
            break
        rows = [r for c in cases for r in c]
        path = os.path.join(d, "t%d.ndjson" % rounds)
        common.write_ndjson(path, rows)
        tv = tlc.validate_trace(ctx, "TraceStateStore", "TraceStateStore.cfg", path, timeout=2400,
                                name="tv_%s_%d_%d" % (tag, idx, rounds))
        if tv["accepted"]:
            lines_ok += len(rows)
            return acc + cases, lines_ok, rej
        ln = tv["stuck_line"]
        if not ln or ln < 1 or ln > len(rows):
            raise InfraError("trace validation gave no usable position: %s" % tv["res"].summary())
        row = rows[ln - 1]
        ci = next(i for i, c in enumerate(cases) if any(r is row for r in c))
        reason = ("property " + tv["invariant"]) if tv["invariant"] else "step not allowed by the spec"
        rej.append((cases[ci], row, reason, tv["invariant"]))
        lines_ok += sum(len(c) for c in cases[:ci])
        acc += cases[:ci]
        cases = cases[ci + 1:]          # earlier cases were consumed fine; continue after the bad one
    return acc, lines_ok, rej


def prune_stats(cases):
    """What the real Prune calls did (measured from the projections): vacuity guard + evidence."""
    st = {"prune_calls": 0, "removed_ready_changes": 0, "removed_by_limit_calls": 0, "removed_empty_unready": 0,
          "calls_with_abort": 0, "tasks_removed": 0, "unlinked_tasks_removed": 0,
          "calls_noop": 0}
    for c in cases:
        prev = None
        for r in c:
            if r["ev"] == "Prune" and not r["panic"] and prev is not None:
                st["prune_calls"] += 1
                pre, post = prev["st"], r["st"]
                postc = {x["id"]: x for x in post["changes"]}
                gone = [x for x in pre["changes"] if x["id"] not in postc]
                rr = [x for x in gone if x["ready"] != 0]
                st["removed_ready_changes"] += len(rr)
                lim = (1000 - r["args"]["pw"]) * 1000
                if any(x["ready"] >= lim for x in rr):
                    st["removed_by_limit_calls"] += 1
                st["removed_empty_unready"] += len([x for x in gone if x["ready"] == 0])
                pret = {x["id"]: x for x in pre["tasks"]}
                postt = {x["id"]: x for x in post["tasks"]}
                changed = [t for t in postt if t in pret and pret[t]["status"] != postt[t]["status"]]
                if changed:
                    st["calls_with_abort"] += 1
                st["tasks_removed"] += max(0, pre["taskCount"] - post["taskCount"])
                linked_gone = sum(len(x["tasks"]) for x in gone)
                st["unlinked_tasks_removed"] += max(0, pre["taskCount"] - post["taskCount"] - linked_gone)
                if not gone and not changed and pre["taskCount"] == post["taskCount"]:
                    st["calls_noop"] += 1
            prev = r
    return st


def explain_prune(case_rows, row):
    """For a rejected Prune step: what the real call did, in model hours (the declarative expectation is
    StateStore!PrunePost on the state before)."""
    if row["ev"] != "Prune" or not row.get("st"):
        return ""
    pre = [r for r in case_rows if r["i"] == row["i"] - 1]
    if not pre:
        return ""
    pre, post = pre[0]["st"], row["st"]
    h = lambda t: "-" if t == 0 else "%dh" % (t // 1000)
    postc = {c["id"] for c in post["changes"]}
    fmt = lambda cs: ",".join("#%d(spawn %s ready %s, %d tasks)" % (c["id"], h(c["spawn"]), h(c["ready"]), len(c["tasks"])) for c in cs) or "none"
    gone = [c for c in pre["changes"] if c["id"] not in postc]
    kept = [c for c in pre["changes"] if c["id"] in postc]
    pt = {t["id"]: t["status"] for t in pre["tasks"]}
    ch = ["t%d %s->%s" % (t["id"], pt[t["id"]], t["status"]) for t in post["tasks"] if t["id"] in pt and pt[t["id"]] != t["status"]]
    return " [real Prune at 1000h removed %s; kept %s; task status changes: %s; taskCount %d->%d]" % (
        fmt(gone), fmt(kept), ",".join(ch) or "none", pre["taskCount"], post["taskCount"])


READY = ("Done", "Undone", "Hold", "Error")


def statement_prune_checks(cases):
    """C09's statement read directly off the real Prune calls (pre/post projections), independent of whether TLC
    could follow the case up to there (a case whose reload already deviates is dropped from trace validation
    at that step, but the driver went on and its later Prune calls are still real observations):
    a change with tasks may be removed only if it finished - a ready time that merely appeared across a reload
    (it was zero in the state that was saved) is not a finish."""
    out = []
    for c in cases:
        stamped = {}
        prev = None
        for r in c:
            if r["panic"] or not r.get("st"):
                break
            if prev is not None and r["ev"] == "SaveReload":
                before = {x["id"]: x["ready"] for x in prev["st"]["changes"]}
                for x in r["st"]["changes"]:
                    if before.get(x["id"]) == 0 and x["ready"] != 0:
                        stamped[x["id"]] = r["i"]
            if prev is not None and r["ev"] == "Prune":
                post = {x["id"] for x in r["st"]["changes"]}
                for x in prev["st"]["changes"]:
                    if x["id"] in post or not x["tasks"] or x["status"] in READY:
                        continue
                    if x["ready"] == 0:
                        out.append((c, r, "Prune removed change #%d that never finished (status %s, %d tasks, no ready time)" % (
                            x["id"], x["status"], len(x["tasks"]))))
                    elif x["id"] in stamped:
                        out.append((c, r, "Prune removed unfinished change #%d (status %s, %d tasks): its ready time was zero when saved "
                                    "and appeared with the reload at step %d" % (x["id"], x["status"], len(x["tasks"]), stamped[x["id"]])))
            prev = r
    return out


def op_counts(cases):
    n = {}
    for c in cases:
        for r in c:
            n[r["ev"]] = n.get(r["ev"], 0) + 1
    return n


def distinct_states(cases):
    seen = set()
    for c in cases:
        for r in c:
            seen.add(hashlib.sha1(json.dumps(r["st"], sort_keys=True).encode()).digest())
    return len(seen)


def design(ctx, cfgs, need_actions):
    """TLC exhaustive on each cfg; returns (states, transitions, per-cfg summary, coverage)."""
    tot_d = tot_g = 0
    summ, cov = {}, {}
    for cfg, timeout in cfgs:
        mc = tlc.run(ctx, "StateStore", cfg, coverage=True, timeout=timeout, workers=ctx.pick(8, 16),
                     name="mc_" + cfg.replace(".cfg", ""))
        if not mc.ok:
            raise InfraError("spec-level counterexample / failure on %s: %s\n%s" % (cfg, mc.summary(), common.tail(mc.out, 30)))
        tlc.require_coverage(mc, need_actions)
        tot_d += mc.distinct
        tot_g += mc.generated
        summ[cfg] = {"distinct": mc.distinct, "generated": mc.generated, "depth": mc.depth, "wall_s": round(mc.wall, 1)}
        for k, v in tlc.coverage_summary(mc).items():
            cov[k] = cov.get(k, 0) + v
    return tot_d, tot_g, summ, cov


def binding_selfcheck(ctx, cases):
    """Negative control of the binding itself: corrupt one recorded field of a real, accepted trace; the
    trace spec must reject exactly at that line."""
    rows = [copy.deepcopy(r) for c in cases[:4] for r in c]
    results = []
    def corrupt_task(r):
        if r["st"].get("tasks"):
            r["st"]["tasks"][-1]["spawn"] += 1000
            return True
    def corrupt_ctr(r):
        if r["st"]["ctr"]["lastLane"] > 0:
            r["st"]["ctr"]["lastLane"] -= 1
            return True
    def corrupt_gone(r):
        if r["ev"] == "Prune" and r["st"].get("changes"):
            r["st"]["changes"] = r["st"]["changes"][1:]
            return True
    kinds = [("task.spawn+1h", corrupt_task), ("ctr.lastLane-1", corrupt_ctr), ("Prune: one more change removed", corrupt_gone)]
    if ctx.quick:   # one corruption per quick run (rotating with the seed), all three in the thorough tier
        kinds = kinds[ctx.seed % 3:] + kinds[:ctx.seed % 3]
    for name, f in kinds:
        if ctx.quick and results:
            break
        rs = copy.deepcopy(rows)
        at = None
        for i in range(len(rs) // 2, len(rs)):
            if f(rs[i]):
                at = i + 1
                break
        if at is None:
            continue
        p = os.path.join(ctx.subdir("selfcheck"), "t.ndjson")
        common.write_ndjson(p, rs)
        tv = tlc.validate_trace(ctx, "TraceStateStore", "TraceStateStore.cfg", p, timeout=1200, name="tv_selfcheck")
        ok = (not tv["accepted"]) and tv["stuck_line"] == at
        results.append({"corruption": name, "line": at, "rejected_at": tv["stuck_line"], "ok": ok})
        if not ok:
            raise InfraError("binding self-check failed: corrupted trace (%s at line %d) was not rejected there: %s" % (name, at, tv["stuck_line"]))
    if not results:
        raise InfraError("binding self-check could not corrupt anything")
    return results


def run_replay(ctx, prop):
    """./check <ID> --replay replay/<ID>-*.json : re-run the recorded op list on the real code and re-validate."""
    with open(ctx.replay) as f:
        rp = json.load(f)["replay"]
    tb = goharness.ext_test_build(ctx, "statestore")
    d = ctx.subdir("replay")
    pf = os.path.join(d, "ops.ndjson")
    common.write_ndjson(pf, [{"case": rp.get("case", 1), "ops": rp["ops"]}])
    rows = run_driver(ctx, tb, os.path.join(d, "t.ndjson"), {"VERIF_REPLAY": pf})
    acc_, lines_ok, rej = validate_chunk(ctx, 0, split_cases(rows), "replay")
    violations = []
    for case_rows, row, reason, inv in rej:
        what = ("%s panics: %s" % (row["ev"], row["panic"].split("\n")[0])) if row["panic"] else key_for(case_rows, row, inv or "real step differs from StateStore")
        violations.append(Violation(key=what, desc="replayed: %s at %s%s" % (reason, row["ev"], explain_prune(case_rows, row)),
                                    replay={"ops": ops_of(case_rows, row["i"]), "ret": row["ret"]}))
    return Result(level="model_checking", violations=violations, assumptions=["replay of one recorded case only"],
                  coverage={"states": 1, "transitions": 1, "traces_validated_against_impl": 1 - len(rej),
                            "samples": [short_ops(rp["ops"])], "real_api_calls_validated": lines_ok})


def run(ctx, prop):
    if ctx.replay:
        return run_replay(ctx, prop)
    quick = ctx.quick
    # ---- 1. design
    if prop == "C05":
        cfgs = [("StateStore_mc.cfg", 1500)] if quick else [("StateStore_mc_thorough.cfg", 2400)]
        need = ["Do" + a for a in ("NewChange", "NewTask", "AddTask", "NewLane", "JoinLane", "SetStatus", "Prune", "SaveReload", "Tick")]
    else:
        cfgs = [("StateStore_mc_prune.cfg", 1500)] if quick else [("StateStore_mc_prune_thorough2.cfg", 2400), ("StateStore_mc_prune_thorough.cfg", 2400)]
        need = ["Do" + a for a in ("NewChange", "NewTask", "AddTask", "SetStatus", "Prune", "Tick", "Register", "ChangeSet")]
    ctx.log("design: TLC on", [c for c, _ in cfgs])
    states, transitions, mc_summary, cov = design(ctx, cfgs, need)
    ctx.log("design done: %d distinct / %d generated" % (states, transitions))

    # ---- 2. conformance: real executions
    tb = goharness.ext_test_build(ctx, "statestore")
    if prop == "C05":
        plan = [("random", ctx.pick(36, 900), ctx.pick(35, 50)), ("prune", ctx.pick(8, 200), 30)]
    else:
        plan = [("prune", ctx.pick(36, 1200), ctx.pick(30, 40)), ("random", ctx.pick(6, 150), 40)]
    nchunks = ctx.pick(6, 8)
    all_cases, jobs = [], []
    tdir = ctx.subdir("traces")
    first = 1
    for mode, n, length in plan:
        rows = run_driver(ctx, tb, os.path.join(tdir, mode + ".ndjson"),
                          {"VERIF_MODE": mode, "VERIF_N": n, "VERIF_LEN": length, "VERIF_FIRST": first})
        first += n
        cs = split_cases(rows)
        for c in cs:
            for r in c:
                r["mode"] = mode
        all_cases += cs
    # the probe: a legal state on which Prune is known to panic (kept out of the generator by gen.pruneOK)
    probe_rows = []
    if prop == "C09":
        pf = os.path.join(tdir, "probe_ops.ndjson")
        common.write_ndjson(pf, [PROBE_ABORT_PANIC])
        probe_rows = run_driver(ctx, tb, os.path.join(tdir, "probe.ndjson"), {"VERIF_REPLAY": pf})
    ctx.log("driver: %d cases, %d real API calls" % (len(all_cases), sum(len(c) - 1 for c in all_cases)))

    # ---- 3. validate against the trace spec, in parallel chunks
    per = ctx.pick(10, 60)     # cases per TLC run (bounds the JVM heap a trace needs); nchunks runs in parallel
    chunks = [all_cases[i:i + per] for i in range(0, len(all_cases), per)]
    accepted_cases = []
    lines_ok = 0
    rejections = []
    with concurrent.futures.ThreadPoolExecutor(max_workers=nchunks) as ex:
        futs = [ex.submit(validate_chunk, ctx, i, c, prop) for i, c in enumerate(chunks)]
        for f in futs:
            a, l, rej = f.result()
            accepted_cases += a
            lines_ok += l
            rejections += rej
    accepted = len(accepted_cases)
    ctx.log("trace validation: %d cases accepted, %d rejected, %d left unvalidated" % (
        accepted, len(rejections), len(all_cases) - accepted - len(rejections)))

    violations, other = [], []
    for case_rows, row, reason, inv in rejections:
        ops = ops_of(case_rows, row["i"])
        seedinfo = {"seed": ctx.seed, "tier": ctx.tier, "mode": case_rows[0].get("mode"), "case": row["case"], "step": row["i"]}
        if row["panic"]:
            who = owner_of_step(row["ev"])
            msg = row["panic"].split("\n")[0]
            key = "%s panics: %s" % (row["ev"], " ".join(w for w in msg.split() if not w.isdigit()))
            desc = "real %s panicked (%s) after: %s" % (row["ev"], msg, short_ops(ops))
        elif row.get("stale"):
            who = "C05"
            import re
            d0 = row["stale"][0].replace("changed without a checkpoint: ", "")
            first_diff = re.sub(r"\[\d+\]", "[]", d0.split(":")[0])
            argtag = ",".join("%s=%s" % (k, "0" if row["args"][k] == 0 else "x") for k in sorted(row["args"]) if k in ("when", "v"))
            if row["stale"][0].startswith("changed without a checkpoint"):
                key = "checkpoint stale after %s(%s) at %s" % (row["ev"], argtag, first_diff)
                desc = ("%s changed the state but no checkpoint was handed to the backend in its Lock/Unlock section (state not marked "
                        "modified): %s; ops: %s" % (row["ev"], "; ".join(row["stale"][:4]), short_ops(ops)))
            else:
                key = "reload of the last checkpoint differs after %s(%s) at %s" % (row["ev"], argtag, first_diff)
                desc = ("after %s, ReadState(last checkpoint the backend received) does not show the live state (live -> loaded): %s; ops: %s"
                        % (row["ev"], "; ".join(row["stale"][:4]), short_ops(ops)))
        elif row["ev"] == "SaveReload" and not row["ret"].get("same", True):
            who = "C05"
            diffs = row["ret"].get("diffs") or [row["ret"].get("err", "?")]
            import re
            first_diff = re.sub(r"\[\d+\]", "[]", diffs[0].split(":")[0])
            key = "reload differs at %s" % first_diff
            desc = "state seen after ReadState(checkpoint) differs from the state saved: %s; ops: %s" % ("; ".join(diffs[:4]), short_ops(ops))
        else:
            who = owner_of_prop(inv) if inv else owner_of_step(row["ev"])
            key = key_for(case_rows, row, inv or "real step differs from StateStore")
            desc = "%s at %s (case %s step %s): real post-state is not the spec's%s; ops: %s" % (
                reason, row["ev"], row["case"], row["i"], explain_prune(case_rows, row), short_ops(ops))
        v = Violation(key=key, desc=desc, replay={"how": "VERIF_REPLAY=<file with this object as one line> go test -run TestVerifStateStore (harness/ext/statestore)",
                                                  "case": row["case"], "ops": ops, "info": seedinfo,
                                                  "real_post_state": row["st"], "ret": row["ret"], "panic": row["panic"]})
        # a deviation that only shows at a later step of a case that pruned before may stem from hidden state
        # either op left behind (expired notices kept in memory, last recorded notice status): both checks report it
        pruned_before = any(r["ev"] == "Prune" and r["i"] < row["i"] for r in case_rows)
        mine = who == prop or (pruned_before and row["ev"] not in ("Prune", "SaveReload") and not row["panic"] and not inv
                               and not row.get("stale"))
        (violations if mine else other).append(v)
    if prop == "C09":
        for case_rows, row, what in statement_prune_checks(all_cases):
            ops = ops_of(case_rows, row["i"])
            violations.append(Violation(
                key=key_for(case_rows, row, "unfinished change removed"),
                desc="%s%s; ops: %s" % (what, explain_prune(case_rows, row), short_ops(ops, 18)),
                replay={"case": row["case"], "ops": ops, "real_post_state": row["st"]}))
    for r in probe_rows:
        if r["panic"]:
            msg = r["panic"].split("\n")[0]
            violations.append(Violation(
                key="%s panics: %s" % (r["ev"], " ".join(w for w in msg.split() if not w.isdigit())),
                desc="Prune(abortWait=72h) on a 100h-old unready change with tasks [t1:Do, t2:Done] (same lane) panics: %s" % msg,
                replay={"ops": PROBE_ABORT_PANIC["ops"], "panic": r["panic"]}))
    # collapse identical keys (same defect hit by several cases)
    uniq = {}
    for v in violations:
        uniq.setdefault(v.key, v)
    violations = list(uniq.values())

    # ---- 4. vacuity guards on the real executions
    ok_cases = accepted_cases
    oc = op_counts(ok_cases)
    ps = prune_stats(ok_cases)
    reloads = oc.get("SaveReload", 0)
    if not rejections:
        if prop == "C05" and (reloads < 20 or oc.get("NewLane", 0) < 5 or oc.get("AddNotice", 0) < 5):
            raise InfraError("vacuity guard: too few reloads/id allocations in real traces: %s" % oc)
        if prop == "C09" and (ps["removed_ready_changes"] < 10 or ps["calls_with_abort"] < 3 or ps["removed_by_limit_calls"] < 3):
            raise InfraError("vacuity guard: real Prune calls did too little: %s" % ps)

    # ---- 5. the binding rejects corrupted observations
    try:
        if not ok_cases:
            raise InfraError("binding self-check: no accepted real trace to corrupt")
        selfcheck = binding_selfcheck(ctx, [c for c in ok_cases if any(r["ev"] == "Prune" for r in c)][:4] or ok_cases[:4])
    except InfraError as e:
        if not violations:      # real violations are reported first; self-check trouble alone is exit 2
            raise
        selfcheck = [{"skipped_or_failed": str(e)[:300]}]

    samples = []
    for c in (ok_cases or all_cases)[:3]:
        samples.append({"case": c[0]["case"], "mode": c[0].get("mode"), "ops": short_ops(ops_of(c), 10),
                        "final": {"changes": [(x["id"], x["status"]) for x in c[-1]["st"].get("changes", [])],
                                  "taskCount": c[-1]["st"].get("taskCount"), "ctr": c[-1]["st"].get("ctr")}})
    coverage = {
        "states": states, "transitions": transitions, "tlc_runs": mc_summary, "action_coverage": cov,
        "traces_validated_against_impl": accepted, "real_api_calls_validated": lines_ok,
        "real_cases_rejected": len(rejections), "rejections_belonging_to_other_property": [v.key for v in other][:10],
        "distinct_real_states": distinct_states(ok_cases), "real_op_counts": oc, "real_prune_stats": ps,
        "reloads_compared": reloads, "binding_selfcheck": selfcheck, "samples": samples,
        "tlc_constants": {"trace": "H=1000h TU=1000 NoticeExpire=168h WarnExpire=672h Keys=k1..k3", "mc": [c for c, _ in cfgs]},
    }
    assumptions = [
        "times are mocked at hour granularity (realNow-(1000-h)h+30min); Prune/expiry read the real clock = hour 1000",
        "task graphs are acyclic, no Do task waits for an Undo task, edges stay inside one change at Prune time (snapd adds whole task sets)",
        "Done tasks undone by an abort (lane logic, C01) and the number of change-update notices an abort records are read from the log, within the envelope StateStore!Prune allows",
        "doing-time/undoing-time are not settable through the public API and stay 0",
        "unlinked tasks are only countable (TaskCount) after a reload/prune unless an edge from a linked task reaches them",
    ]
    notes = []
    if other:
        notes.append("%d rejected case(s) fail at a step owned by the other property (%s): not reported here" % (
            len(other), "C09" if prop == "C05" else "C05"))
    return Result(level="model_checking", coverage=coverage, assumptions=assumptions, violations=violations, notes=notes)
