"""C23, tree variant: real osutil.EnsureTreeState runs judged by TraceSyncTree.tla (SyncTree.tla)."""
import random

from lib import tlc
from lib.common import InfraError, Violation
from props import _syncdir as S


def tree_case(k, rnd, i, runs):
    subs = sorted(k["SubDirs"])
    dirs = ["."] + subs
    m, u = sorted(k["Managed"]), sorted(k["Unmanaged"])
    ftok = ["f:%s:%s" % (c, p) for c in k["Contents"] for p in k["Perms"]]
    btok = ["bad:%s" % b for b in k["BadKinds"]]
    init, des = {}, {}
    bad_used = False
    for d in dirs:
        exists = d == "." or rnd.random() < 0.7
        init[d + "/"] = "dir" if exists else "nodir"
        for n in m:
            init["%s/%s" % (d, n)] = rnd.choice(k["TreeEntryTok"]) if exists else "none"
        for n in u:
            init["%s/%s" % (d, n)] = rnd.choice(k["UnmanagedTok"]) if exists and rnd.random() < 0.6 else "none"
        listed = rnd.random() < 0.6
        des[d + "/"] = "listed" if listed else "absent"
        for n in m:
            key = "%s/%s" % (d, n)
            des[key] = "absent"
            if listed and rnd.random() < 0.75:
                if not bad_used and rnd.random() < 0.2:
                    des[key] = rnd.choice(btok)
                    bad_used = True
                elif init[key] in ftok and rnd.random() < 0.3:
                    des[key] = init[key]
                else:
                    des[key] = rnd.choice(ftok)
        for n in u:
            des["%s/%s" % (d, n)] = "absent"
    return {"case": "t%d" % i, "tree": True, "init": init, "des": des, "globs": rnd.choice([0, 2]),
            "flavour": rnd.randrange(3), "runs": runs}


def tree_key(c, o=None):
    ini = ",".join("%s=%s" % (n, c["init"][n]) for n in sorted(c["init"]) if c["init"][n] not in ("none", "dir"))
    des = ",".join("%s=%s" % (n, c["des"][n]) for n in sorted(c["des"]) if c["des"][n] != "absent")
    s = "EnsureTreeState{init:%s;want:%s" % (ini, des)
    if o is not None:
        got = ",".join("%s=%s" % (n, o["dir"][n]) for n in sorted(o["dir"]) if o["dir"][n] not in ("none", "dir"))
        s += ";got:err=%d,%s;changed=%s;removed=%s" % (1 if o["err"] else 0, got, "+".join(o["changed"]), "+".join(o["removed"]))
        if o.get("extra"):
            s += ";extra=%s" % "+".join(o["extra"])
    return s + "}"


def tree_design(ctx):
    """TLC on the tree model itself (+ in the thorough tier its vacuity monitors, which must be violated)"""
    cfg = ctx.pick("SyncTree_mc_quick.cfg", "SyncTree_mc.cfg")
    mc = tlc.run(ctx, "SyncTree", cfg, workers=ctx.pick(2, 8), timeout=ctx.pick(900, 1800), name="tlc_SyncTree")
    if not mc.ok:
        raise InfraError("spec-level counterexample in %s: %s" % (cfg, mc.summary()))
    if not ctx.quick:
        for vcfg, inv in (("SyncTree_vac1.cfg", "NoTreeFailClosed"), ("SyncTree_vac2.cfg", "NoUnrelatedDirRemoved")):
            v = tlc.run(ctx, "SyncTree", vcfg, workers=2, timeout=900, name="tlc_" + inv)
            if not (v.kind == "invariant" and v.name == inv):
                raise InfraError("vacuity guard: %s was expected to be violated (%s)" % (inv, v.summary()))
    return {"mc": mc, "cfg": cfg}


def run_tree(ctx, binary, rnd):
    k = S.cfg_constants("TraceSyncTree.cfg")
    runs = ctx.pick(3, 5)
    cases = [tree_case(k, rnd, i, runs) for i in range(ctx.pick(200, 3000))]
    obs, execs = S.run_real(ctx, binary, cases, "real_tree")
    if len(obs) != len(cases):
        raise InfraError("tree driver returned %d results for %d cases" % (len(obs), len(cases)))
    violations, drift = [], []
    lines = []
    for r in obs:
        for o in r["outs"]:
            if o.get("panic"):
                violations.append(Violation(tree_key(r) + " panic", "EnsureTreeState panicked: %s" % o["panic"], {"case": r}))
        r["outs"] = [o for o in r["outs"] if not o.get("panic")]
        lines.append(S.strip_for_tlc(r))
    verdicts = S.tlc_judge(ctx, "TraceSyncTree", "TraceSyncTree.cfg", lines, ctx.pick(2, 8))
    classes = {}
    dirgone = []
    multi_seen = 0
    for r, v in zip(obs, verdicts):
        if len(r["outs"]) > 1:
            multi_seen += 1
        for j, o in enumerate(r["outs"]):
            cls = ("err" if o["err"] else "ok") + ("/writefail" if v["wfail"] else "")
            classes[cls] = classes.get(cls, 0) + 1
            if not v["post"][j] or o["extra"]:
                violations.append(Violation(
                    tree_key(r, o), "EnsureTreeState: %s (err=%s errmsg=%r)" % (
                        "leftover entries %s" % o["extra"] if o["extra"] and v["post"][j] else "statement violated",
                        o["err"], o.get("errmsg", "")),
                    {"case": {x: r[x] for x in ("case", "init", "des", "globs", "flavour")}, "outcome": o}))
            elif not v["member"][j]:
                drift.append(tree_key(r, o))
            if v["dirgone"][j]:
                dirgone.append(tree_key(r, o))
    for need in ("ok", "err/writefail"):
        if classes.get(need, 0) == 0 and not violations:
            raise InfraError("vacuity guard (tree): no real outcome of class %r" % need)
    return {"violations": violations, "drift": drift, "cases": len(cases), "execs": execs,
            "coverage": {"cases": len(cases), "real_executions": execs, "real_outcome_classes": classes,
                         "cases_where_several_outcomes_were_observed": multi_seen,
                         "unrelated_empty_dir_removed_observations": len(dirgone),
                         "unrelated_empty_dir_removed_example": dirgone[:1]}}


# ---------------------------------------------------------------- security backends, end to end
def run_backends(ctx):
    """One success and one failing-write scenario through the exported Setup of the apparmor and seccomp
    backends (overlay tests in their own test packages); judged by TraceSyncDir as partial observations."""
    import os
    from lib import common, goharness
    d = ctx.subdir("backends")
    outp = os.path.join(d, "e2e.ndjson")
    for pkg in ("apparmor", "seccomp"):
        tb = goharness.overlay_test_build(ctx, "interfaces/" + pkg,
                                          [os.path.join(common.HARNESS, "overlay", pkg, "zz_verif_c23_test.go")])
        rc, o = goharness.run_test_bin(ctx, tb, "^Test$", env={"VERIF_OUT": outp}, args=["-check.f", "TestVerifC23"],
                                       cwd=os.path.join(common.REPO, "interfaces", pkg), timeout=600)
        goharness.check_driver(rc, o, "%s backend e2e driver" % pkg)
    obs = common.read_ndjson(outp)
    if len(obs) != 4:
        raise InfraError("backend e2e drivers produced %d observations, expected 4" % len(obs))
    lines = [{"case": r["case"], "init": r["init"], "des": r["des"], "partial": True,
              "outs": [{"dir": r["dir"], "changed": [], "removed": [], "err": bool(r["err"])}]} for r in obs]
    verdicts = S.tlc_judge(ctx, "TraceSyncDir", "TraceSyncDir.cfg", lines, 1)
    violations, drift, seen = [], [], {}
    for r, v in zip(obs, verdicts):
        if not v["indom"]:
            raise InfraError("backend e2e case outside the spec's domain: %s" % r)
        key = "%s backend Setup{%s;want:%s;got:err=%d,%s%s}" % (
            r["backend"], ",".join("%s=%s" % (r["names"][a], t) for a, t in sorted(r["init"].items()) if t != "none"),
            ",".join("%s=%s" % (r["names"][a], t) for a, t in sorted(r["des"].items()) if t != "absent"),
            1 if r["err"] else 0, ",".join("%s=%s" % (r["names"][a], t) for a, t in sorted(r["dir"].items()) if t != "none"),
            ";extra=" + "+".join(r["extra"]) if r["extra"] else "")
        seen[r["case"]] = {"err": r["err"], "dir": {r["names"][a]: t for a, t in r["dir"].items()}}
        if not v["post"][0] or r["extra"]:
            violations.append(Violation(key, "%s backend: profile directory not synchronised as stated (err=%r)" % (
                r["backend"], r["errmsg"]), r))
        elif not v["member"][0]:
            drift.append(key)
        if r["case"].endswith("failclosed") and not (v["wfail"] and r["err"]) and not violations:
            raise InfraError("backend e2e: the failing-write scenario did not fail (%s)" % r["case"])
    return {"violations": violations, "drift": drift, "cases": len(obs), "observations": seen}
