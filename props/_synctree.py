"""C23: EnsureTreeState + security backends (stub while the directory part is brought up)."""


def run_tree(ctx, binary, rnd):
    return {"violations": [], "drift": [], "cases": 0, "execs": 0, "coverage": {}}
