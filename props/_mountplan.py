"""C28 shared logic: MountPlan.tla / MountPlanMC.tla (design), TraceMountPlan.tla (I->T on updates recorded from
the real neededChanges / executeMountProfileUpdate), MountCodec.tla (entry codec table, T->I)."""
import collections
import concurrent.futures
import copy
import json
import os

from lib import common, tlc, goharness
from lib.common import Violation, InfraError

OVERLAY = os.path.join(common.HARNESS, "overlay", "snap-update-ns", "zz_verif_mountplan_test.go")
PKG_DIR = os.path.join(common.REPO, "cmd", "snap-update-ns")

CLAUSE_TEXT = {
    "PlanCoversCurrent": "the plan does not keep-or-unmount every current entry exactly once / mounts a non-desired entry",
    "ApplyMatches": "the recorded profile is not what executing the plan records",
    "ProfileRoundTrip": "the profile written by the update does not read back unchanged",
    "Result.missing-desired": "a desired entry is neither mounted nor recorded although no change failed",
    "Result.stale-entry-kept": "an entry that is neither desired nor a helper still supporting a desired entry stays in the profile",
    "Result.stale-or-extra": "an entry that is neither desired nor a helper still supporting a desired entry stays in the profile",
    "Result.new-helper-unsupported": "a newly synthesised helper entry does not name a desired entry",
    "HelperSupportKept": "a helper is unmounted although the entry it supports is kept in place",
    "KeptInPlace": "an unchanged entry that is not beneath a changed one is not kept in place",
    "UnmountOrder": "an entry is unmounted before an entry listed after it in the profile and mounted beneath it",
    "UnmountOrderTrue": "an entry is unmounted before an entry that was mounted beneath it after it",
    "UnmountOrder.entry-beneath-stays-kept": "an entry is unmounted while an entry mounted beneath it after it is kept (never unmounted)",
    "MountOrder": "an entry is mounted before a same-origin entry whose directory contains it",
    "HistoryChain": "harness: current profile is not the previously recorded one",
    "HistoryStart": "harness: history does not start from the empty / snap-confine namespace",
}


# Clauses evaluated and counted but never reported as violations (they ask for more than the statement).
INFORMATIONAL = {
    "HelperSupportKept": "the statement only bounds the helpers from above ('plus only those ... that still support a desired "
                         "entry'); it does not demand that a still-needed helper is kept (lead's decision)",
}

# ------------------------------------------------------------------------------------------------ design

def design(ctx, cfgs, workers):
    """Exhaustive TLC runs of the history loop with the reference planner; every clause is an invariant."""
    out = []
    for cfg, timeout in cfgs:
        mc = tlc.run(ctx, "MountPlanMC", cfg, workers=workers, timeout=timeout, name="mc_" + cfg.replace(".cfg", ""))
        if not mc.ok:
            raise InfraError("spec-level counterexample in MountPlanMC/%s: %s (the reference planner violates a "
                             "clause: triage the spec)" % (cfg, mc.summary()))
        if mc.distinct < 50 or mc.depth < 4:
            raise InfraError("vacuity guard: MountPlanMC/%s explored only %d states, depth %d" % (cfg, mc.distinct, mc.depth))
        ctx.log("TLC MountPlanMC/%s: %d generated, %d distinct, depth %d, %.0fs" % (cfg, mc.generated, mc.distinct, mc.depth, mc.wall))
        out.append({"cfg": cfg, "generated": mc.generated, "distinct": mc.distinct, "depth": mc.depth, "wall_s": round(mc.wall, 1)})
    return out


def _spec_entry(e):
    """abstract description (as understood by the Go driver) of an entry record of MountPlanMC"""
    p = "/".join(e["p"])
    o = e["o"]
    if e["t"] == "tmpfs":
        typ, v = "tmpfs", int([x for x in o if x.startswith("mode=")][0][-1])
    elif e["k"] == "file":
        typ, v = "file", int(e["n"][-1])
    elif e["k"] == "symlink":
        typ, v = "symlink", int([x for x in o if x.startswith("x-snapd.symlink=")][0][-1])
    else:
        typ, v = ("rbind" if "rbind" in o else "bind"), int(e["n"][-1])
    return {"p": p, "typ": typ, "origin": e["g"], "v": v}


def reverse_counterexample(ctx, workers):
    """The reference planner with keeps recorded backwards must violate UnmountOrderTrue: spec sensitivity
    check, and the counterexample is a history to replay on the real code (T->I)."""
    res = tlc.run(ctx, "MountPlanMC", "MountPlan_rev.cfg", workers=workers, timeout=1500, name="mc_rev")
    if res.ok or res.kind != "invariant" or res.name != "InvUnmountOrderTrue":
        raise InfraError("MountPlan_rev.cfg: expected a counterexample to InvUnmountOrderTrue, got %s" % res.summary())
    updates = []
    for st in res.trace[1:]:
        updates.append([_spec_entry(e) for e in st["vars"]["des"]])
    if len(updates) < 3:
        raise InfraError("MountPlan_rev.cfg: counterexample too short: %r" % (res.trace,))
    return {"case": "tlc-rev", "rootfs": False, "updates": updates}


def simulate_histories(ctx, n, seed):
    """Random behaviours of the history loop (reference planner): histories + the result sets the spec predicts."""
    res = tlc.run(ctx, "MountPlanMC", "MountPlan_sim.cfg", workers=1, simulate={"num": n, "file": True}, depth=4,
                  seed=seed, timeout=900, name="mc_sim")
    if res.kind is not None:
        raise InfraError("simulation of MountPlanMC failed: %s" % res.summary())
    cases, pred = [], {}
    for i, beh in enumerate(tlc.sim_behaviours(res)):
        ups, cur = [], []
        for st in beh[1:]:
            ups.append([_spec_entry(e) for e in st["vars"]["des"]])
            cur.append(sorted(e["c"] + " " + ",".join(e["o"]) for e in st["vars"]["current"]))
        if ups:
            name = "tlc-sim-%d" % i
            cases.append({"case": name, "rootfs": False, "updates": ups})
            pred[name] = cur
    return cases, pred


# ------------------------------------------------------------------------------------------------ real code

def build_driver(ctx):
    return goharness.overlay_test_build(ctx, "cmd/snap-update-ns", [OVERLAY], cgo_shim=True)


def run_driver(ctx, binary, name, env, timeout=1500):
    d = ctx.subdir(name)
    out = os.path.join(d, "t.ndjson")
    e = {"VERIF_OUT": out, "VERIF_TMP": d}
    e.update(env)
    rc, o = goharness.run_test_bin(ctx, binary, "TestVerifMountPlan$", env=e, cwd=PKG_DIR, timeout=timeout)
    goharness.check_driver(rc, o, "mount plan driver (%s)" % name)
    if not os.path.exists(out + ".summary"):
        raise InfraError("mount plan driver wrote no summary:\n%s" % common.tail(o, 20))
    with open(out + ".summary") as f:
        return json.load(f)


def _validate_file(ctx, path, idx, timeout):
    viol = path + ".viol.json"
    res = tlc.run(ctx, "TraceMountPlan", "TraceMountPlan.cfg", workers=1, env={"VERIF_TRACE": path, "VERIF_VIOL": viol},
                  timeout=timeout, heap="3g", name="trace_%s" % idx)
    if not res.ok or not os.path.exists(viol):
        raise InfraError("trace validation of %s did not complete: %s\n%s" % (path, res.summary(), common.tail(res.out, 25)))
    with open(viol) as f:
        rep = json.load(f)
    lines = common.read_ndjson(path)
    if rep["lines"] != len(lines):
        raise InfraError("trace validation consumed %s of %d lines of %s" % (rep["lines"], len(lines), path))
    return rep, lines


def validate(ctx, files, parallel, timeout=2400):
    """TLC evaluates every clause on every recorded update. -> (failing [(tags, line record)], counters, lines)"""
    failing, cov, nlines, nbad, truncated = [], collections.Counter(), 0, 0, False
    distinct = set()
    samples = []
    with concurrent.futures.ThreadPoolExecutor(max_workers=parallel) as ex:
        futs = [ex.submit(_validate_file, ctx, p, "%s_%d" % (os.path.basename(p).replace(".", "_"), i), timeout)
                for i, p in enumerate(files)]
        for fu in futs:
            rep, lines = fu.result()
            nlines += len(lines)
            nbad += rep["nbad"]
            if rep["nbad"] > len(rep["viol"]):
                truncated = True
            for k, v in rep["cov"].items():
                cov[k] += v
            for v in rep["viol"]:
                failing.append((sorted(v["tags"]), lines[v["line"] - 1]))
            for ln in lines:
                distinct.add((tuple(e["c"] for e in ln["cur"]), tuple(e["c"] for e in ln["des"])))
            for ln in lines:
                if len(samples) < 4 and ln["step"] == 3 and any(c["synth"] for c in ln["plan"]) \
                        and any(c["act"] == "keep" for c in ln["plan"]) and any(c["act"] == "unmount" for c in ln["plan"]):
                    samples.append(sample_of(ln))
    return {"failing": failing, "cov": dict(cov), "lines": nlines, "bad_lines": nbad, "truncated": truncated,
            "distinct_cur_des": len(distinct), "samples": samples}


def sample_of(ln):
    def ent(e):
        return "%s %s %s %s" % (e["n"], e["d"], e["t"], ",".join(e["o"]))
    return {"case": ln["case"], "step": ln["step"], "history": ln["hist"],
            "current": [ent(e) for e in ln["cur"]], "desired": [ent(e) for e in ln["des"]],
            "plan": ["%s%s %s%s" % (c["act"], "" if c["ok"] else "(FAILED)", ent(c["e"]),
                                      (" +synth[%s]" % "; ".join(s["d"] for s in c["synth"])) if c["synth"] else "")
                     for c in ln["plan"]],
            "result": [ent(e) for e in ln["res"]]}


def hist_prefix(ln):
    """the history up to and including the failing update"""
    h = ln["hist"]
    rootfs = h.startswith("rootfs ")
    if rootfs:
        h = h[len("rootfs "):]
    ups, depth, cur = [], 0, ""
    for ch in h:
        cur += ch
        if ch == "]":
            ups.append(cur.strip())
            cur = ""
    return ("rootfs " if rootfs else "") + " ".join(ups[:ln["step"]])


def violations_from(failing):
    """One Violation per violated clause (sub-class), with the smallest witness; the key is
    '<clause>: <history up to the failing update>'."""
    by = collections.defaultdict(list)
    for tags, ln in failing:
        for t in tags:
            by[t].append(ln)
    out, info = [], {}
    for tag in sorted(by):
        lns = by[tag]
        w = min(lns, key=lambda l: (l["step"], len(hist_prefix(l)), hist_prefix(l)))
        if tag.split("/")[0] in INFORMATIONAL:
            info[tag] = {"updates": len(lns), "smallest_history": hist_prefix(w), "why_not_a_violation": INFORMATIONAL[tag.split("/")[0]]}
            continue
        clause = tag.split("/")[0]
        text = CLAUSE_TEXT.get(clause, clause)
        key = "%s: %s" % (tag, hist_prefix(w))
        out.append(Violation(key=key,
                             desc="C28 %s -- %s; %d recorded update(s) of the real code, smallest history: %s (update %d)"
                                  % (tag, text, len(lns), hist_prefix(w), w["step"]),
                             replay={"clause": tag, "witness": sample_of(w), "occurrences": len(lns),
                                     "how": "VERIF_REPLAY=<json [{case,rootfs,updates}]> TestVerifMountPlan, then TraceMountPlan.tla"}))
    return out, {t: len(v) for t, v in by.items() if t.split("/")[0] not in INFORMATIONAL}, info


def corrupt_control(ctx, files):
    """Binding is real: corrupting one recorded field of real updates must make TLC report the matching clause."""
    lines = common.read_ndjson(files[0])
    picked = {}
    for ln in lines:
        if ln["aborted"]:
            continue
        if "drop-result" not in picked and ln["step"] == 1 and len(ln["res"]) >= 2 and ln["case"] not in [c for c, _ in picked.values()]:
            picked["drop-result"] = (ln["case"], 1)
        unm = {c["e"]["c"] for c in ln["plan"] if c["act"] == "unmount"}
        cur = [e for e in ln["cur"] if e["c"] in unm and e["k"] != "ensure-dir"]
        # a parent listed in the profile before an entry beneath it, both unmounted by this update
        if "swap-unmounts" not in picked and ln["step"] >= 2 and ln["case"] not in [c for c, _ in picked.values()] and \
                any(len(b["p"]) > len(a["p"]) and b["p"][:len(a["p"])] == a["p"]
                    for i, a in enumerate(cur) for b in cur[i + 1:]):
            picked["swap-unmounts"] = (ln["case"], ln["step"])
        if "keep-to-unmount" not in picked and ln["step"] >= 2 and any(c["act"] == "keep" and not c["e"]["s"] for c in ln["plan"]) \
                and ln["case"] not in [c for c, _ in picked.values()]:
            picked["keep-to-unmount"] = (ln["case"], ln["step"])
    if len(picked) < 3:
        raise InfraError("corruption control: no suitable recorded updates found (%s)" % picked)
    out, expect = [], {}
    for kind, (case, at) in picked.items():
        hist = [copy.deepcopy(l) for l in lines if l["case"] == case]
        orig = copy.deepcopy(hist)
        for l in orig:
            l["case"] = kind + "-orig"
        for l in hist:
            l["case"] = kind
        if kind == "drop-result":
            hist, orig = hist[:1], orig[:1]
            hist[0]["res"] = hist[0]["res"][:-1]
            expect[kind] = {"ApplyMatches"}
        elif kind == "swap-unmounts":
            for n, l in enumerate(hist):
                um = [i for i, c in enumerate(l["plan"]) if c["act"] == "unmount"]
                if l["step"] == at:
                    vals = [l["plan"][i] for i in um][::-1]          # reverse the unmounts
                    for i, v in zip(um, vals):
                        l["plan"][i] = v
                    hist, orig = hist[:n + 1], orig[:n + 1]
                    break
            expect[kind] = {"UnmountOrder", "UnmountOrderTrue"}
        else:
            for n, l in enumerate(hist):
                ks = [i for i, c in enumerate(l["plan"]) if c["act"] == "keep" and not c["e"]["s"]]
                if l["step"] == at:
                    l["plan"][ks[0]]["act"] = "unmount"
                    hist, orig = hist[:n + 1], orig[:n + 1]
                    break
            expect[kind] = {"ApplyMatches", "PlanCoversCurrent", "KeptInPlace"}
        out.extend(orig)
        out.extend(hist)
    d = ctx.subdir("corrupt")
    p = os.path.join(d, "corrupt.ndjson")
    common.write_ndjson(p, out)
    rep, lns = _validate_file(ctx, p, "corrupt", 600)
    got = collections.defaultdict(set)
    for v in rep["viol"]:
        got[lns[v["line"] - 1]["case"]].update(v["tags"])
    for kind, exp in expect.items():
        # the verdict on the expected clauses must differ between the recorded and the corrupted updates
        a = {t.split("/")[0] for t in got.get(kind, set())} & exp
        b = {t.split("/")[0] for t in got.get(kind + "-orig", set())} & exp
        if a == b:
            raise InfraError("corruption control %s: TLC gives the same verdict for corrupted real updates (%s) as for the "
                             "recorded ones (%s)" % (kind, sorted(got.get(kind, [])), sorted(got.get(kind + "-orig", []))))
    return {k: sorted(v) for k, v in got.items() if not k.endswith("-orig")}


# ------------------------------------------------------------------------------------------------ codec

TRIMMED = {"cr": "carriage return", "vt": "vertical tab", "ff": "form feed", "nel": "U+0085", "nbsp": "U+00A0"}


def codec(ctx, cfg, n_random):
    d = ctx.subdir("codec")
    table = os.path.join(d, "table.json")
    mc = tlc.run(ctx, "MountCodec", cfg, workers=1, env={"VERIF_OUT": table}, timeout=2400, heap="6g", name="tlc_codec")
    if not mc.ok or not os.path.exists(table):
        # the ASSUME states the laws on the model for the domain without carriage returns
        raise InfraError("MountCodec/%s: the model violates a round-trip law or did not finish: %s\n%s"
                         % (cfg, mc.summary(), common.tail(mc.out, 20)))
    with open(table) as f:
        spec_rows = json.load(f)["rows"]
    tb = goharness.ext_test_build(ctx, "mountentry")
    out = os.path.join(d, "real.json")
    rc, o = goharness.run_test_bin(ctx, tb, "TestVerifMountCodec$", env={"VERIF_TABLE": table, "VERIF_OUT": out,
                                                                        "VERIF_TMP": d, "VERIF_N": n_random}, timeout=1200)
    goharness.check_driver(rc, o, "mount entry codec driver")
    with open(out) as f:
        real = json.load(f)
    spec = {(tuple(r["tok"]), r["pos"]): r for r in spec_rows}
    if len(real["rows"]) != len(spec):
        raise InfraError("codec driver evaluated %d of %d rows" % (len(real["rows"]), len(spec)))
    fails = collections.defaultdict(list)
    drift = []
    posname = {"n": "Name", "d": "Dir", "t": "Type", "o": "Options"}
    for r in real["rows"]:
        s = spec[(tuple(r["tok"]), r["pos"])]
        laws_ok = r["lawesc"] and r["lawparse"] and r["lawload"] and r["file_agree"]
        if not laws_ok:
            law = "escape-unescape" if not r["lawesc"] else "parse-print" if not r["lawparse"] else "profile-roundtrip"
            lead = r["tok"][0]
            cls = "codec/%s/%s-leading-%s" % (law, posname[r["pos"]], lead) if (law == "profile-roundtrip" and lead in TRIMMED
                                                                                  and r["pos"] == "n") \
                else "codec/%s/%s" % (law, posname[r["pos"]])
            fails[cls].append(r)
        for k in ("field", "esc", "line", "lawesc", "lawparse", "lawload"):
            if s[k] != r[k]:
                drift.append((k, r["tok"], r["pos"], s[k], r[k]))
    # random part (real code only)
    rfail = collections.defaultdict(list)
    for c in real["random"]:
        if c["lawparse"] and c["lawload"]:
            continue
        leads = sorted({e[0].split()[0] for e in c["entries"] if e[0].split()[0] in TRIMMED})
        if c["lawparse"] and leads:
            rfail["codec/profile-roundtrip/Name-leading-%s" % leads[0]].append(c)
        else:
            rfail["codec/%s/random-other" % ("parse-print" if not c["lawparse"] else "profile-roundtrip")].append(c)
    violations = []
    for cls in sorted(set(fails) | set(rfail)):
        rows = fails.get(cls, [])
        if rows:
            w = min(rows, key=lambda r: (len(r["tok"]), r["tok"]))
            key = "%s: %s=%s" % (cls, posname[w["pos"]], json.dumps(w["field"]))
            desc = ("C28 %s -- a mount entry does not read back unchanged: %s=%s prints as %s; %s (%d table rows, %d random profiles)"
                    % (cls, posname[w["pos"]], json.dumps(w["field"]), json.dumps(w["line"]),
                       w.get("read_back") or w.get("parse_err") or w.get("load_err") or "", len(rows), len(rfail.get(cls, []))))
            rep = {"class": cls, "witness": w}
        else:
            w = min(rfail[cls], key=lambda c: len(json.dumps(c["entries"])))
            key = "%s: %s" % (cls, json.dumps(w["entries"]))
            desc = "C28 %s -- a random profile does not read back unchanged: %s -> %s" % (cls, json.dumps(w["entries"]), w["detail"])
            rep = {"class": cls, "witness": w}
        violations.append(Violation(key=key, desc=desc, replay=rep))
    if drift and not any(not (r["lawesc"] and r["lawparse"] and r["lawload"]) for r in real["rows"]
                         if (tuple(r["tok"]), r["pos"]) in {(tuple(x[1]), x[2]) for x in drift}):
        raise InfraError("MountCodec.tla and the real codec disagree on %d table cells although the real code satisfies the "
                         "laws there (spec drift, e.g. %s): update the spec" % (len(drift), drift[:2]))
    return {"violations": violations, "rows": len(real["rows"]), "random": len(real["random"]),
            "drift": len(drift), "drift_examples": [list(map(str, x)) for x in drift[:3]],
            "spec_predicted_failures": sum(1 for r in spec_rows if not (r["lawesc"] and r["lawparse"] and r["lawload"])),
            "real_failures": sum(len(v) for v in fails.values()),
            "random_failures": {k: len(v) for k, v in rfail.items()},
            "distinct_escapes": len({r["esc"] for r in real["rows"]}),
            "samples": [{"field": r["field"], "pos": r["pos"], "line": r["line"], "reads_back": r["lawparse"] and r["lawload"]}
                        for r in real["rows"] if r["tok"] in (["sp", "bs", "oct"], ["a", "hash", "tab"], ["cr", "a"], ["nl", "oct", "bs"])][:6]}
