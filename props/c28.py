"""C28 -- mount namespace updates transform the current mounts into the desired ones.

design:       spec/MountPlan.tla states declaratively what a correct update is (Result, HelperSupportKept,
              KeptInPlace, UnmountOrder/UnmountOrderTrue, MountOrder, PlanCoversCurrent, ApplyMatches);
              spec/MountPlanMC.tla runs the history loop current' = Apply(Exec(RefPlan(current, desired))) with a
              small reference planner + mimic model; TLC checks every clause as an invariant for every history
              (3 updates) over the configured universe.  MountPlan_rev.cfg (keeps recorded backwards, as the
              real code does) MUST yield a counterexample to UnmountOrderTrue, which is replayed on the real code.
              spec/MountCodec.tla: character-level model of the profile writer/reader; TLC checks the round-trip
              laws on the statement's domain and exports the escape table.
conformance:  overlay driver in cmd/snap-update-ns: enumerated + seeded random (+ TLC-simulated) histories run
              through the REAL executeMountProfileUpdate / neededChanges / createWritableMimic / profile
              Save+Load; one record per update; TLC (TraceMountPlan.tla) walks the records as the history loop
              and evaluates every clause on every update.  External driver harness/ext/mountentry evaluates
              the real codec on every row of TLC's table.
A clause violated by a real update is a VIOLATION keyed '<clause>[/<observable cause>]: <smallest history>'.
"""
import json
import os

from lib import common, tlc, goharness
from lib.common import Result, Violation, InfraError
from props import _mountplan as M


def run(ctx):
    workers = ctx.pick(8, 16)
    # VERIF_C28_PARTS (development / mutation runs only): which repo-dependent parts to run.  The design part
    # does not depend on the tree under test; without it no verdict is produced for the unchanged tree.
    parts = set(os.environ.get("VERIF_C28_PARTS", "design,plan,codec").split(","))
    # ---- 1. design --------------------------------------------------------------------------------
    if "design" in parts:
        cfgs = ctx.pick([("MountPlan_mc.cfg", 900)],
                        [("MountPlan_mc.cfg", 1800), ("MountPlan_mc_rootfs.cfg", 1800), ("MountPlan_mc_e3.cfg", 3000),
                         ("MountPlan_mc_thorough.cfg", 5400)])
        mcs = M.design(ctx, cfgs, workers)
        rev_case = M.reverse_counterexample(ctx, workers)
        ctx.log("MountPlan_rev.cfg: counterexample history %s" % json.dumps(rev_case["updates"]))
        sim_cases, sim_pred = M.simulate_histories(ctx, ctx.pick(30, 600), ctx.seed)
    else:
        mcs = [{"cfg": "(design part skipped: VERIF_C28_PARTS)", "generated": 1, "distinct": 1, "depth": 0, "wall_s": 0}]
        e = {"p": "a/g", "typ": "file", "origin": "layout", "v": 1}
        rev_case, sim_cases, sim_pred = {"case": "tlc-rev", "rootfs": False, "updates": [[e], [e], []]}, [], {}
    if "plan" not in parts:
        cod = M.codec(ctx, ctx.pick("MountCodec.cfg", "MountCodec_thorough.cfg"), ctx.pick(1000, 40000))
        return Result(level="model_checking", coverage={"states": 1, "transitions": 1, "traces_validated_against_impl": cod["rows"],
                                                        "samples": cod["samples"], "codec": {k: v for k, v in cod.items() if k != "violations"},
                                                        "partial_run": sorted(parts)},
                      assumptions=["partial run (VERIF_C28_PARTS)"], violations=cod["violations"])

    # ---- 2. conformance: real planner / real update loop ---------------------------------------------
    binary = M.build_driver(ctx)
    ctx.log("driver built")
    summ = M.run_driver(ctx, binary, "real", {"VERIF_ENUM_K": 2, "VERIF_ENUM3_POOL": ctx.pick(0, 6),
                                              "VERIF_ENUM_RELATED": ctx.pick(1, 0),
                                              "VERIF_ENUM_POOL_IDX": ctx.pick("0,2,4,6,7,10,12,13,14", ""),
                                              "VERIF_N": ctx.pick(300, 6000), "VERIF_CHUNK": ctx.pick(500, 4000)})
    ctx.log("real histories: %s" % {k: v for k, v in summ.items() if k != "files"})
    # T->I: TLC's counterexample and simulated behaviours, replayed on the real code
    rp = os.path.join(ctx.subdir("replay_in"), "cases.json")
    with open(rp, "w") as f:
        json.dump([rev_case] + sim_cases, f)
    rsumm = M.run_driver(ctx, binary, "replay", {"VERIF_REPLAY": rp, "VERIF_CHUNK": 100000})
    val = M.validate(ctx, summ["files"] + rsumm["files"], parallel=ctx.pick(4, 8))
    ctx.log("TLC evaluated %d recorded updates, %d with a violated clause" % (val["lines"], val["bad_lines"]))
    control = M.corrupt_control(ctx, summ["files"])
    ctx.log("corruption control: %s" % control)

    violations, per_clause, informational = M.violations_from(val["failing"])
    # vacuity of the trace validation: the antecedents of the clauses must have been exercised by real updates
    cov = val["cov"]
    for k, need in (("mustkeep", 100), ("unmountpairs", 100), ("mountpairs", 20), ("kepthelpers", 100),
                    ("newsynth", 100), ("stale", 100), ("beneathchanged", 20)):
        if cov.get(k, 0) < need:
            raise InfraError("vacuity guard: real updates exercised %s only %d times" % (k, cov.get(k, 0)))

    # the TLC counterexample must reproduce on the real code (else the reverse-keep model is not what the code does)
    rev_tags = sorted({t for tags, ln in val["failing"] if ln["case"] == "tlc-rev" for t in tags})
    rev_reproduced = any(t.startswith("UnmountOrderTrue") for t in rev_tags)
    # T->I: result sets predicted by the spec (reference planner + mimic model) vs the real result
    agree = differ = differ_explained = 0
    bad_cases = {(ln["case"], ln["step"]) for tags, ln in val["failing"]}
    mism_examples = []
    for p in rsumm["files"]:
        for ln in common.read_ndjson(p):
            if ln["case"] in sim_pred and not ln["aborted"]:
                want = sim_pred[ln["case"]][ln["step"] - 1]
                got = sorted(e["c"] + " " + ",".join(e["o"]) for e in ln["res"])
                if want == got:
                    agree += 1
                elif any((ln["case"], s) in bad_cases for s in range(1, ln["step"] + 1)):
                    differ_explained += 1
                else:
                    differ += 1
                    if len(mism_examples) < 3:
                        mism_examples.append({"history": M.hist_prefix(ln), "spec": want, "real": got})

    # ---- 3. codec ---------------------------------------------------------------------------------------
    if "codec" in parts:
        cod = M.codec(ctx, ctx.pick("MountCodec.cfg", "MountCodec_thorough.cfg"), ctx.pick(1000, 40000))
    else:
        cod = {"violations": [], "rows": 0, "drift": 0, "random": 0, "real_failures": 0, "spec_predicted_failures": 0, "samples": []}
    violations += cod["violations"]
    ctx.log("codec: %d table rows (%d cells differ from the spec), %d random profiles, real failures %d (spec predicts %d)"
            % (cod["rows"], cod["drift"], cod["random"], cod["real_failures"], cod["spec_predicted_failures"]))

    states = sum(m["distinct"] for m in mcs)
    trans = sum(m["generated"] for m in mcs)
    coverage = {
        "states": states, "transitions": trans,
        "tlc_runs": mcs,
        "tlc_constants": {"MaxUpdates": 3, "universe": "quick: 8 entries x <=2 (and <=3 in _e3); thorough: 19 entries x <=2",
                          "base_tree": "a/ a/b/ a/b/c/ a/f a/l d/ h/ src/"},
        "traces_validated_against_impl": summ["cases"] + rsumm["cases"],
        "real_updates_evaluated_by_tlc": val["lines"],
        "real_updates_with_violated_clause": val["bad_lines"],
        "violated_clauses": per_clause,
        "informational_only": informational,
        "distinct_current_desired_pairs": val["distinct_cur_des"],
        "clause_antecedents_exercised": cov,
        "driver": {k: v for k, v in summ.items() if k != "files"},
        "tlc_counterexample_replayed": {"history": rev_case["updates"], "real_code_tags": rev_tags, "reproduced": rev_reproduced},
        "tlc_simulated_histories_replayed": {"histories": len(sim_cases), "updates_result_set_equal": agree,
                                             "differ_explained_by_reported_violation": differ_explained,
                                             "differ_other": differ, "examples": mism_examples},
        "corruption_control": control,
        "codec": {k: v for k, v in cod.items() if k != "violations"},
        "samples": val["samples"] + cod["samples"][:3],
    }
    notes = []
    if parts != {"design", "plan", "codec"}:
        notes.append("PARTIAL RUN (VERIF_C28_PARTS=%s): not a verdict for the whole property" % ",".join(sorted(parts)))
    if not rev_reproduced:
        notes.append("TLC's reverse-keep counterexample did NOT reproduce on the real code (tags: %s)" % rev_tags)
    if differ:
        notes.append("%d replayed updates: real result set differs from the reference planner's although no clause is violated "
                     "(allowed: the statement does not fix which helpers are rebuilt)" % differ)
    if val["truncated"]:
        notes.append("more failing updates than the per-file report limit; counts are exact, witnesses are from the first 400 per file")
    return Result(level="model_checking", coverage=coverage,
                  assumptions=[
                      "Change.Perform is simulated (no mount(2)): read-only base tree of real files under a temp root, "
                      "live-mount list, mimic built by the REAL createWritableMimic; kernel behaviour is not observed",
                      "desired profiles have pairwise distinct mount points and nothing beneath a file/symlink entry of the same profile",
                      "x-snapd.origin=rootfs entries appear only in the initial current profile (written by snap-confine) and count as helpers supporting everything",
                      "updates with a failing layout/overname change (aborted, profile not saved) are only checked for plan-level clauses",
                      "codec domain: <=3 (quick) / <=4 (thorough) tokens of {a,space,tab,newline,backslash,#,\\040,CR} per field in the table, "
                      "random part adds VT, FF, U+0085, U+00A0, quotes; fields non-empty, not starting with #, options without commas",
                  ],
                  violations=violations, notes=notes)
