"""C29: config transactions are isolated, read their own writes, never lose updates (see _configtxn.py)."""
from props import _configtxn


def run(ctx):
    return _configtxn.run(ctx)
