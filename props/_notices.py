"""C08 shared logic: Notices.tla (design) + binding to overlord/state/notices.go and daemon/api_notices.go.

Binding, all on real code:
  T->I  TLC -simulate behaviours of SpecPoll are replayed on a real state.State; after every Add/AddAt the full
        projected notices state, and for every Poll the returned (id, last-repeated) list, must equal the spec's.
  I->T  seeded random scripts (adds with equal/advancing/regressing mocked clock, polls through Notices() and
        WaitNotices(), real goroutines blocked in WaitNotices, cancels) are executed on a real State; the event
        log (written under the state lock) is validated by TraceNotices.tla with all invariants.
  Wake  on real code: a waiter for which the real Notices() reports a match must return within the watchdog;
        expiry counts only if it reproduces on a re-run of the same script.
  daemon getNotices (uid / user-id / users=all) is driven through the real handler (overlay test in package
        daemon_test) and compared with DaemonFilter / MatchesStatic evaluated by TLC.
"""
import json
import os
import random

from lib import common, tlc, goharness
from lib.common import Violation, InfraError

NOUSER = -2
PUBLIC = -1
USERS = [0, 1000, 1001]
TYPES = ["change-update", "warning", "snap-run-inhibit"]
KEYS = ["k1", "k2", "k3"]
RAS = [0, 2, 5]
DATA = ["", "d1", "d2"]
CLIENTS = ["c1", "c2", "c3"]


# ---------------------------------------------------------------------------------------------------------
# script generation (I->T)

def gen_client(rng, name):
    uid = rng.choice(USERS)
    user = uid
    if uid == 0:
        user = rng.choice([0, NOUSER, NOUSER, 1000, 1001])     # default / users=all / user-id=N
    types = [t for t in TYPES if rng.random() < 0.35]
    keys = [k for k in KEYS if rng.random() < 0.3]
    if rng.random() < 0.4:
        types = []
    if rng.random() < 0.5:
        keys = []
    return {"c": name, "uid": uid, "user": user, "types": types, "keys": keys}


def gen_script(rng, case, addat=False, waiters=True):
    clients = [gen_client(rng, c) for c in CLIENTS]
    steps = []
    clock = 1
    n = rng.randint(6, 28)
    # a narrow notice universe in some cases so that repeats are frequent
    owners = [PUBLIC] + USERS
    if rng.random() < 0.5:
        owners = rng.sample(owners, 2)
    types = TYPES if rng.random() < 0.5 else rng.sample(TYPES, 1)
    keys = KEYS if rng.random() < 0.4 else rng.sample(KEYS, rng.randint(1, 2))
    for _ in range(n):
        x = rng.random()
        if x < 0.42:
            st = {"ev": "Add", "o": rng.choice(owners), "t": rng.choice(types), "k": rng.choice(keys),
                  "ra": rng.choice(RAS), "d": rng.choice(DATA)}
            if addat and rng.random() < 0.5:
                st["ev"] = "AddAt"
                st["at"] = rng.randint(1, 40)
            steps.append(st)
        elif x < 0.55:
            if rng.random() < 0.12 and clock > 1:
                clock = rng.randrange(1, clock, 2)           # the clock jumps back
            else:
                clock += 2 * rng.randint(1, 3)
            steps.append({"ev": "Tick", "v": clock})
        elif x < 0.78 or not waiters:
            steps.append({"ev": "Poll", "c": rng.choice(CLIENTS), "via": rng.choice(["notices", "notices", "wait0"])})
        elif x < 0.90:
            steps.append({"ev": "WaitStart", "c": rng.choice(CLIENTS)})
        elif x < 0.94:
            steps.append({"ev": "Cancel", "c": rng.choice(CLIENTS)})
        elif x < 0.97:
            steps.append({"ev": "Settle"})
        else:
            steps.append({"ev": "Yield", "n": rng.randint(1, 20)})
    return {"case": case, "clients": clients, "steps": steps}


def gen_scripts(seed, n, addat=False, first_case=0):
    rng = random.Random("c08-%s-%s" % (seed, "addat" if addat else "main"))
    return [gen_script(rng, first_case + i, addat=addat) for i in range(n)]


# ---------------------------------------------------------------------------------------------------------
# scripts from TLC behaviours (T->I)

def script_of_behaviour(case, beh):
    """beh: list of {"action","vars"} from tlc.sim_behaviours. Returns (script, expected) where expected[i]
    is what the spec says the i-th emitted event must look like."""
    v0 = beh[0]["vars"]
    clients = []
    for c in sorted(v0["cfg"]):
        f = v0["cfg"][c]
        clients.append({"c": c, "uid": f["uid"], "user": f["user"], "types": sorted(f["types"]), "keys": sorted(f["keys"])})
    steps, expected = [], []
    for s in beh[1:]:
        v = s["vars"]
        la = v["last"]
        ev = la["ev"]
        if ev == "Tick":
            steps.append({"ev": "Tick", "v": la["args"][0]})
            expected.append({"ev": "Tick", "v": la["args"][0]})
        elif ev in ("Add", "AddAt"):
            o, t, k, ra, d, now = la["args"]
            st = {"ev": ev, "o": o, "t": t, "k": k, "ra": ra, "d": d}
            if ev == "AddAt":
                st["at"] = now
            steps.append(st)
            expected.append({"ev": ev, "notices": norm_notices(v["notices"]), "lastTs": v["lastTs"], "lastId": v["lastId"]})
        elif ev == "Poll":
            steps.append({"ev": "Poll", "c": la["c"], "via": "wait0" if (len(steps) + case) % 3 == 0 else "notices"})
            expected.append({"ev": "Poll", "c": la["c"], "res": [list(x) for x in la["res"]]})
        else:
            raise InfraError("unexpected action %r in a SpecPoll behaviour" % ev)
    return {"case": case, "clients": clients, "steps": steps}, expected


NFIELDS = ("id", "owner", "type", "key", "first", "lastOcc", "lastRep", "occ", "ra", "data")


def norm_notices(ns):
    return sorted(({k: n[k] for k in NFIELDS} for n in ns), key=lambda n: n["id"])


def short_step(s):
    if s["ev"] in ("Add", "AddAt"):
        o = "pub" if s["o"] == PUBLIC else str(s["o"])
        r = "%s(%s,%s,%s,ra%d%s)" % ("A" if s["ev"] == "Add" else "At%d" % s.get("at", 0), o, s["t"][:4], s["k"], s["ra"],
                                      "," + s["d"] if s.get("d") else "")
        return r
    if s["ev"] == "Tick":
        return "T%d" % s["v"]
    if s["ev"] in ("Poll", "WaitStart", "Cancel"):
        return "%s(%s)" % ({"Poll": "P", "WaitStart": "W", "Cancel": "X"}[s["ev"]], s["c"])
    return s["ev"]


def short_client(c):
    u = "all" if c["user"] == NOUSER else str(c["user"])
    return "%s:uid%d/%s/%s/%s" % (c["c"], c["uid"], u, "+".join(t[:4] for t in c["types"]) or "*", "+".join(c["keys"]) or "*")


def key_of(script, upto_events=None):
    """compact, deterministic identification of a history"""
    steps = script["steps"]
    s = ";".join(short_step(x) for x in steps)
    if len(s) > 220:
        s = s[:220] + "..."
    return "%s|%s" % (",".join(short_client(c) for c in script["clients"]), s)


# ---------------------------------------------------------------------------------------------------------
# running the driver

def exec_scripts(ctx, tb, scripts, name, watchdog_ms=5000):
    d = ctx.subdir(name)
    fin, fout = os.path.join(d, "scripts.ndjson"), os.path.join(d, "trace.ndjson")
    common.write_ndjson(fin, scripts)
    rc, o = goharness.run_test_bin(ctx, tb, "TestVerifNoticesExec",
                                   env={"VERIF_IN": fin, "VERIF_OUT": fout, "VERIF_WATCHDOG_MS": watchdog_ms}, timeout=1500)
    goharness.check_driver(rc, o, "notices driver (%s)" % name)
    if "VERIF_DONE" not in o:
        raise InfraError("notices driver (%s) did not finish:\n%s" % (name, common.tail(o, 20)))
    return fout, common.read_ndjson(fout)


def split_cases(events):
    cases = {}
    for e in events:
        cases.setdefault(e["case"], []).append(e)
    return cases


# ---------------------------------------------------------------------------------------------------------
# daemon level: GET /v2/notices through the real handler

UNKNOWN_UID = -3


def gen_daemon_cases(seed, ncases, first_case):
    """Each case: a few additions of notices with different owners, then the full matrix of
    request uid x user-id parameter x users=all, with type/key/after filters varied per case."""
    rng = random.Random("c08-daemon-%s" % seed)
    cases = []
    for i in range(ncases):
        adds, clock = [], 1
        owners = [PUBLIC, 0, 1000, 1001]
        for o in owners + [rng.choice(owners) for _ in range(rng.randint(1, 4))]:
            if rng.random() < 0.4:
                clock += 2
            adds.append({"o": o, "t": rng.choice(TYPES[:2]), "k": rng.choice(KEYS[:2]), "ra": rng.choice(RAS), "d": rng.choice(DATA), "v": clock})
        types = rng.choice([[], [], [TYPES[0]], [TYPES[1]], TYPES[:2]])
        keys = rng.choice([[], [], [KEYS[0]], [KEYS[1]]])
        after = rng.choice([0, 0, 1, 2, 3, 4])
        reqs = []
        for uid in (0, 1000, 1001, UNKNOWN_UID):
            for up in (NOUSER, 0, 1000, 1001):
                for ua in (False, True):
                    reqs.append({"uid": uid, "uidParam": up, "usersAll": ua, "types": types, "keys": keys, "after": after})
        cases.append({"case": first_case + i,
                      "clients": [{"c": c, "uid": 0, "user": 0, "types": [], "keys": []} for c in CLIENTS],
                      "adds": adds, "reqs": reqs})
    return cases


def exec_daemon(ctx, tb, cases, name="daemon"):
    d = ctx.subdir(name)
    fin, fout = os.path.join(d, "cases.ndjson"), os.path.join(d, "trace.ndjson")
    common.write_ndjson(fin, cases)
    rc, o = goharness.run_test_bin(ctx, tb, "^Test$", env={"VERIF_IN": fin, "VERIF_OUT": fout},
                                   cwd=os.path.join(common.REPO, "daemon"), args=["-check.f", "verifNoticesSuite"], timeout=900)
    goharness.check_driver(rc, o, "daemon notices driver")
    if "VERIF_DONE" not in o:
        raise InfraError("daemon notices driver did not finish:\n%s" % common.tail(o, 30))
    return fout, common.read_ndjson(fout)
