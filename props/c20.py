"""C20 -- assertions survive encoding; malformed input is rejected safely (AssertCodec.tla)."""
from props import _assertcodec


def run(ctx):
    return _assertcodec.run(ctx)
