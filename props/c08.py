"""C08 -- notices are delivered exactly once, in order, never phantom, only to their owner; waiters are woken.

design      TLC exhaustive on Notices.tla (several bounded slices, invariants + action properties), liveness
            `Wake` under weak fairness in a separate small config, negative design controls (spec without the
            bump / with Broadcast only for new notices must violate ExactlyOnce / Wake).
conformance see props/_notices.py (T->I replay of TLC behaviours, I->T validation of seeded real histories with
            real goroutines in WaitNotices, daemon getNotices matrix through the real handler).
"""
import concurrent.futures
import os

from lib import common, tlc, goharness
from lib.common import Result, Violation, InfraError
from props import _notices as N

DAEMON_OVERLAY = os.path.join(common.HARNESS, "overlay", "daemon", "zz_verif_notices_test.go")

SAFETY_INVS = ["TypeOK", "UniqueNotices", "ExactlyOnce", "InOrder", "NoPhantom", "Ownership", "PublicToAll",
               "RepeatAfterSuppression", "StrictTimes", "NoLostWakeup", "PollDrainsProp", "NoPhantomProp", "RepeatAfterProp"]


def design(ctx, notes):
    w = ctx.pick(8, 16)
    if ctx.quick:
        runs = [("Notices_mc.cfg", False, []),
                ("Notices_mc_wait2.cfg", True, ["Add", "Poll", "Tick", "WaitStart", "WakeCheck", "WaitTimeout"]),
                ("Notices_mc_live2.cfg", False, [])]
        controls = [("Notices_mc_nobump.cfg", "invariant", "ExactlyOnce")]
    else:
        runs = [("Notices_mc_wide3.cfg", False, []),
                ("Notices_mc_deep4.cfg", False, []),
                ("Notices_mc_deep6.cfg", False, []),
                ("Notices_mc_wait.cfg", True, ["Add", "Poll", "Tick", "WaitStart", "WakeCheck", "WaitTimeout"]),
                ("Notices_mc_live.cfg", False, [])]
        controls = [("Notices_mc_nobump.cfg", "invariant", "ExactlyOnce"),
                    ("Notices_mc_addat.cfg", "invariant", "ExactlyOnce"),
                    ("Notices_mc_live_neg.cfg", "property", "Wake")]
    states = trans = 0
    per_cfg, cov = {}, {}
    for cfg, coverage, need in runs:
        mc = tlc.run(ctx, "Notices", cfg, spec_dir=_SPEC["dir"], workers=w, coverage=coverage, timeout=ctx.pick(900, 3000),
                     name="tlc_" + cfg[:-4], heap=ctx.pick("6g", "12g"))
        if not mc.ok:
            # a counterexample of the *spec*: a design problem to triage, not a violation of the real code
            raise InfraError("spec-level counterexample in %s: %s\n%s" % (cfg, mc.summary(), common.tail(mc.out, 40)))
        if need:
            tlc.require_coverage(mc, need)
            for k, v in tlc.coverage_summary(mc).items():
                cov["%s:%s" % (cfg[:-4], k)] = v
        states += mc.distinct
        trans += mc.generated
        per_cfg[cfg] = {"distinct": mc.distinct, "generated": mc.generated, "depth": mc.depth, "wall_s": round(mc.wall, 1)}
        ctx.log("TLC %s: %d distinct / %d generated, depth %d, %.0fs" % (cfg, mc.distinct, mc.generated, mc.depth, mc.wall))
    fired = {}
    for cfg, kind, name in controls:
        try:
            res = tlc.run(ctx, "Notices", cfg, spec_dir=_SPEC["dir"], workers=ctx.pick(4, 8), timeout=900, name="tlc_" + cfg[:-4])
            got_kind, got_name, gen = res.kind, res.name, res.generated
        except InfraError:
            # lib/tlc.py does not know this TLC's wording "Temporal property X was violated": read the raw output
            import glob
            import re
            outs = glob.glob(os.path.join(ctx.scratch, "*_tlc_" + cfg[:-4], "tlc.out"))
            txt = open(outs[-1]).read() if outs else ""
            m = re.search(r"Error: Temporal property (\w+) was violated", txt)
            if not m:
                raise
            got_kind, got_name = "property", m.group(1)
            g = re.findall(r"(\d+) states generated", txt)
            gen = int(g[-1]) if g else 0
        if got_kind != kind or (name and got_name != name):
            raise InfraError("vacuity guard: negative design control %s did not produce the expected %s violation: kind=%s name=%s"
                             % (cfg, name or kind, got_kind, got_name))
        fired[cfg] = "%s %s violated after %d states (expected)" % (kind, got_name, gen)
        ctx.log("control %s: %s" % (cfg, fired[cfg]))
    return states, trans, per_cfg, cov, fired


_SPEC = {"dir": common.SPEC}


def private_spec(ctx):
    """TLC is run from a private copy of *our* spec files: lib/tlc.py copies the whole shared spec directory per
    run, which races with other builders adding/removing their files."""
    import glob
    import shutil
    d = ctx.subdir("spec")
    for f in glob.glob(os.path.join(common.SPEC, "*Notices*")):
        shutil.copy(f, d)
    _SPEC["dir"] = d


def compare_replay(scripts, expected, events):
    """T->I: events recorded from the real code vs what the spec computed for the same behaviour."""
    bad = []
    cases = N.split_cases(events)
    ncmp = 0
    for sc in scripts:
        evs = [e for e in cases.get(sc["case"], []) if e["ev"] not in ("Reset", "Settled")]
        exp = expected[sc["case"]]
        if len(evs) != len(exp):
            bad.append((sc, len(evs), "event count %d != %d" % (len(evs), len(exp)), None, None))
            continue
        for i, (e, x) in enumerate(zip(evs, exp)):
            ncmp += 1
            diff = None
            if e["ev"] != x["ev"]:
                diff = "event kind"
            elif e["ev"] in ("Add", "AddAt"):
                got = N.norm_notices(e["notices"])
                if got != x["notices"] or e["lastTs"] != x["lastTs"] or e["lastId"] != x["lastId"]:
                    diff = "notices state after %s" % e["ev"]
                    e = {"notices": got, "lastTs": e["lastTs"], "lastId": e["lastId"]}
            elif e["ev"] == "Poll":
                # sort.Slice is not stable: notices with equal last-repeated (possible only with options.Time) may
                # come in any order -- compare by membership in the spec's set of sorted orders
                rs = [r[1] for r in e["res"]]
                if rs != sorted(rs) or sorted(e["res"], key=lambda r: (r[1], r[0])) != sorted(x["res"], key=lambda r: (r[1], r[0])):
                    diff = "Poll(%s) result" % x["c"]
                    e = {"res": e["res"]}
            if diff:
                bad.append((sc, i, diff, e, x))
                break
    return bad, ncmp


def prefix(script, nsteps):
    s = dict(script)
    s["steps"] = script["steps"][:nsteps]
    return s


def run(ctx):
    notes, violations = [], []
    private_spec(ctx)
    pool = concurrent.futures.ThreadPoolExecutor(max_workers=2)
    f_ext = pool.submit(goharness.ext_test_build, ctx, "notices")
    f_dmn = pool.submit(goharness.overlay_test_build, ctx, "daemon", [DAEMON_OVERLAY])

    # ------------------------------------------------------------------ 1. design
    if os.environ.get("VERIF_C08_SKIP_DESIGN"):
        # development aid for mutation runs only (the design phase does not depend on /repo); never set by ./check
        states, trans, per_cfg, cov, fired = 1, 1, {}, {}, {}
        notes.append("DESIGN PHASE SKIPPED (VERIF_C08_SKIP_DESIGN): not a valid verdict run")
    else:
        states, trans, per_cfg, cov, fired = design(ctx, notes)

    # ------------------------------------------------------------------ 2. T->I: replay TLC behaviours
    sims = []
    simcfgs = [("Notices_sim.cfg", ctx.pick(200, 2000), ctx.pick(24, 36))]
    if not ctx.quick:      # quick binds options.Time additions through the I->T histories only
        simcfgs.append(("Notices_sim_addat.cfg", 500, 30))
    for cfg, num, depth in simcfgs:
        res = tlc.run(ctx, "Notices", cfg, spec_dir=_SPEC["dir"], simulate={"num": num, "file": True}, depth=depth, seed=ctx.seed, workers=1,
                      timeout=ctx.pick(600, 2400), name="sim_" + cfg[:-4])
        if not res.ok:
            raise InfraError("simulation of %s failed: %s\n%s" % (cfg, res.summary(), common.tail(res.out, 30)))
        sims.append((cfg, tlc.sim_behaviours(res)))
    tb = f_ext.result()
    replay_scripts, replay_expected, replay_addat = [], {}, set()
    case = 1000000
    for cfg, behs in sims:
        for b in behs:
            sc, exp = N.script_of_behaviour(case, b)
            replay_scripts.append(sc)
            replay_expected[case] = exp
            if "addat" in cfg:
                replay_addat.add(case)
            case += 1
    if len(replay_scripts) < 20:
        raise InfraError("vacuity guard: only %d TLC behaviours to replay" % len(replay_scripts))
    _, replay_events = N.exec_scripts(ctx, tb, replay_scripts, "replay")
    bad, ncmp = compare_replay(replay_scripts, replay_expected, replay_events)
    for sc, i, diff, got, exp in bad[:5]:
        violations.append(Violation(
            key="T->I %s: %s" % (diff, N.key_of(prefix(sc, i + 1) if isinstance(i, int) else sc)),
            desc="real state.State deviates from Notices.tla at step %s (%s): real %s, spec %s" % (i, diff, got, exp),
            replay={"script": sc, "step": i, "real": got, "spec": exp}))
    ctx.log("T->I: %d behaviours replayed, %d steps compared, %d mismatching behaviours" % (len(replay_scripts), ncmp, len(bad)))

    # ------------------------------------------------------------------ 3. I->T: seeded random real histories
    scripts = N.gen_scripts(ctx.seed, ctx.pick(250, 6000))
    scripts_addat = N.gen_scripts(ctx.seed, ctx.pick(80, 1500), addat=True, first_case=500000)
    by_case = {s["case"]: s for s in scripts + scripts_addat + replay_scripts}
    _, ev_main = N.exec_scripts(ctx, tb, scripts, "itot")
    _, ev_addat = N.exec_scripts(ctx, tb, scripts_addat, "itot_addat")

    # Wake on real code: a watchdog expiry counts only if it reproduces on a re-run of the same script
    expired = sorted({e["case"] for e in ev_main + ev_addat if e["ev"] == "Watchdog"})
    if expired:
        again = [by_case[c] for c in expired[:3]]
        _, ev_again = N.exec_scripts(ctx, tb, again, "itot_rerun")
        repro = sorted({e["case"] for e in ev_again if e["ev"] == "Watchdog"})
        if not repro:
            raise InfraError("WaitNotices watchdog expired for case(s) %s but did not reproduce on a re-run" % expired[:3])
        for c in repro:
            wd = [e for e in ev_again if e["ev"] == "Watchdog" and e["case"] == c][0]
            violations.append(Violation(
                key="Wake(%s): %s" % (wd["kind"], N.key_of(by_case[c])),
                desc="client %s blocked in the real WaitNotices was not released within the watchdog although "
                     "%s (reproduced on a re-run of the same script)" % (
                         wd["c"], "the real Notices() reports a matching notice" if wd["kind"] == "wake" else "its context was cancelled"),
                replay={"script": by_case[c], "events": [e for e in ev_again if e["case"] == c]}))
    dead = set(expired)

    # ------------------------------------------------------------------ 4. daemon: GET /v2/notices ownership rule
    dcases = N.gen_daemon_cases(ctx.seed, ctx.pick(6, 100), first_case=900000)
    _, ev_daemon = N.exec_daemon(ctx, f_dmn.result(), dcases)
    pool.shutdown()
    dreq = {c["case"]: c for c in dcases}

    # ------------------------------------------------------------------ 5. trace validation
    main = [e for e in ev_main if e["case"] not in dead]
    main += [e for e in replay_events if e["case"] not in replay_addat]
    main += ev_daemon
    addat = [e for e in ev_addat if e["case"] not in dead] + [e for e in replay_events if e["case"] in replay_addat]
    d = ctx.subdir("traces")
    n_validated = 0
    for name, cfg, evs in (("main", "TraceNotices.cfg", main), ("addat", "TraceNotices_addat.cfg", addat)):
        path = os.path.join(d, name + ".ndjson")
        common.write_ndjson(path, evs)
        tv = tlc.validate_trace(ctx, "TraceNotices", cfg, path, spec_dir=_SPEC["dir"], timeout=ctx.pick(900, 3000), name="trace_" + name)
        if tv["accepted"]:
            n_validated += len({e["case"] for e in evs})
            continue
        e = evs[min(tv["stuck_line"], len(evs)) - 1]
        c = e["case"]
        upto = [x for x in evs[:tv["stuck_line"]] if x["case"] == c]
        what = tv["invariant"] or "step not allowed by the spec"
        if c in dreq:
            who = "uid=%s user-id=%s users=%s types=%s keys=%s after=%s" % (
                e.get("uid"), e.get("uidParam"), "all" if e.get("usersAll") else "-", e.get("types"), e.get("keys"), e.get("after"))
            key = "daemon getNotices %s: %s -> status %s res %s" % (what, who, e.get("status"), e.get("res"))
            rep = {"case": dreq[c], "event": e}
        else:
            key = "I->T %s at %s: %s" % (what, N.short_step(e) if e["ev"] in ("Add", "AddAt", "Tick", "Poll", "WaitStart", "Cancel") else e["ev"],
                                         N.key_of(by_case[c]))
            rep = {"script": by_case[c], "events_of_case_up_to_rejection": upto}
        violations.append(Violation(
            key=key,
            desc="real history rejected by TraceNotices (%s, %s) at line %d: %s" % (cfg, what, tv["stuck_line"], e),
            replay=rep))
        n_validated += len({x["case"] for x in evs[:tv["stuck_line"]]}) - 1

    # ------------------------------------------------------------------ evidence / vacuity on the real executions
    allev = ev_main + ev_addat + replay_events + ev_daemon
    stats = real_stats(allev)
    low = [k for k in ("polls_nonempty", "adds_bumped", "adds_suppressed", "adds_repeated", "waits_blocked_then_returned",
                       "daemon_403", "daemon_200") if stats[k] == 0]
    if low and not violations:
        raise InfraError("vacuity guard: real executions never exercised %s" % ", ".join(low))

    if ctx.selftest:
        notes.extend(selftest_corruptions(ctx, main))

    samples = []
    cases_main = N.split_cases(ev_main)
    for c in [c for c in sorted(cases_main) if sum(1 for e in cases_main[c] if e.get("res")) >= 2][:3]:
        evs = cases_main[c]
        samples.append({"script": N.key_of(by_case[c]),
                        "deliveries": [{"ev": e["ev"], "c": e["c"], "res": e["res"]} for e in evs if e["ev"] in ("Poll", "WaitReturn") and e.get("res")][:6]})
    rq = [e for e in ev_daemon if e["ev"] == "Req"]
    samples.append({"daemon_requests": [{k: e[k] for k in ("uid", "uidParam", "usersAll", "status", "res")} for e in rq[:4]]})

    return Result(
        level="model_checking",
        coverage={
            "states": states, "transitions": trans,
            "traces_validated_against_impl": n_validated,
            "behaviours_replayed_T_to_I": len(replay_scripts), "replay_steps_compared": ncmp,
            "real_histories_I_to_T": len(scripts) + len(scripts_addat), "daemon_cases": len(dcases),
            "real_events": len(allev), "real_execution_stats": stats,
            "tlc_configs": per_cfg, "negative_design_controls": fired, "action_coverage": cov,
            "tlc_constants": {"wide": "users {1000,1001}+public, 2 types, 2 keys, ra {0,2}, clock {1,3,5}, 2 clients x %s filter pair(s), <=%d adds" % (ctx.pick(1, 3), ctx.pick(2, 3)),
                              "deep/narrow": "public(+1 user), 1 type, 2 keys, ra {0,2}, clock {1,3,5[,7]}, 1-2 clients, <=%s adds" % ctx.pick("5", "4/6/6"),
                              "waiters": "1 user+public, 1 type, 2 keys, 2 clients, <=%d adds; liveness <=%d adds" % (ctx.pick(2, 3), ctx.pick(2, 3))},
            "samples": samples,
        },
        assumptions=[
            "expiry of notices (7 days, real time.Now()) is not modelled: all mocked times are within seconds of now",
            "options.Time (AddAt) additions are bound by conformance only; exactly-once is not claimed for them "
            "(Notices_mc_addat.cfg is the witness) -- no production caller sets options.Time at the pinned commit",
            "clients follow the documented protocol: after = last-repeated of the last notice received, same filter every time",
            "clients are independent (a Poll touches only its own cursor), so slices with 1-2 clients cover the per-client properties",
            "Wake on real code is observed with a wall-clock watchdog (%d ms); expiry must reproduce to count" % 5000,
        ],
        violations=violations, notes=notes)


def real_stats(events):
    st = {"polls": 0, "polls_nonempty": 0, "polls_via_wait0": 0, "adds": 0, "adds_new": 0, "adds_bumped": 0, "adds_suppressed": 0,
          "adds_repeated": 0, "addat": 0, "waits_started": 0, "waits_blocked_then_returned": 0, "waits_immediate": 0,
          "waits_cancelled": 0, "watchdog": 0, "daemon_200": 0, "daemon_403": 0, "daemon_400": 0, "max_notices": 0}
    distinct = set()
    clock, prev, last_ws = {}, {}, {}
    for i, e in enumerate(events):
        c, ev = e["case"], e["ev"]
        if ev == "Reset":
            clock[c], prev[c] = 1, {}
        elif ev == "Tick":
            clock[c] = e["v"]
        elif ev in ("Add", "AddAt"):
            st["adds"] += 1
            if ev == "AddAt":
                st["addat"] += 1
            cur = {n["id"]: n for n in e["notices"]}
            n = cur.get(e["id"])
            p = prev.get(c, {}).get(e["id"])
            if n is not None:
                if p is None:
                    st["adds_new"] += 1
                elif n["lastRep"] == p["lastRep"]:
                    st["adds_suppressed"] += 1
                else:
                    st["adds_repeated"] += 1
                if ev == "Add" and n["lastOcc"] != clock.get(c, 1):
                    st["adds_bumped"] += 1
            prev[c] = cur
            st["max_notices"] = max(st["max_notices"], len(cur))
            distinct.add(tuple(sorted((n["owner"], n["type"], n["key"], n["lastRep"], n["occ"]) for n in e["notices"])))
        elif ev == "Poll":
            st["polls"] += 1
            st["polls_nonempty"] += 1 if e["res"] else 0
            st["polls_via_wait0"] += 1 if e.get("via") == "wait0" else 0
        elif ev == "WaitStart":
            st["waits_started"] += 1
            last_ws[(c, e["c"])] = i
        elif ev == "WaitReturn":
            if e["err"]:
                st["waits_cancelled"] += 1
            elif last_ws.get((c, e["c"])) == i - 1:
                st["waits_immediate"] += 1
            else:
                st["waits_blocked_then_returned"] += 1
        elif ev == "Watchdog":
            st["watchdog"] += 1
        elif ev == "Req":
            k = "daemon_%d" % e["status"]
            st[k] = st.get(k, 0) + 1
    st["distinct_real_notice_states"] = len(distinct)
    return st


def selftest_corruptions(ctx, events):
    """binding is real: corrupting one recorded field of a real trace must make validation reject"""
    import copy
    notes = []
    evs = events[:4000]
    last_reset = max(i for i, e in enumerate(evs) if e["ev"] == "Reset")
    evs = evs[:last_reset]

    def first(pred):
        for i, e in enumerate(evs):
            if pred(e):
                return i
        raise InfraError("selftest: no event to corrupt")

    muts = []
    i = first(lambda e: e["ev"] == "Poll" and len(e["res"]) >= 2)
    m = copy.deepcopy(evs); m[i]["res"] = m[i]["res"][::-1]; muts.append(("Poll result order reversed", i, m))
    i = first(lambda e: e["ev"] == "Poll" and len(e["res"]) >= 1)
    m = copy.deepcopy(evs); m[i]["res"] = m[i]["res"][:-1]; muts.append(("Poll result lacks one notice", i, m))
    i = first(lambda e: e["ev"] == "Add" and len(e["notices"]) >= 2)
    m = copy.deepcopy(evs); m[i]["notices"][-1]["lastRep"] -= 1; m[i]["notices"][-1]["lastOcc"] -= 1; muts.append(("Add post-state last-repeated off by one", i, m))
    i = first(lambda e: e["ev"] == "WaitReturn" and e["err"] == "" and e["res"])
    m = copy.deepcopy(evs); del m[i]; muts.append(("WaitReturn event dropped", i, m))
    for what, i, m in muts:
        p = os.path.join(ctx.subdir("selftest"), "t.ndjson")
        common.write_ndjson(p, m)
        tv = tlc.validate_trace(ctx, "TraceNotices", "TraceNotices.cfg", p, spec_dir=_SPEC["dir"], timeout=900, name="trace_selftest")
        if tv["accepted"]:
            raise InfraError("selftest: corrupted trace (%s at line %d) was accepted -- binding is not effective" % (what, i + 1))
        notes.append("selftest: %s at line %d -> rejected at line %s (%s)" % (what, i + 1, tv["stuck_line"], tv["invariant"] or "step"))
        ctx.log(notes[-1])
    return notes
