\* C38 offset-write (absolute / relative to the first structure) x geometry, <= 2 structures, no pruning
\* (acceptance is not prefix-closed with offset-write: the volume's minimal size grows)
CONSTANTS
  MinStart = 2
  MbrMax = 1
  PtrSize = 1
  MaxStructs = 2
  OffVals <- OffSmall
  SizeVals = {1, 2}
  MinVals = {0, 1}
  RoleVals = {"none", "mbr"}
  OwVals <- OwSmall
  ContentVals <- ContentNone
  PartialVals = {FALSE}
  Prune = FALSE
INIT Init
NEXT Next
CHECK_DEADLOCK FALSE
INVARIANTS
  InvNonNegative
  InvIncreasing
  InvDisjoint
  InvContentInside
  InvOrderIsPermutation
