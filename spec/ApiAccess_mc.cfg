\* C26 quick (root module: ApiAccessTable, which EXTENDS ApiAccess and exports the decision table)
CONSTANTS
  Creds = {"valid", "missing", "garbage", "trailing", "leading", "nouid"}
  Users = {"none", "valid", "garbage"}
  Conns = {"none", "activeListed", "bothListed", "undesired", "otherSnap", "slotSide"}
SPECIFICATION Spec
INVARIANTS
  TypeOK
  InvDecided
  InvNoCreds
  InvSnapSocket
  InvRootOnly
  InvAuthenticated
  InvUnknownSocket
  InvPolkitOnlyYes
CHECK_DEADLOCK FALSE
