\* C26 quick (root module: ApiAccessTable, which EXTENDS ApiAccess and exports the decision table). Every value of every request dimension that selects a distinct branch of access.go (all Creds, all Conns) is in the quick tier; only the Users variants "removed"/"forged" (same branch as "garbage") are left to thorough.
CONSTANTS
  Creds = {"valid", "missing", "garbage", "trailing", "leading", "nopid", "nouid"}
  Users = {"none", "valid", "garbage"}
  Conns = {"none", "activeListed", "bothListed", "activeOther", "undesired", "hotplugGone", "otherSnap", "slotSide", "notSnap", "badRef"}
SPECIFICATION Spec
INVARIANTS
  TypeOK
  InvDecided
  InvNoCreds
  InvSnapSocket
  InvRootOnly
  InvAuthenticated
  InvUnknownSocket
  InvPolkitOnlyYes
CHECK_DEADLOCK FALSE
