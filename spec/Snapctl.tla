------------------------------ MODULE Snapctl ------------------------------
(***************************************************************************)
(* C25 -- non-root callers can only run snapctl's read-only commands.      *)
(*                                                                         *)
(* Models overlord/hookstate/ctlcmd/ctlcmd.go:Run at the grain of one      *)
(* invocation Run(ctx, args, uid):                                         *)
(*                                                                         *)
(*    Gate(uid, argv)   transcription of isAllowedToRun (a scan of the     *)
(*                      raw argument vector),                              *)
(*    Parse(sig, argv)  an abstract github.com/jessevdk/go-flags parser    *)
(*                      (v1.5.1-0.20210607101731, Options =                *)
(*                      PassDoubleDash|HelpFlag) as ctlcmd.Run sets it up, *)
(*    Outcome           = "forbidden" if ~Gate, else Parse.                *)
(*                                                                         *)
(* The two look at the SAME vector with DIFFERENT eyes: the gate compares  *)
(* raw tokens, the parser interprets them (options anywhere, `--' ends     *)
(* option parsing, a value-taking option consumes the next token unless it  *)
(* looks like an option).  The property is about that mismatch.            *)
(*                                                                         *)
(* Abstract tokens (instantiated for every real command by the driver      *)
(* /verif/harness/overlay/ctlcmd/zz_verif_snapctl_test.go):                *)
(*   C   the name of the command under test (full path to a leaf, e.g.     *)
(*       "kmod insert" is one C; the bare "kmod" is a C with sig.sub)      *)
(*   O   the name of another registered command of the opposite class      *)
(*       (only generated after a C: then it is just a word)                *)
(*   H   -h            HH  --help                                          *)
(*   HC  a short cluster starting with h: -hh, -hZ                         *)
(*   HJ  the help flag with a joined value: --help=false, -h=1             *)
(*   DD  --                                                                *)
(*   B   a boolean option of C        (--persistent, -d)                   *)
(*   V   a string-valued option of C, value in the NEXT token (--type, -t) *)
(*   VJ  a string-valued option of C with joined value (--type=x, -tx,     *)
(*       --type=-h, -t-h)                                                  *)
(*   A   a free word (foo, key=val, -)                                     *)
(*   HW  the bare word `help' (no command of that name is registered: for  *)
(*       the gate and for the parser it is just a word, wherever it is)    *)
(*   U   an option no command knows (--verif-unknown, -Z)                  *)
(*                                                                         *)
(* A command signature sig = [cls, min, sub, hasB, hasV]:                  *)
(*   cls   "A" if the command's name is in ReadOnly (the list of the       *)
(*         property STATEMENT, not the code's nonRootAllowed), else "F"    *)
(*   min   number of positional words required before Execute is called    *)
(*   sub   the command only dispatches to sub-commands (bare `kmod')       *)
(*   hasB/hasV  it has a boolean / a string-valued option                  *)
(* The set of signatures is that of the REAL registered commands (the      *)
(* driver discovers them by reflection and hands them over in              *)
(* IOEnv.VERIF_SIGS), so a TLC counterexample is always instantiable.      *)
(***************************************************************************)
EXTENDS Naturals, Sequences, FiniteSets, TLC, IOUtils, Json

CONSTANTS MaxCore,   \* every argv over Tokens of length <= MaxCore ...
          MaxPad     \* ... followed by up to MaxPad extra free words (to satisfy required positionals)

\* The statement's list of read-only commands.
ReadOnly == {"get", "services", "set-health", "is-connected", "system-mode", "model"}

Tokens == {"C", "O", "H", "HH", "HC", "HJ", "HW", "DD", "B", "V", "VJ", "A", "U"}

DefaultSigs ==
  { [cls |-> c, min |-> m, sub |-> FALSE, hasB |-> TRUE, hasV |-> TRUE] : c \in {"A", "F"}, m \in 0..2 }
  \cup { [cls |-> "F", min |-> 0, sub |-> TRUE, hasB |-> FALSE, hasV |-> FALSE] }

SigOfJson(j) == [cls |-> j.cls, min |-> j.min, sub |-> j.sub, hasB |-> j.hasB, hasV |-> j.hasV]

\* signatures of the real registered commands when the check passes them in, else a generic family
Sigs == IF "VERIF_SIGS" \in DOMAIN IOEnv
        THEN LET js == JsonDeserialize(IOEnv.VERIF_SIGS) IN { SigOfJson(js[i]) : i \in DOMAIN js }
        ELSE DefaultSigs

Uids == {"root", "user"}

-----------------------------------------------------------------------------
(* isAllowedToRun, line by line.                                            *)
(*   for idx, arg := range args {                                           *)
(*      if idx == 0 && ListContains(nonRootAllowed, arg) { return true }    *)
(*      if arg == "-h" || arg == "--help"                { return true }    *)
(*      if arg == "--"                                   { break }          *)
(*   }; return false                                                        *)
(* args[0] is the first real word: for a C token that is the top-level      *)
(* command name, in nonRootAllowed iff sig.cls = "A" (nonRootAllowed =      *)
(* ReadOnly is part of what the binding checks).                            *)
RECURSIVE GateScan(_, _, _)
GateScan(sig, argv, i) ==
  IF i > Len(argv) THEN FALSE
  ELSE IF i = 1 /\ argv[1] = "C" /\ sig.cls = "A" THEN TRUE
  ELSE IF argv[i] \in {"H", "HH"} THEN TRUE
  ELSE IF argv[i] = "DD" THEN FALSE
  ELSE GateScan(sig, argv, i + 1)

Gate(uid, sig, argv) == uid = "root" \/ GateScan(sig, argv, 1)

-----------------------------------------------------------------------------
(* go-flags ParseArgs, as configured by ctlcmd.Run.  Scan state:            *)
(*   act   the command C has been selected (s.command.Active)               *)
(*   n     positional words collected for it                                *)
(* The first error / help request ends the scan (s.err, break).             *)
NonOption(t) == t \in {"C", "O", "A", "HW"}

Finish(sig, act, n, leftover) ==
  IF ~act \/ sig.sub
  THEN \* no leaf command selected: estimateCommand()
       IF leftover > 0 THEN "err:unknown-command" ELSE "err:command-required"
  ELSE IF n < sig.min THEN "err:required"
  ELSE "exec"

RECURSIVE Scan(_, _, _, _, _)
Scan(sig, argv, i, act, n) ==
  IF i > Len(argv) THEN Finish(sig, act, n, 0)
  ELSE LET t == argv[i] IN
    IF t = "DD"
    THEN \* PassDoubleDash: everything after it is positional, parsing stops
         Finish(sig, act, n + (Len(argv) - i), Len(argv) - i)
    ELSE IF NonOption(t)
    THEN IF ~act
         THEN IF t = "C" THEN Scan(sig, argv, i + 1, TRUE, 0)
              ELSE "err:unknown-command"
         ELSE IF sig.sub THEN "err:unknown-command"     \* a word after bare `kmod' that is no sub-command
         ELSE Scan(sig, argv, i + 1, act, n + 1)
    ELSE IF t \in {"H", "HH", "HC"} THEN "help"        \* built-in help group, on the parser and on every command
    ELSE IF t = "HJ" THEN "err:no-argument-for-bool"
    ELSE IF t = "U" THEN "err:unknown-flag"
    ELSE IF ~act THEN "err:unknown-flag"               \* B, V, VJ before any command: the root knows only help
    ELSE IF t \in {"B", "VJ"} THEN Scan(sig, argv, i + 1, act, n)
    ELSE \* t = "V": pops the next token as its value; option.isValidValue refuses a token that looks like
         \* an option (argumentIsOption: -x..., --x...; a lone `-' is a word) and `--' is refused explicitly
         IF i = Len(argv) THEN "err:expected-argument"
         ELSE IF ~NonOption(argv[i + 1]) THEN "err:expected-argument"
         ELSE Scan(sig, argv, i + 2, act, n)

Parse(sig, argv) == IF argv = <<>> THEN "err:internal" ELSE Scan(sig, argv, 1, FALSE, 0)

Outcome(uid, sig, argv) ==
  IF argv = <<>> THEN "err:internal"
  ELSE IF ~Gate(uid, sig, argv) THEN "forbidden"
  ELSE Parse(sig, argv)

-----------------------------------------------------------------------------
(* The property.                                                            *)
\* non-root: only read-only commands are ever executed
Safe(uid, sig, argv) == (uid # "root" /\ Outcome(uid, sig, argv) = "exec") => sig.cls = "A"
\* root may run every command: the gate never stands in root's way
RootFree(uid, sig, argv) == uid = "root" => (Gate(uid, sig, argv) /\ Outcome(uid, sig, argv) = Parse(sig, argv))
\* "other invocations either print help or fail"
HelpOrFail(uid, sig, argv) ==
  (uid # "root" /\ sig.cls = "F") => Outcome(uid, sig, argv) \in
      {"help", "forbidden", "err:internal", "err:unknown-command", "err:command-required", "err:required",
       "err:no-argument-for-bool", "err:unknown-flag", "err:expected-argument"}

-----------------------------------------------------------------------------
(* State machine: one state per (uid, signature, argv); argv grows token by *)
(* token so that TLC visits every vector within the bound.                  *)
VARIABLES uid, sig, argv
vars == <<uid, sig, argv>>

Applicable(s, av, t) ==
  /\ (t = "B" => s.hasB)
  /\ (t \in {"V", "VJ"} => s.hasV)
  /\ (t = "O" => \E k \in 1..Len(av) : av[k] = "C")

Init == uid \in Uids /\ sig \in Sigs /\ argv = <<>>

Extend(t) ==
  /\ Len(argv) < MaxCore
  /\ Applicable(sig, argv, t)
  /\ argv' = Append(argv, t)
  /\ UNCHANGED <<uid, sig>>

Pad ==
  /\ Len(argv) >= MaxCore /\ Len(argv) < MaxCore + MaxPad
  /\ argv' = Append(argv, "A")
  /\ UNCHANGED <<uid, sig>>

Next == (\E t \in Tokens : Extend(t)) \/ Pad
Spec == Init /\ [][Next]_vars

SigShapeOK(s) == s.cls \in {"A", "F"} /\ s.min \in Nat /\ s.sub \in BOOLEAN /\ s.hasB \in BOOLEAN /\ s.hasV \in BOOLEAN
TypeOK == uid \in Uids /\ SigShapeOK(sig) /\ argv \in Seq(Tokens)
InvNonRootReadOnly == Safe(uid, sig, argv)
InvRootUnrestricted == RootFree(uid, sig, argv)
InvHelpOrFail == HelpOrFail(uid, sig, argv)
\* the gate is the only thing that distinguishes callers
InvGateOnlyFilters == Outcome(uid, sig, argv) \in {"forbidden", Parse(sig, argv)}
=============================================================================
