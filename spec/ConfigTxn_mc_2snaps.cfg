\* cross-snap: 2 snaps, 2 revisions, 7-entry write menu, 2 transactions x (Begin + <=2 operations), <=2 snapshot operations
INIT Init
NEXT Next
CONSTANTS
  t1 = t1
  t2 = t2
  Txns = {t1, t2}
  Snaps = {"core", "app"}
  Revs = {1, 2}
  SetMenu <- MenuSmall
  GetPaths <- GetOne
  ChkPaths <- PathsUpTo3
  MaxOps = 2
  MaxRevOps = 2
SYMMETRY TxnSym
VIEW mcview
INVARIANTS ReadYourWrites NoLostUpdate SnapshotExact NoNullsCommitted TypeOK
PROPERTY Isolation
CHECK_DEADLOCK FALSE
