------------------------ MODULE AssertCheckTable ------------------------
(* C18: the decision table of AssertCheck as data for the T->I binding (one JSON array of
   [row, verdict]), exported while TLC checks the invariants of AssertCheck over every row. *)
EXTENDS AssertCheck, Sequences, SequencesExt, Json, IOUtils

Table == LET rs == SetToSeq(Rows)
         IN [i \in 1..Len(rs) |-> [row |-> rs[i], verdict |-> Check(rs[i])]]

ASSUME SomeAccept
ASSUME JsonSerialize(IOEnv.VERIF_OUT, Table)
=============================================================================
