-------------------------- MODULE AssertEncoder --------------------------
(* C20, streams: asserts.Encoder as a small state machine (asserts/asserts.go: Encoder.Encode /
   WriteEncoded / WriteContentSignature -> writeSep).

   An element handed to ONE Encoder either ends in a newline ("nl": a freshly signed assertion, whose
   signature carries the cat-friendly final newline) or does not ("nonl": an assertion obtained by
   Decode of text without the final newline, the last element of a stream not ending in a newline, or
   raw bytes given to WriteEncoded / WriteContentSignature).  The Encoder writes the separator that is
   due, the element, a newline if the element did not end in one, and then remembers that a separator
   is due before the next element.

   State: `tail` = for every element written so far, the number of newlines that follow its last
   non-newline byte in the stream so far; `sepDue`.  Clause of the statement: "several assertions
   streamed together decode back to the same sequence" -- the stream grammar needs every element to be
   followed by exactly ONE newline at the end of the stream and by exactly TWO (a blank line) before
   the next element (WellSeparated); fewer and the first signature swallows the next headers, more and
   the decoder sees an empty assertion. *)
EXTENDS Integers, Sequences, FiniteSets, TLC

CONSTANTS Apis,      \* subset of {"encode", "raw", "cs"}: Encode(a), WriteEncoded(bytes), WriteContentSignature(c, s)
          MaxElems   \* elements per stream

Forms == {"nl", "nonl"}
Kinds == {a \o "-" \o f : a \in Apis, f \in Forms}
EndsInNL(k) == \E a \in Apis : k = a \o "-nl"

(* pure step function, shared by the action and the exported histories *)
Step(st, k) ==
    LET n == Len(st.tail)
        sepd == IF st.sepDue /\ n > 0 THEN [st.tail EXCEPT ![n] = @ + 1] ELSE st.tail   \* write nextSep
    IN [tail |-> Append(sepd, 1),     \* the element's own final newline, or the one writeSep adds
        sepDue |-> TRUE]              \* writeSep: enc.nextSep = nl on EVERY path
Start == [tail |-> <<>>, sepDue |-> FALSE]

VARIABLES st, kinds
Init == st = Start /\ kinds = <<>>
Write(k) == Len(kinds) < MaxElems /\ st' = Step(st, k) /\ kinds' = Append(kinds, k)
Next == \E k \in Kinds : Write(k)
Spec == Init /\ [][Next]_<<st, kinds>>

WellSeparated == \A i \in 1..Len(st.tail) : st.tail[i] = IF i < Len(st.tail) THEN 2 ELSE 1
SepAlwaysDue == Len(kinds) > 0 => st.sepDue

(* all streams of 1..MaxElems elements *)
RECURSIVE KindSeqs(_)
KindSeqs(n) == IF n = 0 THEN {<<>>} ELSE {Append(s, k) : s \in KindSeqs(n - 1), k \in Kinds}
AllStreams == UNION {KindSeqs(n) : n \in 1..MaxElems}
=============================================================================
