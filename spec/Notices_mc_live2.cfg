\* C08 liveness (quick): Wake under weak fairness of the waiter's re-check; <= 2 additions, all at the same clock value
SPECIFICATION SpecLive
CONSTANTS
  Users <- MCUsers0
  Types <- MCTypes1
  Keys <- MCKeys
  RepeatAfters = {0, 2}
  Data = {"d"}
  Clients <- MCClients
  CfgChoices <- MCCfgLive
  ClockValues = {1}
  MaxAdds = 2
  Bump = TRUE
  BroadcastRepeat = TRUE
  AddAtTimes = {}
  ClockRegress = FALSE
INVARIANTS
  NoLostWakeup
PROPERTIES
  Wake
CHECK_DEADLOCK FALSE
