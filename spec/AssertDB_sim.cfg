\* generator config for T->I replay (tlc -simulate): behaviours of the FULL spec (reads + writes).
\* Invariants are left to the exhaustive configs; here TLC is the behaviour generator and computes
\* the expected result of every operation (variable `last`).
SPECIFICATION Spec
CONSTANTS
  PlainKeys = {"a", "b"}
  SeqKeys = {"s", "t"}
  MaxSeq = 3
  MaxRev = 3
  PlainFmts = {0, 1, 2}
  SeqFmts = {0, 1, 2, 3}
  PredefRev = 1
INVARIANTS TypeOK Monotone
CHECK_DEADLOCK FALSE
