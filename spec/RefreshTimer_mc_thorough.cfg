SPECIFICATION MCSpec
CONSTANTS
  TimeBound = 10
  MCMaxP = 4
  MCHour = 1
  MCRetry = 2
INVARIANTS
  NextInWindowOrAtLimit
  NoWindowPastLimit
  LaunchInWindowOrAtLimit
PROPERTIES
  NoEarlyLaunch
CHECK_DEADLOCK FALSE
