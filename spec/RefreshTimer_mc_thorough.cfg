SPECIFICATION MCSpec
CONSTANTS
  TimeBound = 6
  MCMaxP = 3
  MCHour = 1
  MCRetry = 2
  MCScheds = {"A", "B", "C"}
INVARIANTS
  NextInWindowOrAtLimit
  NoWindowPastLimit
  LaunchInWindowOrAtLimit
PROPERTIES
  NoEarlyLaunch
CHECK_DEADLOCK FALSE
