\* C26 codec, thorough (root module: ApiAccessCodecTable)
CONSTANTS
  MaxAttach = 3
SPECIFICATION Spec
INVARIANTS
  InvRoundTrip
  InvNeverAuthorised
  InvCredsStable
  InvIfaces
  InvFailClosed
CHECK_DEADLOCK FALSE
