-------------------------- MODULE TraceRefreshHold --------------------------
(***************************************************************************)
(* I->T binding for C15: validates an NDJSON log recorded from the REAL    *)
(* overlord/snapstate hold functions (harness/overlay/snapstate/           *)
(* zz_verif_hold_test.go) against RefreshHold.                             *)
(*                                                                         *)
(* Every step takes now/lastRefresh/hold/reported from the REAL post-state *)
(* (reported = what the real HeldSnaps returned), computes the history     *)
(* variables with the spec's own operators, and evaluates every C15        *)
(* invariant on that state.  With Strict (default) the step must in        *)
(* addition be exactly the spec's action: same accept/refuse, same         *)
(* remaining duration, same snaps-hold, same HeldSnaps / LongestGatingHold *)
(* / SystemHold.  VERIF_STRICT=0 drops that conjunct: then only the        *)
(* property statement is judged (used to classify a strict rejection).     *)
(***************************************************************************)
EXTENDS RefreshHold, IOUtils, Json

Trace  == ndJsonDeserialize(IOEnv.VERIF_TRACE)
Strict == ~("VERIF_STRICT" \in DOMAIN IOEnv /\ IOEnv.VERIF_STRICT = "0")

VARIABLE l
tvars == <<vars, l>>

ToSet(q) == {q[i] : i \in 1..Len(q)}
Ev       == Trace[l]
LHold    == [s \in Snaps |-> [g \in Holders |-> Ev.st.hold[s][g]]]
LLast    == [s \in Snaps |-> Ev.st.lastRefresh[s]]
LRep     == <<[s \in Snaps |-> ToSet(Ev.st.reported[1][s])], [s \in Snaps |-> ToSet(Ev.st.reported[2][s])]>>

IsEv(e) == l <= Len(Trace) /\ Trace[l].ev = e /\ l' = l + 1

\* lastRefresh is the spec's OWN record of when each snap was last refreshed: only a SUCCESSFUL refresh moves it. It is
\* never taken from the code (what the code believes -- LastRefreshed(), logged as st.lastRefresh -- is compared with it
\* in the strict pass only), so the 90-day invariants are judged against the real last refresh.
SpecLast == IF Ev.ev = "Reset" THEN [s \in Snaps |-> 0]
            ELSE IF Ev.ev = "Refreshed" THEN [lastRefresh EXCEPT ![Ev.args.s] = now]
            ELSE lastRefresh

\* the real post-state (clock, snaps-hold, what HeldSnaps reports) becomes the next state
TakeLogged ==
    /\ now' = Ev.st.now
    /\ lastRefresh' = SpecLast
    /\ hold' = LHold
    /\ reported' = LRep

\* observers that the spec derives from the state
ObserversAgree ==
    /\ LRep = ReportedOf(LHold, LLast, Ev.st.now)
    /\ \A s \in Snaps : Ev.st.longest[s] = LongestGating(LHold, s)
    /\ \A s \in Snaps : Ev.st.syshold[s] = LHold[s][System].until

Same(h, lr, t) == LHold = h /\ LLast = lr /\ Ev.st.now = t /\ ObserversAgree

TReset ==
    /\ IsEv("Reset")
    /\ TakeLogged
    /\ Ev.st.now = 0 /\ LLast = [s \in Snaps |-> 0] /\ LHold = [s \in Snaps |-> [g \in Holders |-> None]]
    /\ epStart' = [s \in Snaps |-> [g \in Holders |-> -1]]
    /\ sysReq' = [s \in Snaps |-> NoReq]
    /\ mon' = NoMon
    /\ steps' = 0

THold ==
    /\ IsEv("Hold")
    /\ LET g == Ev.args.g
           S == ToSet(Ev.args.S)
           r == SnapHoldNext(hold, lastRefresh, now, g, S, 0, LAuto)
       IN /\ TakeLogged
          /\ Strict => (Same(r.hold, lastRefresh, now) /\ Ev.res.ok = r.ok /\ (Ev.res.rem = -1 \/ Ev.res.rem = r.remaining))
          /\ History("Hold", g, S, ~Ev.res.ok, sysReq)   \* rem = -1: not observable (hook error path)

THoldFor ==
    /\ IsEv("HoldFor")
    /\ LET g == Ev.args.g
           S == ToSet(Ev.args.S)
           r == SnapHoldNext(hold, lastRefresh, now, g, S, Ev.args.d, LAuto)
       IN /\ TakeLogged
          /\ Strict => (Same(r.hold, lastRefresh, now) /\ Ev.res.ok = r.ok /\ Ev.res.rem = r.remaining)
          /\ History("HoldFor", g, S, ~Ev.res.ok, sysReq)

TSystemHold ==
    /\ IsEv("SystemHold")
    /\ LET S == ToSet(Ev.args.S)
           d == Ev.args.d
           lvl == Ev.args.lvl
       IN /\ TakeLogged
          /\ Strict => Same(SysHoldNext(hold, now, S, d, lvl), lastRefresh, now)
          /\ History("SystemHold", System, S, FALSE,
                     [s \in Snaps |-> IF s \in S THEN [until |-> IF d = Forever THEN Forever ELSE now + d, level |-> lvl]
                                      ELSE sysReq[s]])

TProceed ==
    /\ IsEv("Proceed")
    /\ LET g == Ev.args.g
           S == ToSet(Ev.args.S)
       IN /\ TakeLogged
          /\ Strict => Same(ProceedNext(hold, g, S), lastRefresh, now)
          /\ History("Proceed", g, S, FALSE,
                     IF g = System THEN [s \in Snaps |-> IF S = {} \/ s \in S THEN NoReq ELSE sysReq[s]] ELSE sysReq)

TRefreshed ==
    /\ IsEv("Refreshed")
    /\ LET s == Ev.args.s
       IN /\ TakeLogged
          /\ Strict => Same(PruneOf(hold, {s}), [lastRefresh EXCEPT ![s] = now], now)
          /\ History("Refreshed", System, {s}, FALSE, sysReq)

\* a refresh of s that got past link-snap and was then undone (a later task failed): the request reset the gating of s
\* (doInstall), the snap was NOT refreshed -- lastRefresh stays
TFailedRefresh ==
    /\ IsEv("FailedRefresh")
    /\ LET s == Ev.args.s
       IN /\ TakeLogged
          /\ Strict => Same(PruneOf(hold, {s}), lastRefresh, now)
          /\ History("Refreshed", System, {s}, FALSE, sysReq)

TPrune ==
    /\ IsEv("Prune")
    /\ LET C == ToSet(Ev.args.C)
       IN /\ TakeLogged
          /\ Strict => (LHold \in PruneGatingOutcomes(hold, C) /\ Same(LHold, lastRefresh, now))
          /\ History("Prune", System, C, FALSE, sysReq)

TTick ==
    /\ IsEv("Tick")
    /\ TakeLogged
    /\ Strict => Same(hold, lastRefresh, now + Ev.args.d)
    /\ ~Strict => (Ev.st.now = now + Ev.args.d)          \* the clock is the driver's, not the code's
    /\ History("Tick", System, {}, FALSE, sysReq)

TInit == Init /\ l = 1
TNext == TReset \/ THold \/ THoldFor \/ TSystemHold \/ TProceed \/ TRefreshed \/ TFailedRefresh \/ TPrune \/ TTick

Accepted == TLCGet("stats").diameter - 1 = Len(Trace)
=============================================================================
