INIT Init
NEXT Next
CONSTANTS
  Scalars = {}
  SmallScalars = {}
  Bodies = {}
  Revisions = {}
CHECK_DEADLOCK FALSE
