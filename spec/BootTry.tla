------------------------------ MODULE BootTry ------------------------------
(***************************************************************************)
(* C17 -- kernel/base try-boot protocol of snapd (boot/*.go).              *)
(*                                                                         *)
(* One module, three instantiations (constant Variant):                    *)
(*   "UC16"     bootenv snap_mode, snap_{kernel,core}, snap_try_{kernel,   *)
(*              core}; try->trying / trying->"" done by the gadget's boot  *)
(*              script (ASSUMED as documented in boot.MarkBootSuccessful)  *)
(*   "UC20grub" bootenv kernel_status + kernel.efi/try-kernel.efi links,   *)
(*              modeenv base/try_base/base_status/current_kernels;         *)
(*              firmware rules = bootloader/assets/data/grub.cfg           *)
(*   "UC20ns"   not scriptable (piboot): env kernel_status, snap_kernel,   *)
(*              snap_try_kernel written with one SetBootVars; tryboot flag *)
(*              is volatile; try->trying / ->"" done by the initramfs      *)
(*              (updateNotScriptableBootloaderStatus) keyed on cmdline.    *)
(*                                                                         *)
(* Every snapd action (SetNextBoot, SetNextBoot{BootWithoutTry},           *)
(* MarkBootSuccessful) is a *plan*: the sequence of single durable writes  *)
(* the real code performs, computed from the state read when the action    *)
(* starts (that is how the code works: it loads bootenv+modeenv, decides,  *)
(* then commits pre-modeenv tasks -> modeenv -> post-modeenv tasks).       *)
(* One spec step per write; PowerLoss is enabled between any two.          *)
(***************************************************************************)
EXTENDS Naturals, Sequences, FiniteSets, TLC

CONSTANTS Variant,          \* "UC16" | "UC20grub" | "UC20ns"
          KRevs, BRevs,     \* revisions of the kernel / base snap (1 is the installed one)
          MaxCK,            \* bound on Len(current_kernels) (the real list only grows by SetNext)
          MaxFaults,        \* 0 = unlimited; else budget of PowerLoss + failed boots (liveness cfg)
          ExcuseKnown       \* TRUE: the two known deviations (PowerLossUndoWindow, SetNext*Stale16) are named actions that
                            \* set h.dev; FALSE: they are ordinary behaviour and the invariants expose them

ASSUME Variant \in {"UC16", "UC20grub", "UC20ns"}
ASSUME 1 \in KRevs /\ 1 \in BRevs

UC20 == Variant \in {"UC20grub", "UC20ns"}
NS   == Variant = "UC20ns"
GRUB == Variant = "UC20grub"
UC16 == Variant = "UC16"

VARIABLES
  d,     \* durable boot state: [kst, kcur, ktry, ck, bcur, btry, bst]
         \*   kst  kernel_status (UC20) / snap_mode (UC16)        "" | "try" | "trying"
         \*   kcur kernel.efi (grub) / snap_kernel                revision
         \*   ktry try-kernel.efi (grub) / snap_try_kernel        revision, 0 = absent
         \*   ck   modeenv current_kernels (UC20)                 sequence of revisions
         \*   bcur modeenv base (UC20) / snap_core (UC16)         revision
         \*   btry modeenv try_base / snap_try_core               revision, 0 = empty
         \*   bst  modeenv base_status (UC20; "" on UC16)
  pres,  \* [k, b]: revisions whose snap file (+ extracted kernel assets) exist
  boot,  \* [phase, rk, rb, mk, tryboot, cmdtrying, why]
         \*   phase "fw" | "ins" | "ibase" | "ikern" | "result" | "run" | "halt"
         \*   rk kernel image loaded by the firmware, mk kernel snap mounted by the initramfs, rb base
  act,   \* snapd action in progress [name, arg, ws, pc]; pc = number of writes already durable
  h      \* history / monitors [goodk, goodb, trialk, trialb, marked, markok, mgk, mgb, dev, win, faults]
         \*   dev: a named deviation was taken in this behaviour; win: it was the undo window (the only excuse for halt)

vars == <<d, pres, boot, act, h>>

Status == {"", "try", "trying"}
Range(s) == {s[i] : i \in DOMAIN s}
Merge(r, u) == [f \in DOMAIN r |-> IF f \in DOMAIN u THEN u[f] ELSE r[f]]
W(op, upd) == [op |-> op, upd |-> upd]
Opt(c, w) == IF c THEN <<w>> ELSE <<>>

Idle == [name |-> "idle", arg |-> 0, ws |-> <<>>, pc |-> 0]
Off(phase, why) == [phase |-> phase, rk |-> 0, rb |-> 0, mk |-> 0, tryboot |-> FALSE, cmdtrying |-> FALSE, why |-> why]

-----------------------------------------------------------------------------
(* Which snap MarkBootSuccessful declares successful (selectSuccessfulBootSnap / bootState16) *)
SucK(s)   == IF s.kst = "trying" /\ s.ktry # 0 THEN s.ktry ELSE s.kcur
SucB20(s) == IF s.bst = "trying" /\ s.btry # 0 THEN s.btry ELSE s.bcur
SucB16(s) == IF s.kst = "trying" /\ s.btry # 0 THEN s.btry ELSE s.bcur
SucB(s)   == IF UC16 THEN SucB16(s) ELSE SucB20(s)

(* ---- write plans: UC20 with extracted run kernel image (grub) ---------- *)
(* bootState20Kernel.setNext + extractedRunKernelImageBootloaderKernelState.setNextKernel:
   post-modeenv task; modeenv current_kernels += r first *)
PlanSetNextK_grub(s, r) ==
  IF r = s.kcur
  THEN Opt(s.kst # "", W("status", [kst |-> ""]))
  ELSE <<W("modeenv", [ck |-> Append(s.ck, r)]), W("enabletry", [ktry |-> r])>>
       \o Opt(s.kst # "try", W("status", [kst |-> "try"]))

(* BootWithoutTry: modeenv current_kernels := [r] BEFORE setNextKernelNoTry re-points kernel.efi *)
PlanUndoK_grub(s, r) ==
  Opt(s.ck # <<r>>, W("modeenv", [ck |-> <<r>>]))
  \o Opt(r # s.kcur, W("enable", [kcur |-> r]))
  \o <<W("disabletry", [ktry |-> 0])>>
  \o Opt(s.kst # "", W("status", [kst |-> ""]))

MarkMen20(s) == [bcur |-> SucB20(s), btry |-> 0, bst |-> "", ck |-> <<SucK(s)>>]
MenChanged(s, m) == \E f \in DOMAIN m : s[f] # m[f]

(* markSuccessfulKernel is a pre-modeenv task: status -> kernel.efi -> rm try-kernel.efi -> modeenv *)
PlanMark_grub(s) ==
  Opt(s.kst # "", W("status", [kst |-> ""]))
  \o Opt(SucK(s) # s.kcur, W("enable", [kcur |-> SucK(s)]))
  \o <<W("disabletry", [ktry |-> 0])>>
  \o Opt(MenChanged(s, MarkMen20(s)), W("modeenv", MarkMen20(s)))

(* ---- write plans: UC20 env-only not-scriptable bootloader (piboot) ----- *)
PlanSetNextK_ns(s, r) ==
  IF r = s.kcur
  THEN Opt(s.kst # "", W("env", [kst |-> ""]))
  ELSE <<W("modeenv", [ck |-> Append(s.ck, r)]), W("env", [kst |-> "try", ktry |-> r])>>

PlanUndoK_ns(s, r) ==
  Opt(s.ck # <<r>>, W("modeenv", [ck |-> <<r>>]))
  \o Opt(s.kst # "" \/ r # s.kcur, W("env", [kst |-> "", kcur |-> r]))

PlanMark_ns(s) ==
  Opt(s.kst # "" \/ SucK(s) # s.kcur \/ s.ktry # 0, W("env", [kst |-> "", kcur |-> SucK(s), ktry |-> 0]))
  \o Opt(MenChanged(s, MarkMen20(s)), W("modeenv", MarkMen20(s)))

(* ---- write plans: UC20 base (modeenv only, one atomic file write) ------ *)
PlanSetNextB20(s, r) ==
  IF r = s.bcur
  THEN Opt(s.bst # "", W("modeenv", [bst |-> ""]))
  ELSE Opt(s.btry # r \/ s.bst # "try", W("modeenv", [btry |-> r, bst |-> "try"]))

PlanUndoB20(s, r) ==
  IF r = s.bcur
  THEN Opt(s.bst # "", W("modeenv", [bst |-> ""]))
  ELSE <<W("modeenv", [bcur |-> r, btry |-> 0, bst |-> ""])>>

(* ---- write plans: UC16 (one SetBootVars per action, always issued) ----- *)
PlanSetNextK16(s, r) ==
  IF r = s.kcur THEN Opt(s.kst # "", W("env", [kst |-> "", ktry |-> 0]))
  ELSE <<W("env", [kst |-> "try", ktry |-> r])>>
PlanUndoK16(s, r) ==
  IF r = s.kcur THEN Opt(s.kst # "", W("env", [kst |-> "", ktry |-> 0]))
  ELSE <<W("env", [kcur |-> r, kst |-> "", ktry |-> 0])>>
PlanSetNextB16(s, r) ==
  IF r = s.bcur THEN Opt(s.kst # "", W("env", [kst |-> "", btry |-> 0]))
  ELSE <<W("env", [kst |-> "try", btry |-> r])>>
PlanUndoB16(s, r) ==
  IF r = s.bcur THEN Opt(s.kst # "", W("env", [kst |-> "", btry |-> 0]))
  ELSE <<W("env", [bcur |-> r, kst |-> "", btry |-> 0])>>
PlanMark16(s) ==
  IF s.kst # "trying" THEN <<W("env", [ktry |-> 0, btry |-> 0])>>
  ELSE <<W("env", [kst |-> "", kcur |-> SucK(s), ktry |-> 0, bcur |-> SucB16(s), btry |-> 0])>>

Plan(name, s, r) ==
  CASE name = "SetNextK" -> (IF GRUB THEN PlanSetNextK_grub(s, r) ELSE IF NS THEN PlanSetNextK_ns(s, r) ELSE PlanSetNextK16(s, r))
    [] name = "UndoK"    -> (IF GRUB THEN PlanUndoK_grub(s, r) ELSE IF NS THEN PlanUndoK_ns(s, r) ELSE PlanUndoK16(s, r))
    [] name = "SetNextB" -> (IF UC20 THEN PlanSetNextB20(s, r) ELSE PlanSetNextB16(s, r))
    [] name = "UndoB"    -> (IF UC20 THEN PlanUndoB20(s, r) ELSE PlanUndoB16(s, r))
    [] name = "Mark"     -> (IF GRUB THEN PlanMark_grub(s) ELSE IF NS THEN PlanMark_ns(s) ELSE PlanMark16(s))

(* boot.InUse: candidates are the current and (when set) the try revision of boot.revisions() *)
InUseK(s, r) == r = s.kcur \/ (s.ktry # 0 /\ r = s.ktry)
InUseB(s, r) == r = s.bcur \/ (s.btry # 0 /\ r = s.btry /\ (UC16 \/ s.bst # ""))

-----------------------------------------------------------------------------
(* Firmware rule table of grub.cfg on $kernel_status (compared with the asset by the check) *)
GrubRule(st) ==
  CASE st = "try"    -> [newst |-> "trying", save |-> TRUE,  kernel |-> "try-kernel.efi", fallback |-> TRUE]
    [] st = "trying" -> [newst |-> "",       save |-> TRUE,  kernel |-> "kernel.efi",     fallback |-> FALSE]
    [] st = ""       -> [newst |-> "",       save |-> FALSE, kernel |-> "kernel.efi",     fallback |-> FALSE]
    [] OTHER         -> [newst |-> "",       save |-> TRUE,  kernel |-> "kernel.efi",     fallback |-> FALSE]

-----------------------------------------------------------------------------
Init ==
  /\ d = [kst |-> "", kcur |-> 1, ktry |-> 0, ck |-> IF UC20 THEN <<1>> ELSE <<>>, bcur |-> 1, btry |-> 0, bst |-> ""]
  /\ pres = [k |-> KRevs, b |-> BRevs]
  /\ boot = [phase |-> "run", rk |-> 1, rb |-> 1, mk |-> 1, tryboot |-> FALSE, cmdtrying |-> FALSE, why |-> ""]
  /\ act = Idle
  /\ h = [goodk |-> {1}, goodb |-> {1}, trialk |-> 0, trialb |-> 0, marked |-> TRUE, markok |-> TRUE,
          mgk |-> FALSE, mgb |-> FALSE, dev |-> FALSE, win |-> FALSE, faults |-> 0]

SnapdIdle == boot.phase = "run" /\ act = Idle
Start(name, arg) == act' = [name |-> name, arg |-> arg, ws |-> Plan(name, d, arg), pc |-> 0]

(* UC16 only: snap_mode is shared by kernel and core, and bootState16.setNext(current revision) either clears only its
   own snap_try_X or (snap_mode already "") does nothing ("already clean").  A snap_try_X of the OTHER type whose trial
   snapd has meanwhile cancelled can therefore stay behind, and the next SetNext of the first type (snap_mode=try)
   re-activates it.  Candidate finding #2; as a named deviation the stale revision counts as de-facto under trial. *)
StaleB16 == UC16 /\ d.btry # 0 /\ h.trialb # d.btry
StaleK16 == UC16 /\ d.ktry # 0 /\ h.trialk # d.ktry

(* snapd: link-snap of a new kernel revision (or of the current one: clears the status) *)
SetNextKBody(r) ==
  /\ SnapdIdle /\ h.marked /\ r \in pres.k
  /\ r # d.kcur => (h.trialk = 0 /\ (UC20 => Len(d.ck) < MaxCK))
  /\ Start("SetNextK", r)
  /\ UNCHANGED <<d, pres, boot>>

SetNextK(r) ==
  /\ SetNextKBody(r)
  /\ ExcuseKnown => ~(r # d.kcur /\ StaleB16)
  /\ h' = [h EXCEPT !.trialk = IF r # d.kcur THEN r ELSE @]

SetNextKStale16(r) ==       \* named deviation
  /\ SetNextKBody(r)
  /\ ExcuseKnown /\ r # d.kcur /\ StaleB16
  /\ h' = [h EXCEPT !.trialk = r, !.trialb = d.btry, !.dev = TRUE]

SetNextBBody(r) ==
  /\ SnapdIdle /\ h.marked /\ r \in pres.b
  /\ r # d.bcur => h.trialb = 0
  /\ Start("SetNextB", r)
  /\ UNCHANGED <<d, pres, boot>>

SetNextB(r) ==
  /\ SetNextBBody(r)
  /\ ExcuseKnown => ~(r # d.bcur /\ StaleK16)
  /\ h' = [h EXCEPT !.trialb = IF r # d.bcur THEN r ELSE @]

SetNextBStale16(r) ==       \* named deviation
  /\ SetNextBBody(r)
  /\ ExcuseKnown /\ r # d.bcur /\ StaleK16
  /\ h' = [h EXCEPT !.trialb = r, !.trialk = d.ktry, !.dev = TRUE]

(* snapd: undo (SetNextBoot with BootWithoutTry) back to a known-good revision *)
UndoK(r) ==
  /\ SnapdIdle /\ h.marked /\ r \in pres.k /\ r \in h.goodk
  /\ Start("UndoK", r)
  /\ UNCHANGED <<d, pres, boot, h>>

UndoB(r) ==
  /\ SnapdIdle /\ h.marked /\ r \in pres.b /\ r \in h.goodb
  /\ Start("UndoB", r)
  /\ UNCHANGED <<d, pres, boot, h>>

(* snapd: MarkBootSuccessful, first thing after every boot (devicestate ensureBootOk) *)
Mark ==
  /\ SnapdIdle /\ ~h.marked
  /\ Start("Mark", 0)
  /\ h' = [h EXCEPT !.markok = @ /\ SucK(d) = boot.rk /\ SucB(d) = boot.rb]
  /\ UNCHANGED <<d, pres, boot>>

(* one durable write of the action in progress *)
Step ==
  /\ act # Idle /\ act.pc < Len(act.ws)
  /\ LET nd == Merge(d, act.ws[act.pc + 1].upd) IN
       /\ d' = nd
       /\ h' = IF act.name = "Mark"
               THEN [h EXCEPT !.goodk = @ \cup {nd.kcur}, !.goodb = @ \cup {nd.bcur}]
               ELSE h
  /\ act' = [act EXCEPT !.pc = @ + 1]
  /\ UNCHANGED <<pres, boot>>

End ==
  /\ act # Idle /\ act.pc = Len(act.ws)
  /\ act' = Idle
  /\ h' = CASE act.name = "Mark"  -> [h EXCEPT !.marked = TRUE, !.trialk = 0, !.trialb = 0, !.mgk = FALSE, !.mgb = FALSE]
            [] act.name = "UndoK" -> [h EXCEPT !.trialk = 0]
            [] act.name = "UndoB" -> [h EXCEPT !.trialb = 0]
            [] act.name = "SetNextK" -> [h EXCEPT !.trialk = IF act.arg = d.kcur THEN 0 ELSE @]
            [] act.name = "SetNextB" -> [h EXCEPT !.trialb = IF act.arg = d.bcur THEN 0 ELSE @]
  /\ UNCHANGED <<d, pres, boot>>

(* snapstate garbage collection of an old revision, guarded by boot.InUse *)
RemoveK(r) ==
  /\ SnapdIdle /\ h.marked /\ r \in pres.k /\ ~InUseK(d, r)
  /\ pres' = [pres EXCEPT !.k = @ \ {r}]
  /\ UNCHANGED <<d, boot, act, h>>
RemoveB(r) ==
  /\ SnapdIdle /\ h.marked /\ r \in pres.b /\ ~InUseB(d, r)
  /\ pres' = [pres EXCEPT !.b = @ \ {r}]
  /\ UNCHANGED <<d, boot, act, h>>

-----------------------------------------------------------------------------
CanFault == MaxFaults = 0 \/ h.faults < MaxFaults
Faulted(hh) == [hh EXCEPT !.faults = IF MaxFaults = 0 THEN 0 ELSE @ + 1]

(* a trial boot of this type has begun and was not yet marked: after its failure the next boot must be good *)
BegunK == d.kst = "trying" \/ (NS /\ boot.cmdtrying /\ boot.phase = "ins")
BegunB == IF UC16 THEN d.kst = "trying" ELSE d.bst = "trying"
Failed(hh) == [hh EXCEPT !.marked = FALSE, !.mgk = @ \/ BegunK, !.mgb = @ \/ BegunB]

(* the candidate finding: UC20 undo wrote current_kernels=[r] but kernel.efi/snap_kernel still is the other one *)
InUndoWindow ==
  /\ UC20 /\ act.name = "UndoK" /\ act.pc >= 1 /\ act.pc < Len(act.ws)
  /\ act.ws[1].op = "modeenv" /\ d.kcur # act.arg

PowerLoss ==
  /\ boot.phase \notin {"fw", "halt"} /\ CanFault
  /\ ExcuseKnown => ~InUndoWindow
  /\ act' = Idle
  /\ boot' = Off("fw", "")
  /\ h' = Faulted(Failed(h))
  /\ UNCHANGED <<d, pres>>

PowerLossUndoWindow ==      \* named deviation, see notes/C17.md
  /\ ExcuseKnown /\ InUndoWindow /\ CanFault
  /\ act' = Idle
  /\ boot' = Off("fw", "")
  /\ h' = [Faulted(Failed(h)) EXCEPT !.dev = TRUE, !.win = TRUE]
  /\ UNCHANGED <<d, pres>>

(* clean reboot requested by snapd (piboot: reboot argument "0 tryboot" iff kernel_status=try) *)
Reboot ==
  /\ SnapdIdle /\ h.marked
  /\ boot' = [Off("fw", "") EXCEPT !.tryboot = NS /\ d.kst = "try"]
  /\ h' = [h EXCEPT !.marked = FALSE]
  /\ UNCHANGED <<d, pres, act>>

-----------------------------------------------------------------------------
Halt(why) == boot' = Off("halt", why)

FwGrub ==
  LET row == GrubRule(d.kst)
      img == IF row.kernel = "try-kernel.efi" THEN d.ktry ELSE d.kcur
  IN /\ d' = [d EXCEPT !.kst = row.newst]
     /\ IF img # 0 /\ img \in pres.k
        THEN boot' = [Off("ibase", "") EXCEPT !.rk = img]
        ELSE IF row.fallback
             THEN boot' = Off("fw", "")      \* chainloader fails -> menuentry "Fallback" -> reboot
             ELSE Halt("kernel.efi missing")
     /\ h' = h

FwNs ==
  LET img == IF boot.tryboot THEN d.ktry ELSE d.kcur
  IN /\ d' = d
     /\ IF img # 0 /\ img \in pres.k
        THEN boot' = [Off("ins", "") EXCEPT !.rk = img, !.cmdtrying = boot.tryboot]
        ELSE IF boot.tryboot THEN boot' = Off("fw", "") ELSE Halt("kernel image missing")
     /\ h' = h

Fw16 ==   \* ASSUMPTION: gadget boot script as documented in boot.MarkBootSuccessful
  LET trying == d.kst = "try"
      newst == IF d.kst = "try" THEN "trying" ELSE ""
      ik == IF trying /\ d.ktry # 0 THEN d.ktry ELSE d.kcur
      ib == IF trying /\ d.btry # 0 THEN d.btry ELSE d.bcur
  IN /\ d' = [d EXCEPT !.kst = newst]
     /\ IF ik \in pres.k /\ ib \in pres.b
        THEN boot' = [Off("result", "") EXCEPT !.rk = ik, !.mk = ik, !.rb = ib]
        ELSE IF trying THEN boot' = Off("fw", "") ELSE Halt("boot snap missing")
     /\ h' = h

Firmware ==
  /\ boot.phase = "fw"
  /\ IF GRUB THEN FwGrub ELSE IF NS THEN FwNs ELSE Fw16
  /\ UNCHANGED <<pres, act>>

(* initramfs, not-scriptable only: boot.updateNotScriptableBootloaderStatus *)
InitNs ==
  /\ boot.phase = "ins"
  /\ d' = [d EXCEPT !.kst = IF @ = "" THEN "" ELSE IF boot.cmdtrying /\ @ = "try" THEN "trying" ELSE ""]
  /\ boot' = [boot EXCEPT !.phase = "ibase"]
  /\ UNCHANGED <<pres, act, h>>

(* initramfs: bootState20Base.selectAndCommitSnapInitramfsMount (one modeenv write) *)
InitBase ==
  /\ boot.phase = "ibase"
  /\ IF d.bcur \notin pres.b
     THEN /\ Halt("base snap does not exist") /\ d' = d
     ELSE LET tryok == d.bst = "try" /\ d.btry # 0 /\ d.btry \in pres.b
              nbst == CASE d.bst = "try" -> (IF tryok THEN "trying" ELSE "try")
                        [] d.bst = "trying" -> ""
                        [] OTHER -> d.bst
          IN /\ d' = [d EXCEPT !.bst = nbst]
             /\ boot' = [boot EXCEPT !.phase = "ikern", !.rb = IF tryok THEN d.btry ELSE d.bcur]
  /\ UNCHANGED <<pres, act, h>>

(* initramfs: bootState20Kernel.selectAndCommitSnapInitramfsMount *)
InitKernelOutcome ==
  IF d.kcur \notin pres.k THEN [res |-> "halt", mk |-> 0, why |-> "kernel snap does not exist"]
  ELSE IF d.kst = "trying"
       THEN IF d.ktry # 0 /\ d.ktry \in pres.k /\ d.ktry \in Range(d.ck)
            THEN [res |-> "ok", mk |-> d.ktry, why |-> ""]
            ELSE [res |-> "reboot", mk |-> 0, why |-> ""]
       ELSE IF d.kst = "try" THEN [res |-> "reboot", mk |-> 0, why |-> ""]
       ELSE IF d.kcur \in Range(d.ck) THEN [res |-> "ok", mk |-> d.kcur, why |-> ""]
            ELSE [res |-> "halt", mk |-> 0, why |-> "fallback kernel snap is not trusted in the modeenv"]

InitKernel ==
  /\ boot.phase = "ikern"
  /\ LET o == InitKernelOutcome IN
       CASE o.res = "ok"     -> /\ boot' = [boot EXCEPT !.phase = "result", !.mk = o.mk] /\ h' = h
         [] o.res = "reboot" -> /\ boot' = Off("fw", "") /\ h' = Failed(h)
         [] o.res = "halt"   -> /\ Halt(o.why) /\ h' = h
  /\ UNCHANGED <<d, pres, act>>

(* the booted combination reaches snapd ... *)
BootOK ==
  /\ boot.phase = "result"
  /\ boot' = [boot EXCEPT !.phase = "run"]
  /\ h' = [h EXCEPT !.marked = FALSE]
  /\ UNCHANGED <<d, pres, act>>

(* ... or (only a revision under trial can) fails to: panic/watchdog reboot *)
BootFail ==
  /\ boot.phase = "result" /\ CanFault
  /\ boot.rk \notin h.goodk \/ boot.rb \notin h.goodb
  /\ boot' = Off("fw", "")
  /\ h' = Faulted(Failed(h))
  /\ UNCHANGED <<d, pres, act>>

Pipeline == Firmware \/ InitNs \/ InitBase \/ InitKernel \/ BootOK
SnapdProgress == Mark \/ Step \/ End

Next ==
  \/ \E r \in KRevs : SetNextK(r) \/ SetNextKStale16(r) \/ UndoK(r) \/ RemoveK(r)
  \/ \E r \in BRevs : SetNextB(r) \/ SetNextBStale16(r) \/ UndoB(r) \/ RemoveB(r)
  \/ Mark \/ Step \/ End \/ Reboot
  \/ PowerLoss \/ PowerLossUndoWindow
  \/ Pipeline \/ BootFail

Spec == Init /\ [][Next]_vars
LiveSpec == Spec /\ WF_vars(Pipeline) /\ WF_vars(SnapdProgress)

-----------------------------------------------------------------------------
TypeOK ==
  /\ d.kst \in Status /\ d.bst \in Status
  /\ d.kcur \in KRevs /\ d.ktry \in KRevs \cup {0} /\ d.bcur \in BRevs /\ d.btry \in BRevs \cup {0}
  /\ Range(d.ck) \subseteq KRevs /\ Len(d.ck) <= MaxCK
  /\ pres.k \subseteq KRevs /\ pres.b \subseteq BRevs
  /\ boot.phase \in {"fw", "ins", "ibase", "ikern", "result", "run", "halt"}

Booted == boot.phase \in {"result", "run"}

(* only a known-good revision or the single revision under trial is ever booted *)
OnlyGoodOrTried ==
  /\ boot.rk # 0 => boot.rk \in h.goodk \cup {h.trialk}
  /\ Booted => boot.rb \in h.goodb \cup {h.trialb}
  /\ Booted => boot.mk = boot.rk            \* the mounted kernel snap is the loaded kernel image

(* after a failed / interrupted trial boot the next boot that reaches snapd is known-good, untouched by snapd *)
FallbackWorks ==
  boot.phase = "run" => /\ h.mgk => boot.rk \in h.goodk
                        /\ h.mgb => boot.rb \in h.goodb

(* a revision becomes the fallback target only by MarkBootSuccessful of a boot that really ran it *)
GoodOnlyAfterMark ==
  /\ h.markok
  /\ d.kcur \in h.goodk /\ d.bcur \in h.goodb

(* the boot never stops for lack of a trusted kernel / base (except the named deviation) *)
NeverStuck == boot.phase = "halt" => h.win

(* whatever the pipeline can select exists: boot.InUse really protects it from garbage collection *)
Selectable ==
  [k |-> {d.kcur} \cup (IF d.kst # "" /\ d.ktry # 0 THEN {d.ktry} ELSE {}),
   b |-> {d.bcur} \cup (IF (IF UC16 THEN d.kst ELSE d.bst) = "try" /\ d.btry # 0 THEN {d.btry} ELSE {})]
InUseProtects == Selectable.k \subseteq pres.k /\ Selectable.b \subseteq pres.b

(* liveness (bounded fault budget): the device keeps coming back to a running known-good combination *)
GoodRun == boot.phase = "run" /\ boot.rk \in h.goodk /\ boot.rb \in h.goodb
ComesBack == ([]<>GoodRun) \/ <>[](boot.phase = "halt" /\ h.win)

=============================================================================
