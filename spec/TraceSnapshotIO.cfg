CONSTANTS
  MaxMembers = 1
  Faults = FALSE
  Keys <- TrKeys
  Befores <- TrSeqs
  Afters <- TrSeqs
  Types <- TrStrs
  Bodies <- TrStrs
  REntries <- TrEntries
  PreClasses <- TrStrs
  Corruptions <- TrStrs
INIT TInit
NEXT TNext
CHECK_DEADLOCK FALSE
POSTCONDITION Accepted
INVARIANTS
  Confined
  OtherSetsUntouched
  FailedImportCleansZips
  FailedRestoreIsIdentity
  CorruptNeverRestores
  SuccessReproducesSaved
  CleanupRemovesAsides
  RevertAfterSuccessIsIdentity
