----------------------------- MODULE GadgetLayout -----------------------------
(* C38 -- any gadget volume that passes validation lays out into structures at non-negative, increasing
   offsets, no two overlapping, every raw content image inside its structure.

   Code: gadget/gadget.go  InfoFromGadgetYaml -> setImplicitForVolume (implicit offsets / min-size / mbr role),
                           orderStructuresByOffset, validateVolume -> validateVolumeStructure, validateRole,
                           validateCrossVolumeStructure, validateOffsetWrite, Volume.MinSize
         gadget/ondisk.go  OnDiskStructsFromGadget (image-build layout: offset = explicit, else end of previous)
         gadget/layout.go  LayoutVolume -> layOutStructureContent (raw images inside bare structures)

   A volume is [partial |-> BOOLEAN (partial: [size]), structs |-> sequence in gadget.yaml order of
     [off  |-> Unset | n,         offset:
      size |-> n,                 size:        (0 = absent, only legal with partial size)
      min  |-> n,                 min-size:    (0 = absent)
      role |-> "none" | "mbr" | "system-boot" | "system-data" | "system-save" | "system-seed",
      ow   |-> Unset | n,         offset-write: (absolute, or relative to the structure named like the first
      owrel|-> BOOLEAN,                          structure of the yaml when owrel)
      content |-> sequence of [off |-> Unset | n, img |-> size of the image file, decl |-> declared size or 0]]
   Structures with role none/mbr are bare (raw content is laid out); the others carry a filesystem (their
   content is files, not laid out).  Quantities are plain integers; MinStart (1 MiB), MbrMax (446) and PtrSize
   (4) are parameters so that TLC can enumerate a scaled-down instance exhaustively while TraceGadgetLayout
   evaluates the very same operators at the real byte values for the conformance check. *)
EXTENDS Integers, Sequences, FiniteSets, TLC

CONSTANTS MinStart,      \* gadget.NonMBRStartOffset
          MbrMax,        \* gadget.SizeMBR
          PtrSize,       \* gadget.SizeLBA48Pointer
          MaxStructs,    \* enumeration bound
          OffVals, SizeVals, MinVals, RoleVals, OwVals, ContentVals, PartialVals,  \* enumeration domain
          Prune          \* TRUE: rejected volumes are not extended (sound when rejection is prefix-closed:
                         \* no offset-write in the domain; checked by PrefixClosed in GadgetLayout_mc_prefix.cfg)

Unset == -1

HasFs(s)  == s.role \notin {"none", "mbr"}
PartialSz(v, s) == v.partial /\ s.size = 0          \* VolumeStructure.hasPartialSize

-----------------------------------------------------------------------------
(* 1. setImplicitForVolume: yaml order; min-size defaults to size; an absent offset becomes the end of the
      previous structure when that end is known (previous offset known and size fixed), pushed to MinStart
      for the first non-MBR structure. `idx` remembers the yaml index (the code reorders afterwards). *)
RECURSIVE NormFrom(_, _, _, _)
NormFrom(v, k, prevEnd, acc) ==
    IF k > Len(v.structs) THEN acc
    ELSE LET s    == v.structs[k]
             min  == IF s.min = 0 THEN s.size ELSE s.min
             off  == IF s.off # Unset THEN s.off
                     ELSE IF prevEnd = Unset THEN Unset
                     ELSE IF s.role # "mbr" /\ prevEnd < MinStart THEN MinStart
                     ELSE prevEnd
             fixed == ~PartialSz(v, s) /\ s.size = min
             end  == IF off # Unset /\ fixed THEN off + s.size ELSE Unset
             n    == [off |-> off, size |-> s.size, min |-> min, role |-> s.role, ow |-> s.ow, owrel |-> s.owrel,
                      content |-> s.content, idx |-> k - 1, yoff |-> s.off]
         IN NormFrom(v, k + 1, end, Append(acc, n))

Norm(v) == NormFrom(v, 1, 0, << >>)

(* 2. orderStructuresByOffset: runs ("contiguous structs") start at every structure with a known offset;
      runs are sorted by that offset (insertion sort for < 12 elements: stable). *)
RECURSIVE RunsOf(_, _)
RunsOf(ss, acc) ==
    IF ss = << >> THEN acc
    ELSE IF Head(ss).off # Unset \/ acc = << >>
         THEN RunsOf(Tail(ss), Append(acc, << Head(ss) >>))
         ELSE RunsOf(Tail(ss), [acc EXCEPT ![Len(acc)] = Append(@, Head(ss))])

RECURSIVE InsertRun(_, _)
InsertRun(sorted, r) ==
    IF sorted = << >> THEN << r >>
    ELSE IF r[1].off < Head(sorted)[1].off THEN << r >> \o sorted
    ELSE << Head(sorted) >> \o InsertRun(Tail(sorted), r)

RECURSIVE SortRuns(_, _)
SortRuns(rs, acc) == IF rs = << >> THEN acc ELSE SortRuns(Tail(rs), InsertRun(acc, Head(rs)))

RECURSIVE Flatten(_)
Flatten(rs) == IF rs = << >> THEN << >> ELSE Head(rs) \o Flatten(Tail(rs))

Ordered(v) == Flatten(SortRuns(RunsOf(Norm(v), << >>), << >>))

-----------------------------------------------------------------------------
(* 3. validation (the checks that can reject a volume of this vocabulary) *)

\* validateVolumeStructure + validateRole
StructOK(v, s) ==
    /\ ~PartialSz(v, s) => s.size > 0 /\ s.min <= s.size
    /\ s.role = "mbr" => /\ s.size <= MbrMax
                         /\ s.off = Unset \/ s.off = 0

\* Volume.MinSize on the ordered structures
RECURSIVE MinEnd(_, _)
MinEnd(ss, endVol) ==
    IF ss = << >> THEN endVol
    ELSE MinEnd(Tail(ss), IF Head(ss).off # Unset THEN Head(ss).off + Head(ss).min ELSE endVol + Head(ss).min)

\* validateOffsetWrite
OwOK(s, first, volMin) ==
    s.ow # Unset =>
        IF s.owrel THEN /\ first.idx = 0                      \* relative-to names the first structure
                        /\ first.off = 0
                        /\ s.ow + PtrSize <= first.min
        ELSE s.ow + PtrSize <= volMin

\* validateCrossVolumeStructure
RECURSIVE CrossOK(_, _, _, _)
CrossOK(ss, prevEnd, first, volMin) ==
    IF ss = << >> THEN TRUE
    ELSE LET s == Head(ss) IN
         /\ s.role = "mbr" => s.off = 0
         /\ OwOK(s, first, volMin)
         /\ IF s.off # Unset
              THEN s.off >= prevEnd /\ CrossOK(Tail(ss), s.off + s.size, first, volMin)
              ELSE CrossOK(Tail(ss), prevEnd + s.size, first, volMin)

ValidOrdered(v, ss) ==
    /\ \A i \in 1..Len(ss) : StructOK(v, ss[i])
    /\ ss = << >> \/ CrossOK(ss, 0, ss[1], MinEnd(ss, 0))

Valid(v) == ValidOrdered(v, Ordered(v))

-----------------------------------------------------------------------------
(* 4. layout *)

\* layOutStructureContent for one bare structure placed at `start`
RECURSIVE ContentFrom(_, _, _, _, _)
ContentFrom(cs, k, prevEnd, start, acc) ==          \* -> sequence of [start, size, end (relative), ok]
    IF k > Len(cs) THEN acc
    ELSE LET c    == cs[k]
             rel  == IF c.off # Unset THEN c.off ELSE prevEnd
             sz   == IF c.decl # 0 THEN c.decl ELSE c.img
             ok   == c.decl = 0 \/ c.decl >= c.img
         IN ContentFrom(cs, k + 1, rel + sz, start,
                        Append(acc, [start |-> start + rel, size |-> sz, relend |-> rel + sz, ok |-> ok]))

ContentOf(s, start) == IF HasFs(s) THEN << >> ELSE ContentFrom(s.content, 1, 0, start, << >>)

\* the errors of layOutStructureContent: image larger than declared, content past the end of the structure,
\* two images overlapping
ContentOK(s, cl) ==
    /\ \A i \in 1..Len(cl) : cl[i].ok /\ cl[i].relend <= s.size
    /\ \A i, j \in 1..Len(cl) : i # j =>
          ~(cl[i].start < cl[j].start + cl[j].size /\ cl[j].start < cl[i].start + cl[i].size)
          \* the code sorts by start and demands next.start >= previous end: for non-empty images this is
          \* exactly pairwise disjointness (empty images are not produced by the check's generator)

\* OnDiskStructsFromGadget + LayoutVolume
RECURSIVE LayFrom(_, _, _)
LayFrom(ss, running, acc) ==
    IF ss = << >> THEN acc
    ELSE LET s     == Head(ss)
             start == IF s.off # Unset THEN s.off ELSE running
             cl    == ContentOf(s, start)
         IN LayFrom(Tail(ss), start + s.size,
                    Append(acc, [idx |-> s.idx, start |-> start, size |-> s.size,
                                 content |-> cl, cok |-> ContentOK(s, cl)]))

LayoutOrdered(ss) == LayFrom(ss, 0, << >>)
AllContentOK(L)   == \A i \in 1..Len(L) : L[i].cok

Layout(v)   == LayoutOrdered(Ordered(v))
LayoutOK(v) == AllContentOK(Layout(v))

\* everything at once (each part evaluated once): used by the enumeration and by TraceGadgetLayout
Eval(v) == LET ss == Ordered(v)
               L  == LayoutOrdered(ss)
               va == ValidOrdered(v, ss)
               lo == AllContentOK(L)
           IN [ordered |-> ss, layout |-> L, valid |-> va, layoutok |-> lo, accepted |-> va /\ lo]

-----------------------------------------------------------------------------
(* 5. the statement, on a layout *)
NonNegative(L) == \A i \in 1..Len(L) : L[i].start >= 0
Increasing(L)  == \A i, j \in 1..Len(L) : i < j => L[i].start <= L[j].start
Disjoint(L)    == \A i, j \in 1..Len(L) : i < j =>
                      ~(L[i].start < L[j].start + L[j].size /\ L[j].start < L[i].start + L[i].size)
ContentInside(L) == \A i \in 1..Len(L) : \A k \in 1..Len(L[i].content) :
                      /\ L[i].content[k].start >= L[i].start
                      /\ L[i].content[k].start + L[i].content[k].size <= L[i].start + L[i].size

Holds(L) == NonNegative(L) /\ Increasing(L) /\ Disjoint(L) /\ ContentInside(L)

Accepted(v) == Valid(v) /\ LayoutOK(v)

-----------------------------------------------------------------------------
(* Enumeration: volumes of at most MaxStructs structures over the configured value sets. *)
VARIABLES vol, accepted, lay
vars == <<vol, accepted, lay>>

StructDomain ==
    [off : OffVals, size : SizeVals, min : MinVals, role : RoleVals, ow : OwVals, owrel : {FALSE},
     content : ContentVals]
    \cup [off : OffVals, size : SizeVals, min : MinVals, role : RoleVals, ow : OwVals \ {Unset}, owrel : {TRUE},
          content : ContentVals]

\* content value sets for the cfgs (a cfg cannot spell records)
Img(o, i, d) == [off |-> o, img |-> i, decl |-> d]
ContentNone  == { << >> }
ContentSmall == { << >>,
                  << Img(Unset, 1, 0) >>, << Img(Unset, 2, 0) >>, << Img(1, 1, 0) >>, << Img(0, 1, 2) >>,
                  << Img(Unset, 2, 1) >>,                                      \* image larger than declared
                  << Img(Unset, 1, 0), Img(Unset, 1, 0) >>,                    \* back to back
                  << Img(1, 1, 0), Img(0, 1, 0) >>,                            \* out of order, disjoint
                  << Img(0, 2, 0), Img(1, 1, 0) >>,                            \* overlapping
                  << Img(2, 1, 0), Img(Unset, 1, 0) >> }                       \* implicit after explicit

\* numeric value sets for the cfgs (a cfg cannot spell -1)
OffGeo    == {Unset, 0, 1, 2, 3, 5}
OffMid    == {Unset, 0, 2, 3, 4}
OffSmall  == {Unset, 0, 2, 3}
OffTiny   == {Unset, 0, 2}
OwNone    == {Unset}
OwSmall   == {Unset, 0, 1, 4}

Init == /\ \E p \in PartialVals : vol = [partial |-> p, structs |-> << >>]
        /\ accepted = FALSE
        /\ lay = << >>

Extend(s) == [vol EXCEPT !.structs = Append(@, s)]

CanExtend == /\ Len(vol.structs) < MaxStructs
             /\ ~(Prune /\ ~accepted /\ vol.structs # << >>)    \* (written without \/: TLC would split the action)

\* two actions only so that -coverage counts how many enumerated volumes are accepted / rejected
AddAccepted == /\ CanExtend
               /\ \E s \in StructDomain : LET e == Eval(Extend(s)) IN
                                          /\ e.accepted
                                          /\ vol' = Extend(s)
                                          /\ lay' = e.layout
               /\ accepted' = TRUE
AddRejected == /\ CanExtend
               /\ \E s \in StructDomain : /\ ~Eval(Extend(s)).accepted
                                          /\ vol' = Extend(s)
               /\ accepted' = FALSE
               /\ lay' = << >>

Next == AddAccepted \/ AddRejected
Spec == Init /\ [][Next]_vars

InvNonNegative   == accepted => NonNegative(lay)
InvIncreasing    == accepted => Increasing(lay)
InvDisjoint      == accepted => Disjoint(lay)
InvContentInside == accepted => ContentInside(lay)

\* rejection is prefix-closed (without offset-write): justifies Prune
PrefixClosed == [][accepted' => (accepted \/ vol.structs = << >>)]_vars

\* model sanity: ordering keeps every structure exactly once
InvOrderIsPermutation ==
    LET ss == Ordered(vol) IN
    /\ Len(ss) = Len(vol.structs)
    /\ \A k \in 0..(Len(vol.structs) - 1) : \E i \in 1..Len(ss) : ss[i].idx = k
=============================================================================
