------------------------- MODULE AssertCodecObs -------------------------
(* C20, I->T for the stream decoder limits: the real outcomes recorded with NewDecoderStressed are
   checked against LimitExpect of AssertCodec. *)
EXTENDS AssertCodec, Json, IOUtils

Obs == ndJsonDeserialize(IOEnv.VERIF_OBS)

ASSUME \A i \in DOMAIN Obs :
          LimitExpect(Obs[i].h, Obs[i].b, Obs[i].s, Obs[i].maxh, Obs[i].maxb, Obs[i].maxs) = "reject" => Obs[i].out # "ok"

VARIABLE y
Init == y = 0
Next == UNCHANGED y
=============================================================================
