\* C26 codec, quick (root module: ApiAccessCodecTable)
CONSTANTS
  MaxAttach = 2
SPECIFICATION Spec
INVARIANTS
  InvRoundTrip
  InvNeverAuthorised
  InvCredsStable
  InvIfaces
  InvFailClosed
CHECK_DEADLOCK FALSE
