\* C38 thorough: geometry, <= 4 structures
CONSTANTS
  MinStart = 2
  MbrMax = 1
  PtrSize = 1
  MaxStructs = 4
  OffVals <- OffGeo
  SizeVals = {0, 1, 2, 3}
  MinVals = {0, 1, 2}
  RoleVals = {"none", "mbr", "system-data"}
  OwVals <- OwNone
  ContentVals <- ContentNone
  PartialVals = {FALSE, TRUE}
  Prune = TRUE
INIT Init
NEXT Next
CHECK_DEADLOCK FALSE
INVARIANTS
  InvNonNegative
  InvIncreasing
  InvDisjoint
  InvContentInside
  InvOrderIsPermutation
