\* C09 focus, quick: every Prune parameter combination from every reachable state of <=3 changes / <=3 tasks
SPECIFICATION Spec
CONSTANTS
  H = 6
  TU = 100
  NoticeExpire = 3
  WarnExpire = 4
  Keys = {"k1"}
  OPS = {"Tick", "NewChange", "NewTask", "AddTask", "SetStatus", "ChangeData", "Register", "Prune"}
  ClockVals = {3, 5}
  StartVals = {0, 400}
  WaitVals = {2, 4}
  MaxVals = {0, 1, 2}
  StatusVals = {"Doing", "Done"}
  MaxChanges = 3
  MaxTasks = 2
  MaxLanes = 0
  Vals = {"true"}
  MaxDepth = 7
  MaxOcc = 4
  PruneTerminal = TRUE
  Clk0 = 1
CONSTRAINT Bound
INVARIANTS FreshIds CountersCoverIds
PROPERTIES CountersMonotone NeverRemovesUnfinished RemovedOnlyIfDue OldestFirst PruneExact
           TasksGoWithChange AbortNotBeforeAbortWait AbortWhenDue ExpiredVanish
CHECK_DEADLOCK FALSE
