---------------------------- MODULE DebVersionTable ----------------------------
(* C33 T->I: tabulate the reference over rows VERIF_LO..VERIF_HI of Dom x Dom into IOEnv.VERIF_OUT. *)
EXTENDS DebVersion
TInit == x = 1
ASSUME WriteTable
=============================================================================
