--------------------------- MODULE AssertCheck ---------------------------
(* C18 -- only correctly signed, currently valid assertions are accepted.

   Explicit decision model of asserts.Database.Check (asserts/database.go) with the default
   checkers, in the code's order:
       supported format
    -> findAccountKey(authority-id, sign-key-sha3-384): lookup by KEY ID, then account match
    -> CheckSigningKeyIsNotExpired   (isValidAssumingCurTimeWithin(earliest, latest))
    -> CheckSignature                (authority = key account, canSign constraints, signature)
    -> CheckTimestampVsSigningKeyValidity (isValidAt(timestamp) for timestamped types)
   and the separate branch for no-authority (self-signed, customSigner) types.

   Cryptography is abstracted: a signature is a pair <<key id, content tag>>; it verifies under
   key k for content tag c iff it is intact and equals <<k, c>>.  Unforgeability of RSA/SHA is NOT
   modelled or claimed.

   A state is one ROW of the decision table: a candidate assertion in an environment (account-key
   situation of the key named in the assertion, clock, timestamp, mutation applied to the encoded
   bytes after signing).  TLC enumerates all rows as initial states and checks the properties as
   invariants; module AssertCheckTable exports the same table for the binding, which materialises
   every row with real RSA keys / account-key assertions / signed assertions (harness/overlay/
   asserts/zz_verif_assertcheck_test.go) and compares the real Decode+Check+Add verdicts. *)
EXTENDS Integers, FiniteSets, TLC

CONSTANTS Since,    \* account-key "since" of the key under test (abstract day number)
          Until,    \* its "until" when it has one (validity is [Since, Until) )
          Times     \* clock / timestamp values tried: before Since, = Since, inside, = Until, after

Inf == 1000000      \* "no until"
NoTs == 0

KeyWhere == {"trusted", "stored", "unknown"}
KeyOwner == {"auth", "other"}                 \* account-id of the account-key; the assertion declares "auth"
KeyCons  == {"none", "match", "nomatch-type", "nomatch-header"}
Classes  == {"plain", "timestamped", "noauth"}
ContentMutations == {"hdr-byte", "body-byte", "signkey-swap", "authority-swap"}
SigMutations     == {"sig-byte", "sig-alias", "wrong-signer"}
    \* sig-alias: the decoded signature bytes are changed in a field that does not carry signature
    \* material (OpenPGP packet length octet, MPI bit-count) -- still "changing the decoded signature"
Mutations == {"none", "sig-reencode"} \cup ContentMutations \cup SigMutations

KeyCfgs == [where : {"trusted", "stored"}, owner : KeyOwner, until : {Until, Inf}, cons : KeyCons]
           \cup {[where |-> "unknown", owner |-> "auth", until |-> Inf, cons |-> "none"]}
DefaultKey == [where |-> "stored", owner |-> "auth", until |-> Inf, cons |-> "none"]

WellFormed(r) ==
    /\ (r.cls = "timestamped") = (r.ts # NoTs)
    /\ r.cls = "noauth" => (r.key = DefaultKey /\ r.mode = "now" /\ r.clock = Since
                            /\ r.mut \notin {"signkey-swap", "authority-swap"})
Rows == {r \in [key : KeyCfgs, mode : {"now", "earliest"}, clock : Times, cls : Classes,
                ts : Times \cup {NoTs}, fmtOK : BOOLEAN, mut : Mutations] : WellFormed(r)}

----------------------------------------------------------------------------
(* the candidate assertion after the mutation, abstractly *)
HdrKey(r)    == IF r.mut = "signkey-swap" THEN "K2" ELSE "K"          \* sign-key-sha3-384 header
Authority(r) == IF r.mut = "authority-swap" THEN "other" ELSE "auth"  \* authority-id header
ContentTag(r) == IF r.mut \in ContentMutations THEN "c1" ELSE "c0"    \* tag of the bytes presented
Sig(r) == CASE r.mut \in {"sig-byte", "sig-alias"} -> <<"garbage", "garbage">>   \* undecodable or altered
            [] r.mut = "wrong-signer" -> <<"K2", "c0">>               \* made by another valid key of "auth"
            [] OTHER -> <<"K", "c0">>                                  \* made by K over the original bytes
Verifies(sig, k, tag) == sig[1] = k /\ sig[2] = tag

(* the account-key the database holds for a key id: K is the key under test, K2 a second,
   always valid, unconstrained key of "auth" *)
KeyOf(r, kid) == IF kid = "K" THEN r.key ELSE DefaultKey

ValidAt(key, t) == Since <= t /\ t < key.until
(* isValidAssumingCurTimeWithin: mode "now": earliest = latest = clock; mode "earliest": only a lower
   bound E = clock on the current time is known: valid iff some t >= E is inside the validity *)
ValidNow(key, mode, clock) ==
    IF mode = "now" THEN ValidAt(key, clock)
    ELSE \E t \in {clock, Since, Inf - 1} : t >= clock /\ ValidAt(key, t)
ConsAdmit(key) == key.cons \in {"none", "match"}

Check(r) ==
    IF ~r.fmtOK THEN "reject:format"
    ELSE IF r.cls = "noauth"
        THEN (IF Verifies(Sig(r), "K", ContentTag(r)) THEN "accept" ELSE "reject:signature")  \* embedded key K
    ELSE LET key == KeyOf(r, HdrKey(r))
         IN IF key.where = "unknown" THEN "reject:nokey"
            ELSE IF key.owner # Authority(r) THEN "reject:owner"
            ELSE IF ~ValidNow(key, r.mode, r.clock) THEN "reject:expired"
            ELSE IF ~ConsAdmit(key) THEN "reject:constraints"
            ELSE IF ~Verifies(Sig(r), HdrKey(r), ContentTag(r)) THEN "reject:signature"
            ELSE IF r.cls = "timestamped" /\ ~ValidAt(key, r.ts) THEN "reject:timestamp"
            ELSE "accept"

----------------------------------------------------------------------------
VARIABLES row, verdict
vars == <<row, verdict>>
Init == row \in Rows /\ verdict = Check(row)
Next == UNCHANGED vars
Spec == Init /\ [][Next]_vars

(* The four conditions of the statement, stated declaratively (not in the code's order). *)
C1_KeyOfAuthority(r) == LET key == KeyOf(r, HdrKey(r))
                        IN key.where # "unknown" /\ key.owner = Authority(r) /\ Sig(r)[1] = HdrKey(r)
C2_KeyValid(r) == LET key == KeyOf(r, HdrKey(r))
                  IN /\ ValidNow(key, r.mode, r.clock)
                     /\ (r.cls = "timestamped" => ValidAt(key, r.ts))
C3_Constraints(r) == ConsAdmit(KeyOf(r, HdrKey(r)))
C4_ExactBytes(r) == Sig(r)[2] = ContentTag(r)

AcceptSound ==
    verdict = "accept" =>
        /\ row.fmtOK
        /\ C4_ExactBytes(row)
        /\ (row.cls # "noauth" => (C1_KeyOfAuthority(row) /\ C2_KeyValid(row) /\ C3_Constraints(row)))
        /\ (row.cls = "noauth" => Sig(row)[1] = "K")

(* changing any byte of the signed content, or the decoded signature, makes it rejected *)
MutationRejected ==
    row.mut \in (ContentMutations \cup SigMutations) => verdict # "accept"

(* an expired / not-yet-valid key never passes with a known clock *)
ExpiredRejected ==
    (row.cls # "noauth" /\ row.mode = "now" /\ HdrKey(row) = "K" /\ ~ValidAt(row.key, row.clock)) => verdict # "accept"

(* a different base64 layout of the SAME decoded signature does not change the verdict *)
ReencodeNeutral == row.mut = "sig-reencode" => verdict = Check([row EXCEPT !.mut = "none"])

(* vacuity: the table has accepting rows of every class (ASSUMEd in AssertCheckTable) *)
SomeAccept == \A c \in Classes : \E r \in Rows : r.cls = c /\ Check(r) = "accept"
=============================================================================
