\* thorough exhaustive: every single rule shape x access and every interacting pair of shapes x accesses (~170 views;
\* nested shape = 2 rules) x 2 transactions x (Begin + <=2 requests/commits each), every interleaving
INIT Init
NEXT Next
CONSTANTS
  t1 = t1
  t2 = t2
  Txns = {t1, t2}
  PH = {"{k}"}
  Views <- Views2
  SetMenu <- SetQuick
  UnsetMenu <- UnsetQuick
  GetMenu <- GetQuick
  ChkPaths <- StorPaths
  MaxOps = 2
SYMMETRY TxnSym
VIEW mcview
INVARIANTS AccessRespected ReadAfterWrite TxnOrder RejectedInv TypeOK
PROPERTIES RejectedChangesNothing Isolation
CHECK_DEADLOCK FALSE
