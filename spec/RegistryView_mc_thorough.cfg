\* thorough exhaustive: every valid view of <= 2 rule shapes x accesses (nested shape counts as one) x 2 transactions x
\* (Begin + <=2 requests/commits each), quick menus
INIT Init
NEXT Next
CONSTANTS
  t1 = t1
  t2 = t2
  Txns = {t1, t2}
  PH = {"{k}"}
  Views <- Views2
  SetMenu <- SetQuick
  UnsetMenu <- UnsetQuick
  GetMenu <- GetQuick
  ChkPaths <- StorPaths
  MaxOps = 2
SYMMETRY TxnSym
VIEW mcview
INVARIANTS AccessRespected ReadAfterWrite TxnOrder RejectedInv TypeOK
PROPERTIES RejectedChangesNothing Isolation
CHECK_DEADLOCK FALSE
