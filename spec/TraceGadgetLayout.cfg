\* C38 table evaluation at the real constants (bytes)
CONSTANTS
  MinStart = 1048576
  MbrMax = 446
  PtrSize = 4
  MaxStructs = 0
  OffVals = {}
  SizeVals = {}
  MinVals = {}
  RoleVals = {}
  OwVals = {}
  ContentVals = {}
  PartialVals = {}
  Prune = FALSE
INIT TInit
NEXT TNext
CHECK_DEADLOCK FALSE
