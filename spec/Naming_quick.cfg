\* C24 quick: plain strings <= 4 chars over 8 letters; RLE strings <= 2 runs; reduced tag parts
INIT TInit
NEXT TNext
CONSTANTS
  PlainAlpha = {"a", "0", "-", "_", ".", "+", "A", "!"}
  PlainMax = 4
  RleAlpha = {"a", "0", "-", "_", "+", "A", "!", "."}
  RleLens = {1, 2, 9, 10, 11, 39, 40, 41}
  RleMaxRuns = 2
  TagLevel = 1
CHECK_DEADLOCK FALSE
