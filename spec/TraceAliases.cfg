\* trace validation: every E02 invariant is evaluated on the real states (RAAUX = FALSE)
CONSTANTS
  Snaps <- MCSnaps
  Names <- MCNames3
  Apps <- MCApps
  AutoApps <- MCAuto2
  OpKinds <- MCAllKinds
  InstallFlags <- MCFlags
  FaultModes <- MCFaults
  InitInst <- MCNone
  RAAUX = FALSE
  MaxOps = 0
INIT TInit
NEXT TNext
CHECK_DEADLOCK FALSE
INVARIANTS TypeOK SysMatchesState NoPendingWhenSettled NoDoubleAlias NoNamespaceClash RefreshKeepsManualFollowsDecl FailedChangeRestores
POSTCONDITION Accepted
