SPECIFICATION Spec
CONSTANTS
    MaxRev = 3
    MaxOps = 5
    InstallRevs <- Rev1
    AttrOpts <- AttrPlain
    RetainOpts <- RetNone
    CfgOpts <- Cfg0
    OnClassicOpts <- BoolF
    BootOpts <- BootNone
    KernelOpts <- BoolF
    OpFaults = FALSE
INVARIANTS
    TypeOK
    C12_Retain
CONSTRAINT StateConstraint
CHECK_DEADLOCK FALSE
