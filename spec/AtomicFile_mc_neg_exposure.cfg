\* spec-level negative control: NoEarlyExposure alone rejects the broken variants, 0..3 chunks, with and without an old file, crash at every prefix
SPECIFICATION WriterSpec
CONSTANTS
  MaxChunks = 3
  Variants = {"nosync", "rename_first", "wrongfd"}
  AnyNames = {"target", "tmp"}
  AnyFileFds = {1}
  AnyDirFds = {2}
  AnyChunks = 2
  AnyMaxInodes = 3
  AnyMaxHist = 4
  AnyMaxLen = 2
  AnyMaxSteps = 8
INVARIANTS TypeOK NoEarlyExposure
CHECK_DEADLOCK FALSE
