---------------------------- MODULE TraceSnapctl ----------------------------
(* I->T for C25: observations of the real ctlcmd.Run on seeded random argument vectors BEYOND the      *)
(* exhaustive bound (one NDJSON line per invocation: abstract argv, signature of the real command it    *)
(* was instantiated for, uid class, real outcome).  A line is accepted iff the real outcome equals      *)
(* Outcome(uid, sig, argv) of Snapctl.tla; the invariants of the spec are evaluated on every line.      *)
EXTENDS Snapctl

Trace == ndJsonDeserialize(IOEnv.VERIF_TRACE)

VARIABLE l
tvars == <<l, uid, sig, argv>>

TInit == /\ l = 1 /\ uid = "root" /\ argv = <<>>
         /\ sig = [cls |-> "A", min |-> 0, sub |-> FALSE, hasB |-> FALSE, hasV |-> FALSE]

TRun == /\ l <= Len(Trace)
        /\ Trace[l].ev = "Run"
        /\ uid' = Trace[l].uid
        /\ sig' = SigOfJson(Trace[l].sig)
        /\ argv' = Trace[l].argv
        /\ Outcome(uid', sig', argv') = Trace[l].out
        /\ l' = l + 1

TNext == TRun
TSpec == TInit /\ [][TNext]_tvars

Accepted == TLCGet("stats").diameter - 1 = Len(Trace)
=============================================================================
