\* tiny config used by --selftest runs (mutation testing exercises the conformance side; the design side does not depend on the tree)
CONSTANTS
  Snaps <- MCSnaps
  Names <- MCNames2
  Apps <- MCApps
  AutoApps <- MCAuto1
  OpKinds <- MCKindsTiny
  InstallFlags <- MCFlags
  FaultModes <- MCFaultsAtomic
  InitInst <- MCBoth
  RAAUX = FALSE
  LateRemoveFaults = FALSE
  MaxOps = 1
INIT Init
NEXT Next
CHECK_DEADLOCK FALSE
INVARIANTS TypeOK SysMatchesState NoPendingWhenSettled NoDoubleAlias NoNamespaceClash RefreshKeepsManualFollowsDecl FailedChangeRestores
