\* C34 laws on the reference. Domain: component sequences of length 1..VERIF_MAXCOMPS (default 4) over
\* {"", latest, stable, edge, t1, 2.0, b1}: 2800 channel strings; requests/current <= 3 components, pinned <= 2.
INIT Init
NEXT Next
CHECK_DEADLOCK FALSE
INVARIANT ParsePrintStable
INVARIANT FullNamesTrackAndRisk
INVARIANT RiskOnlyKeepsTrack
INVARIANT PinnedStaysOrRefuses
INVARIANT ResolveIdentity
