\* thorough exhaustive config: 3 snaps, 2 gaters, all boundary ticks
CONSTANTS
  Snaps <- MCSnaps3
  Gaters <- MCGaters
  HoldSets <- MCHoldSets
  Ticks <- MCTicks
  SysDurs <- MCSysDurs3
  ExplicitDurs <- MCNoDurs
  MaxSteps = 6
INIT Init
NEXT Next
CHECK_DEADLOCK FALSE
INVARIANTS TypeOK OtherBound GlobalBound UntilBound RefusedAtBound SystemSurvivesRefresh SystemLasts
