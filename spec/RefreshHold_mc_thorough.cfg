\* thorough exhaustive config A: 2 snaps (both gate), all boundary ticks, 3 system durations, 5 steps
CONSTANTS
  Snaps <- MCSnaps2
  Gaters <- MCGaters
  HoldSets <- MCHoldSetsQ
  Ticks <- MCTicks
  SysDurs <- MCSysDurs3
  ExplicitDurs <- MCNoDurs
  MaxSteps = 5
INIT Init
NEXT Next
CHECK_DEADLOCK FALSE
INVARIANTS TypeOK OtherBound GlobalBound UntilBound RefusedAtBound SystemSurvivesRefresh SystemLasts
