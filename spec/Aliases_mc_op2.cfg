\* EXPECTED TO FAIL (finding F1): the second backend alias operation of prefer-aliases fails after the first one (disabling the other snap's aliases on disk) was performed; nothing undoes it
CONSTANTS
  Snaps <- MCSnaps
  Names <- MCNames2
  Apps <- MCApps
  AutoApps <- MCAuto1
  OpKinds <- MCKindsOp2
  InstallFlags <- MCFlagsPrefer
  FaultModes <- MCFaultsOp2
  InitInst <- MCOne
  RAAUX = FALSE
  LateRemoveFaults = FALSE
  MaxOps = 2
INIT Init
NEXT Next
CHECK_DEADLOCK FALSE
INVARIANTS FailedChangeRestores SysMatchesState
