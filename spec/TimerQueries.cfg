INIT Init
NEXT Next
