\* thorough exhaustive config: snaps a, b (+ snapd), at most 3 changes, with partial progress of in-progress changes
CONSTANTS
  Snaps <- MCSnaps2
  MaxChanges = 3
  ACfgs <- MCACfgs
  WithPartial = TRUE
INIT Init
NEXT Next
CHECK_DEADLOCK FALSE
INVARIANTS RejectIfBusy NoStartDuringExclusive StaleRejected RejectCreatesNothing NoOverlap ExclusiveLast
