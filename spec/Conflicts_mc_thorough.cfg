\* thorough exhaustive config: snaps a, b, c (+ snapd), at most 4 changes (<= 3 live is implied by NoOverlap
\* for ordinary kinds; injected kinds and ready changes take the remaining slots)
CONSTANTS
  Snaps <- MCSnaps3
  MaxChanges = 4
INIT Init
NEXT Next
CHECK_DEADLOCK FALSE
INVARIANTS RejectIfBusy NoStartDuringExclusive StaleRejected RejectCreatesNothing NoOverlap ExclusiveLast
