\* thorough exhaustive config: snaps a, b, c (+ snapd), at most 3 changes
CONSTANTS
  Snaps <- MCSnaps3
  MaxChanges = 3
INIT Init
NEXT Next
CHECK_DEADLOCK FALSE
INVARIANTS RejectIfBusy NoStartDuringExclusive StaleRejected RejectCreatesNothing NoOverlap ExclusiveLast
