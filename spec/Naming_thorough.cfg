\* C24 thorough: plain strings <= 5 chars over 8 letters; RLE strings <= 3 runs
INIT TInit
NEXT TNext
CONSTANTS
  PlainAlpha = {"a", "0", "-", "_", ".", "+", "A", "!"}
  PlainMax = 5
  RleAlpha = {"a", "0", "-", "_", "+", "A", "!", "."}
  RleLens = {1, 2, 10, 11, 40, 41}
  RleMaxRuns = 3
  TagLevel = 2
CHECK_DEADLOCK FALSE
