\* thorough: memory + CPU + cpu-set jointly, 3 groups, depth 3
SPECIFICATION Spec
CONSTANTS
  MaxGroups = 3
  MaxDepth = 3
  MaxRoots = 1
  NCPU = 2
  MemVals = {2}
  ThrVals = {}
  CpuCounts = {0, 1}
  CpuPcts = {100}
  Cores = {c0, c1}
  OtherVals = {TRUE}
  Paths = {"direct", "merged"}
VIEW View
SYMMETRY CoreSym
INVARIANTS TypeOK InvMem InvThr InvSet InvFitsOrNamed
CHECK_DEADLOCK FALSE
