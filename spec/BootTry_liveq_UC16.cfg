\* liveness: with at most 2 power losses / failed boots the device keeps coming back to a running known-good
\* combination (or sits in the one excused halt); fairness on the boot pipeline and on snapd finishing what it started
CONSTANTS
  Variant = "UC16"
  KRevs = {1, 2}
  BRevs = {1}
  MaxCK = 3
  MaxFaults = 2
  ExcuseKnown = TRUE
SPECIFICATION LiveSpec
INVARIANTS TypeOK NeverStuck
PROPERTIES ComesBack
CHECK_DEADLOCK FALSE
