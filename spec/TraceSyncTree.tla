----------------------------- MODULE TraceSyncTree -----------------------------
(***************************************************************************)
(* C23 binding, tree variant.  IOEnv.VERIF_TRACE: one JSON object per case *)
(* executed on the real osutil.EnsureTreeState; keys are "<dir>/<name>"    *)
(* (entry tokens) and "<dir>/" ("dir"|"nodir" in init and outcome,         *)
(* "listed"|"absent" in des: whether the directory is a key of content).   *)
(* Per distinct real outcome: membership in TreeOutcomes (every order of   *)
(* every map iteration), TreePostOK on the REAL outcome, and the reported- *)
(* only predicate UnrelatedDirRemoved.                                     *)
(***************************************************************************)
EXTENDS SyncTree, IOUtils, Json

ToSetT(q) == {q[i] : i \in DOMAIN q}
Key(d, n) == d \o "/" \o n
TreeOf(r) == [d \in Dirs |-> IF r[Key(d, "")] = "nodir" THEN NoDir ELSE [n \in Names |-> r[Key(d, n)]]]
ConOf(r) == [d \in {x \in Dirs : r[Key(x, "")] = "listed"} |->
                [n \in {x \in Managed : r[Key(d, x)] # "absent"} |-> r[Key(d, n)]]]
PairsOf(q) == {p \in Dirs \X Names : Key(p[1], p[2]) \in ToSetT(q)}
TOutOf(o) == [tree |-> TreeOf(o.dir), changed |-> PairsOf(o.changed), removed |-> PairsOf(o.removed), err |-> o.err]
ListsOK(o) == Cardinality(PairsOf(o.changed)) = Len(o.changed) /\ Cardinality(PairsOf(o.removed)) = Len(o.removed)

TVerdict(o) ==
    LET tree == TreeOf(o.init)
        con  == ConOf(o.des)
        adm  == TreeOutcomes(tree, con)
    IN [case   |-> o.case,
        nadm   |-> Cardinality(adm),
        wfail  |-> TreeWriteFails(tree, con),
        member |-> [k \in DOMAIN o.outs |-> ListsOK(o.outs[k]) /\ TOutOf(o.outs[k]) \in adm],
        post   |-> [k \in DOMAIN o.outs |-> ListsOK(o.outs[k]) /\ TreePostOK(tree, con, TOutOf(o.outs[k]))],
        dirgone |-> [k \in DOMAIN o.outs |-> UnrelatedDirRemoved(tree, con, TOutOf(o.outs[k]))]]

TTable(obs) == [i \in DOMAIN obs |-> TVerdict(obs[i])]
TTInit == s = "table" /\ ts = "table" /\ JsonSerialize(IOEnv.VERIF_OUT, TTable(ndJsonDeserialize(IOEnv.VERIF_TRACE)))
TTNext == UNCHANGED <<s, ts>>
=============================================================================
