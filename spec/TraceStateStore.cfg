SPECIFICATION TSpec
CONSTANTS
  H = 1000
  TU = 1000
  NoticeExpire = 168
  WarnExpire = 672
  Keys = {"k1", "k2", "k3"}
  Clk0 = 900
  OPS = {}
  ClockVals = {}
  StartVals = {}
  WaitVals = {}
  MaxVals = {}
  StatusVals = {}
  MaxChanges = 0
  MaxTasks = 0
  MaxLanes = 0
  Vals = {}
  MaxDepth = 0
  MaxOcc = 0
  PruneTerminal = FALSE
INVARIANTS FreshIds CountersCoverIds
PROPERTIES CountersMonotone ReloadIdentity NeverRemovesUnfinished RemovedOnlyIfDue OldestFirst PruneExact
           TasksGoWithChange AbortNotBeforeAbortWait AbortWhenDue ExpiredVanish
POSTCONDITION Accepted
CHECK_DEADLOCK FALSE
