\* thorough generator alphabet
INIT Init
NEXT Next
CONSTANTS
  Scalars <- ScalarsT
  SmallScalars <- SmallT
  Bodies <- BodiesDef
  Revisions <- RevisionsDef
CHECK_DEADLOCK FALSE
