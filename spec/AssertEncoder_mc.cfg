SPECIFICATION Spec
CONSTANTS
  Apis = {"encode", "raw"}
  MaxElems = 4
INVARIANTS WellSeparated SepAlwaysDue
CHECK_DEADLOCK FALSE
