\* tiny config run with -coverage 1: vacuity guard (every action and every guard branch is exercised)
SPECIFICATION Spec
CONSTANTS
  MaxGroups = 2
  MaxDepth = 3
  MaxRoots = 1
  NCPU = 2
  MemVals = {1}
  ThrVals = {}
  CpuCounts = {0, 1}
  CpuPcts = {100}
  Cores = {0}
  OtherVals = {TRUE}
  Paths = {"direct", "merged"}
VIEW View
INVARIANTS TypeOK InvMem InvThr InvSet InvFitsOrNamed
CHECK_DEADLOCK FALSE
