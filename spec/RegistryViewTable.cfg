\* no behaviours: the ASSUME of RegistryViewTable writes the table when TLC starts
INIT Init
NEXT TableNext
CONSTANTS
  t1 = t1
  t2 = t2
  Txns = {t1, t2}
  PH = {"{k}"}
  Views <- ViewsQuick
  SetMenu <- SetQuick
  UnsetMenu <- UnsetQuick
  GetMenu <- GetQuick
  ChkPaths <- StorPaths
  MaxOps = 1
CHECK_DEADLOCK FALSE
