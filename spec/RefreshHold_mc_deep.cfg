\* thorough exhaustive config C: 2 snaps (both gate), boundary ticks {1,47,49,91d}, 6 steps
CONSTANTS
  Snaps <- MCSnaps2
  Gaters <- MCGaters
  HoldSets <- MCHoldSetsQ
  Ticks <- MCTicksQ
  SysDurs <- MCSysDurs
  ExplicitDurs <- MCNoDurs
  MaxSteps = 6
INIT Init
NEXT Next
CHECK_DEADLOCK FALSE
INVARIANTS TypeOK OtherBound GlobalBound UntilBound RefusedAtBound SystemSurvivesRefresh SystemLasts
