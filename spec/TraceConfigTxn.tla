--------------------------- MODULE TraceConfigTxn ---------------------------
(* I->T binding for C29: every line of the NDJSON file written by
   harness/ext/configtxn (real config.Transaction / SaveRevisionConfig ... on a real
   state.State) must be a step of ConfigTxn with the SAME result and the SAME
   observable state: committed "config", "revision-config" and the root document
   (Get(snap, "")) of every open transaction for every snap, all read back from
   the real objects after every operation.  The invariants / action property of
   ConfigTxn are evaluated on those (matched) states. *)
EXTENDS ConfigTxn, IOUtils, Json

Trace == ndJsonDeserialize(IOEnv.VERIF_TRACE)
VARIABLE l

TKeys == {"a", "b", "c"}
TracePaths == {<<>>} \cup {<<x>> : x \in TKeys} \cup {<<x, y>> : x \in TKeys, y \in TKeys}
              \cup {<<x, y, z>> : x \in TKeys, y \in TKeys, z \in TKeys}

RECURSIVE FromJ(_)
FromJ(j) == IF j.t = "l" THEN Lf(j.v)
            ELSE LET n == Len(j.m) IN
                 Mp([k \in {j.m[i].k : i \in 1..n} |-> FromJ(j.m[CHOOSE i \in 1..n : j.m[i].k = k].v)])
FromR(r) == IF r.k = "val" THEN Val(FromJ(r.v)) ELSE [k |-> r.k]

LCommitted(st) == [s \in Snaps |->
    IF \E i \in 1..Len(st.committed) : st.committed[i].snap = s
    THEN FromJ(st.committed[CHOOSE i \in 1..Len(st.committed) : st.committed[i].snap = s].v)
    ELSE Absent]
LRev(st) == [s \in Snaps |-> [r \in Revs |->
    IF \E i \in 1..Len(st.revcfg) : st.revcfg[i].snap = s /\ st.revcfg[i].rev = r
    THEN FromJ(st.revcfg[CHOOSE i \in 1..Len(st.revcfg) : st.revcfg[i].snap = s /\ st.revcfg[i].rev = r].v)
    ELSE Absent]]
LViews(st) == [t \in Txns |-> [s \in Snaps |->
    IF \E i \in 1..Len(st.views) : st.views[i].t = t /\ st.views[i].snap = s
    THEN FromR(st.views[CHOOSE i \in 1..Len(st.views) : st.views[i].t = t /\ st.views[i].snap = s].r)
    ELSE Absent]]
\* every logged entry concerns a known snap / revision / transaction (nothing is silently ignored)
LKnown(st) == /\ \A i \in 1..Len(st.committed) : st.committed[i].snap \in Snaps
              /\ \A i \in 1..Len(st.revcfg) : st.revcfg[i].snap \in Snaps /\ st.revcfg[i].rev \in Revs
              /\ \A i \in 1..Len(st.views) : st.views[i].t \in Txns /\ st.views[i].snap \in Snaps

SpecViewsNext == [t \in Txns |-> [s \in Snaps |->
    IF open'[t] THEN Read(ViewOf(pristine'[t][s], writes'[t][s]), <<>>) ELSE Absent]]

Match == LET st == Trace[l].st IN
         /\ LKnown(st)
         /\ committed' = LCommitted(st)
         /\ revcfg' = LRev(st)
         /\ SpecViewsNext = LViews(st)

IsEv(e) == l <= Len(Trace) /\ Trace[l].ev = e /\ l' = l + 1

TReset == /\ IsEv("Reset")
          /\ committed' = [s \in Snaps |-> Absent]
          /\ revcfg' = [s \in Snaps |-> [r \in Revs |-> Absent]]
          /\ open' = [t \in Txns |-> FALSE]
          /\ pristine' = [t \in Txns |-> [s \in Snaps |-> Absent]]
          /\ writes' = [t \in Txns |-> [s \in Snaps |-> Nil]]
          /\ wlog' = [t \in Txns |-> <<>>]
          /\ saved' = [s \in Snaps |-> [r \in Revs |-> Absent]]
          /\ nops' = [t \in Txns |-> 0]
          /\ nrev' = 0
          /\ mon' = AllOk
          /\ last' = [op |-> "init"]
          /\ Match
TBegin == IsEv("Begin") /\ Begin(Trace[l].t) /\ Match
TSet == /\ IsEv("Set")
        /\ Set(Trace[l].t, Trace[l].snap, Trace[l].path, FromJ(Trace[l].val))
        /\ last'.res = Trace[l].res
        /\ Match
TGet == /\ IsEv("Get")
        /\ Get(Trace[l].t, Trace[l].snap, Trace[l].path)
        /\ last'.res = FromR(Trace[l].res)
        /\ Trace[l].maybe          \* GetMaybe agreed with Get on the real code
        /\ Match
TCommit == IsEv("Commit") /\ Commit(Trace[l].t) /\ Match
TSave == IsEv("Save") /\ SaveRev(Trace[l].snap, Trace[l].rev) /\ Match
TRestore == IsEv("Restore") /\ RestoreRev(Trace[l].snap, Trace[l].rev) /\ Match
TDiscard == IsEv("Discard") /\ DiscardRev(Trace[l].snap, Trace[l].rev) /\ Match

TInit == Init /\ l = 1
TNext == TReset \/ TBegin \/ TSet \/ TGet \/ TCommit \/ TSave \/ TRestore \/ TDiscard

\* Isolation on the real observations; a Reset line starts a fresh world and is not a spec step
TraceIsolation == [][(l <= Len(Trace) /\ Trace[l].ev = "Reset") \/ IsolationStep]_<<vars, l>>

Accepted == TLCGet("stats").diameter - 1 = Len(Trace)
=============================================================================
