\* generator for T->I replay (tlc -simulate): single-goroutine fragment, larger constants than the exhaustive slices
SPECIFICATION SpecPoll
CONSTANTS
  Users <- MCUsers
  Types <- MCTypes
  Keys <- MCKeys
  RepeatAfters = {0, 2, 5}
  Data = {"", "d1", "d2"}
  Clients <- MCClients
  CfgChoices <- MCCfgChoices
  ClockValues = {1, 3, 5, 7, 9, 11}
  MaxAdds = 12
  Bump = TRUE
  BroadcastRepeat = TRUE
  AddAtTimes = {}
  ClockRegress = TRUE
INVARIANTS
  TypeOK
  UniqueNotices
  ExactlyOnce
  InOrder
  NoPhantom
  Ownership
  RepeatAfterSuppression
  StrictTimes
CHECK_DEADLOCK FALSE
