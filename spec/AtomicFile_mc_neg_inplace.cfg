\* spec-level negative control: WriterSpec variant inplace, 0..3 chunks, with and without an old file, crash at every prefix
SPECIFICATION WriterSpec
CONSTANTS
  MaxChunks = 3
  Variants = {"inplace"}
  AnyNames = {"target", "tmp"}
  AnyFileFds = {1}
  AnyDirFds = {2}
  AnyChunks = 2
  AnyMaxInodes = 3
  AnyMaxHist = 4
  AnyMaxLen = 2
  AnyMaxSteps = 8
INVARIANTS TypeOK OldOrNew
CHECK_DEADLOCK FALSE
