\* random simulation (design beyond the exhaustive bound) and generator of T->I scripts
INIT Init
NEXT SimNext
CONSTANTS
  t1 = t1
  t2 = t2
  Txns = {1, 2, 3}
  Snaps = {"core", "app"}
  Revs = {1, 2}
  SetMenu <- MenuSim
  GetPaths <- PathsUpTo3
  ChkPaths <- PathsUpTo3
  MaxOps = 9
  MaxRevOps = 4
INVARIANTS ReadYourWrites ReadYourWritesPaths NoLostUpdate SnapshotExact NoNullsCommitted TypeOK
PROPERTY Isolation
CHECK_DEADLOCK FALSE
