--------------------------- MODULE TraceIfacePolicy ---------------------------
(***************************************************************************)
(* C21 binding module (T->I tables) for IfacePolicy.                       *)
(*                                                                         *)
(*  VERIF_DOMAIN_OUT=<file>  export the enumerated shapes (constraint      *)
(*      lists, rule tables, candidate dimensions and lookup tables) as     *)
(*      JSON: the harness and the Go driver take them from here, so the    *)
(*      TLA+ module is the only definition of the domain.                  *)
(*  VERIF_CANDS=<json array of candidate records>                          *)
(*  VERIF_ROWS=<ndjson>  one row per line:                                 *)
(*      {"id":n,"kind":k,"li":[i1,i2,i3,i4],"c":candidate index (1-based), *)
(*       "add":[] | [level, constraint index]}   (add = AddDeny on level)  *)
(*  VERIF_OUT=<file>     the decision table: per row the verdict of the    *)
(*      reference evaluator (ok / why / deciding level / arity "any") and  *)
(*      `inv`: PrecedenceAt /\ DenyOverAllowAt on that row.                *)
(***************************************************************************)
EXTENDS IfacePolicy, IOUtils, Json

Has(v) == v \in DOMAIN IOEnv

Domain ==
  [iface |-> IFACE,
   cons  |-> [plugConn |-> PlugConnCons, slotConn |-> SlotConnCons, plugInst |-> PlugInstCons, slotInst |-> SlotInstCons],
   rules |-> [plugConn |-> RulesPlugConn, slotConn |-> RulesSlotConn, plugInst |-> RulesPlugInst, slotInst |-> RulesSlotInst],
   nallow |-> [plugConn |-> NA("plugConn"), slotConn |-> NA("slotConn"), plugInst |-> NA("plugInst"), slotInst |-> NA("slotInst")],
   ndeny  |-> [plugConn |-> ND("plugConn"), slotConn |-> ND("slotConn"), plugInst |-> ND("plugInst"), slotInst |-> ND("slotInst")],
   few   |-> [plugConn |-> FewRules("plugConn"), slotConn |-> FewRules("slotConn"), plugInst |-> FewRules("plugInst"), slotInst |-> FewRules("slotInst")],
   sides |-> [k \in Kinds |-> [l \in 1..4 |-> SideOf(k, l)]],
   dims  |-> CandDims,
   candList |-> CandList,
   plugDecl |-> PlugDeclTab, slotDecl |-> SlotDeclTab, sys |-> SysTab, dev |-> DevTab]

ASSUME ExportDomain == Has("VERIF_DOMAIN_OUT") => JsonSerialize(IOEnv.VERIF_DOMAIN_OUT, Domain)

InDim(v, name) == \E i \in 1..Len(CandDims[name]) : CandDims[name][i] = v
CandOK(c) ==
  /\ InDim(c.plugName, "plugName") /\ InDim(c.slotName, "slotName")
  /\ InDim(c.plugAttrs.a, "plugA") /\ InDim(c.plugAttrs.b, "plugB")
  /\ InDim(c.slotAttrs.a, "slotA") /\ InDim(c.slotAttrs.b, "slotB")
  /\ InDim(c.plugType, "plugType") /\ InDim(c.slotType, "slotType")
  /\ InDim(c.plugDecl, "plugDecl") /\ InDim(c.slotDecl, "slotDecl")
  /\ InDim(c.sys, "sys") /\ InDim(c.dev, "dev")

RowOK(r, ncands) ==
  /\ r.kind \in Kinds
  /\ Len(r.li) = 4
  /\ \A l \in 1..4 : IF SideOf(r.kind, l) = "" THEN r.li[l] = 0 ELSE r.li[l] \in 0..Len(RulesOf(SideOf(r.kind, l)))
  /\ r.c \in 1..ncands
  /\ (Len(r.add) # 0 =>
        /\ r.li[r.add[1]] # 0
        /\ CanAddDeny(LvOf(r.kind, r.li)[r.add[1]])
        /\ r.add[2] \in 1..Len(ConsOf(SideOf(r.kind, r.add[1])))
        /\ ConsOf(SideOf(r.kind, r.add[1]))[r.add[2]].spp = "-")

RowLv(r) ==
  LET base == LvOf(r.kind, r.li) IN
  IF Len(r.add) = 0 THEN base
  ELSE [base EXCEPT ![r.add[1]] = AddDeny(base[r.add[1]], ConsOf(SideOf(r.kind, r.add[1]))[r.add[2]])]

Out(r, cand) ==
  LET lv == RowLv(r)
      d == Decide(r.kind, lv, cand)
      p == RowProps(r.kind, lv, cand)
  IN  [id |-> r.id, ok |-> d.ok, why |-> d.why, level |-> d.level, any |-> d.any, inv |-> p.prec /\ p.doa]

\* the input files are parsed once (operator arguments are evaluated once)
Tabulate(rows, cands) ==
  /\ \A i \in 1..Len(cands) : CandOK(cands[i])
  /\ \A i \in 1..Len(rows) : RowOK(rows[i], Len(cands))
  /\ JsonSerialize(IOEnv.VERIF_OUT, [i \in 1..Len(rows) |-> Out(rows[i], cands[rows[i].c])])

ASSUME WriteTable == Has("VERIF_OUT") => Tabulate(ndJsonDeserialize(IOEnv.VERIF_ROWS), JsonDeserialize(IOEnv.VERIF_CANDS))

TInit == kind = "connection" /\ li = <<0, 0, 0, 0>> /\ ci = 1
TNext == UNCHANGED vars
=============================================================================
