INIT Init
NEXT Next
CONSTANTS
  MaxTok = 4
CHECK_DEADLOCK FALSE
