------------------------- MODULE RestartBoundary -------------------------
(***************************************************************************)
(* E03 - snapd's restart manager on top of the task engine:                *)
(*   overlord/restart/restart.go  (Manager/init, StartUp, Request,         *)
(*   FinishTaskWithRestart, markTaskForRestart, MarkTaskAsRestartBoundary, *)
(*   TaskWaitForRestart, processRestartForChange)                          *)
(* layered on TaskEngine (overlord/state).                                 *)
(*                                                                         *)
(* TaskEngine threads a memory record m = [st, wd, rdy, pan] through each  *)
(* critical section.  The restart manager hangs off                        *)
(* Change.notifyStatusChange (the change-status-changed hook), which runs  *)
(* after EVERY single task status change; so the engine's section-level    *)
(* operators are re-stated here with the hook applied after each task      *)
(* status change (R-prefixed operators: same text as TaskEngine's, calling *)
(* RSetSt/RSetToWait instead of SetSt/SetToWait).  RefinesTE checks that   *)
(* on TaskEngine's variables they are exactly TaskEngine's actions.        *)
(*                                                                         *)
(* Critical sections added:                                                *)
(*   HRestart(t, how, ty)  a running handler calls FinishTaskWithRestart   *)
(*                         (how = "finish") or TaskWaitForRestart          *)
(*                         (how = "waitfor") under the state lock          *)
(*   Boot(b)               process start: ReadState + restart.Manager(st,  *)
(*                         b, h); b = bootId: snapd restarted without a    *)
(*                         reboot, b > bootId: the system rebooted         *)
(*   StartUp               RestartManager.StartUp                          *)
(*                                                                         *)
(* Properties (E03 a-e), see the end of the module.                        *)
(***************************************************************************)
EXTENDS TaskEngine

CONSTANTS MaxBoot,          \* boot ids are 1..MaxBoot
          MaxCalls,         \* restart-manager calls handlers may make
          BoundaryChoices,  \* set of boundary markings [Tasks -> SUBSET {"do","undo"}]
          ClassicChoices,   \* subset of BOOLEAN
          TypeChoices,      \* restart types handlers may pass: subset of {"system","now","daemon"}
          DagChoices,       \* dependency graphs
          BootAnywhere      \* TRUE: the process may die at any point; FALSE: only with no handler in flight

VARIABLES
  \* ---- fixed after Init
  classic,    \* release.OnClassic
  boundary,   \* [Tasks -> SUBSET {"do","undo"}]   task data "restart-boundary"
  \* ---- persisted
  fromBoot,   \* state "system-restart-from-boot-id" (0 = unset)
  pend,       \* [Changes -> {"none","system","now"}]  change data "pending-system-restart".restart-type
  wfsr,       \* [Changes -> BOOLEAN]  change data "wait-for-system-restart"
  waitBoot,   \* [Tasks -> Nat]  task data "wait-for-system-restart-from-boot-id" (0 = unset)
  \* ---- volatile
  bootId,     \* RestartManager.bootID
  lobs,       \* [Changes -> Status \cup {"Default"}]  Change.lastObservedStatus (not persisted)
  started,    \* StartUp has run in this process
  called,     \* running handlers that already made their restart-manager call
  \* ---- ghosts / monitors
  owed,       \* [Changes -> BOOLEAN] a system restart was scheduled for the change and neither requested,
              \*                      notified (classic) nor unscheduled yet
  expecting,  \* a system restart was requested during the current boot
  bootCb,     \* callback made by the last Manager(): "as-expected" | "did-not-happen"
  rbudget,    \* [calls, boots |-> Nat]
  a_bad, b_busy, b_spur, c_bad, d_bad, e_bad

rFixed == <<classic, boundary>>
rState == <<fromBoot, pend, wfsr, waitBoot, bootId, lobs, started, called>>
rMon   == <<owed, expecting, bootCb, rbudget, a_bad, b_busy, b_spur, c_bad, d_bad, e_bad>>
rvars  == <<vars, rFixed, rState, rMon>>

Dirs == {"do", "undo"}
DirOf(s) == CASE s \in {"Do", "Doing", "Done"} -> "do"
              [] s \in {"Undo", "Undoing", "Undone"} -> "undo"
              [] OTHER -> "none"                          \* boundaryDirectionFromStatus
SysTypes == {"system", "now"}
Prio(ty) == CASE ty = "none" -> 0 [] ty = "system" -> 1 [] ty = "now" -> 2 [] OTHER -> 0
CanNeedRestart(s) == s \in {"Wait", "Done", "Undone", "Error"}   \* isStatusThatCanNeedRestart

\* Independent of Change.Status/isChangeWaiting: a task that the runner could (re)start or that is in flight
CanRun(st, t) ==
  \/ st[t] \in {"Doing", "Undoing", "Abort"}
  \/ st[t] = "Do"   /\ \A w \in waits[t] : st[w] = "Done"
  \/ st[t] = "Undo" /\ \A h \in Halts(t) : IsReadyS(st[h])
Idle(st, c) == \A t \in TasksOf(c) : ~CanRun(st, t)

-----------------------------------------------------------------------------
(* memory of a critical section                                              *)
RMem == [st |-> status, wd |-> waited, rdy |-> rdy, pan |-> panicked,
         pend |-> pend, lobs |-> lobs, from |-> fromBoot, wb |-> waitBoot, wf |-> wfsr,
         boot |-> bootId,  \* RestartManager.bootID
         rq |-> <<>>,      \* Handler.HandleRestart calls made in this section: [c, ty, idle]
         nt |-> <<>>,      \* classic reboot-required notifications made in this section: [c, idle]
         lg |-> "none"]    \* task log line written by markTaskForRestart

\* restart.Request(st, ty, info)
DoRequest(m, c, ty) ==
  [m EXCEPT !.from = IF ty \in SysTypes THEN m.boot ELSE @,
            !.rq = Append(@, [c |-> c, ty |-> ty, idle |-> Idle(m.st, c)])]

\* Change.notifyStatusChange(cs) -> processRestartForChange(chg, old, cs)
Hook(m, c) ==
  LET cs == ChgStatus(m.st, c) IN
  IF m.lobs[c] = cs THEN m
  ELSE LET m1 == [m EXCEPT !.lobs[c] = cs] IN
       IF ~CanNeedRestart(cs) \/ m1.pend[c] = "none" THEN m1
       ELSE LET m2 == [m1 EXCEPT !.pend[c] = "none"] IN
            IF classic THEN [m2 EXCEPT !.nt = Append(@, [c |-> c, idle |-> Idle(m2.st, c)])]
            ELSE DoRequest(m2, c, m1.pend[c])

RSetSt(m, t, new) ==
  LET m2 == SetSt(m, t, new) IN IF m2.st[t] = m.st[t] THEN m2 ELSE Hook(m2, chgOf[t])
RSetToWait(m, t, ws) ==
  LET m2 == SetToWait(m, t, ws) IN IF m2.st[t] = m.st[t] THEN m2 ELSE Hook(m2, chgOf[t])

RECURSIVE RAbortLanesOp(_, _, _, _, _), RAbortTasksLoop(_, _, _, _, _, _, _)
RAbortLanesOp(m, c, L, al, seen) ==
  LET hasLive(l) == \E t \in TasksOf(c) : l \in OpinionLanes(t, L) /\ Live(m, t)
      hasDead(l) == \E t \in TasksOf(c) : l \in OpinionLanes(t, L) /\ ~Live(m, t)
      laneTasks == {t \in TasksOf(c) : \E i \in DOMAIN lanes[t] : lanes[t][i] \in L}
      exempt(t) == \E l \in Range(lanes[t]) : hasLive(l) /\ ~hasDead(l)
      abortSet == {t \in laneTasks : ~exempt(t)}
      al2 == al \cup L
  IN IF abortSet = {} THEN m
     ELSE RAbortTasksLoop(m, c, SetToSeq(abortSet), 1, al2, seen, {})
RAbortTasksLoop(m, c, ts, i, al, seen, lacc) ==
  IF i > Len(ts)
  THEN IF lacc = {} THEN m ELSE RAbortLanesOp(m, c, lacc, al, seen)
  ELSE LET t == ts[i] IN
       IF t \in seen THEN RAbortTasksLoop(m, c, ts, i + 1, al, seen, lacc)
       ELSE LET seen2 == seen \cup {t}
                e == Eff(m, t)
                m2 == CASE e = "Do"    -> RSetSt(m, t, "Hold")
                        [] e = "Doing" -> RSetSt(m, t, "Abort")
                        [] e = "Done"  -> RSetSt(m, t, "Undo")
                        [] OTHER -> m
                lacc2 == IF \E l \in Range(lanes[t]) : l \notin al
                         THEN lacc \cup Range(lanes[t]) ELSE lacc
                ts2 == ts \o SetToSeq({h \in Halts(t) : h \notin seen2})
            IN RAbortTasksLoop(m2, c, ts2, i + 1, al, seen2, lacc2)
RAbortLanesTop(m, c, L) == RAbortLanesOp(m, c, L, {}, {})
RAbortAll(m, c) == RAbortTasksLoop(m, c, SetToSeq(TasksOf(c)), 1, {}, {}, {})
RTryUndo(m, t) == IF m.st[t] = "Abort" /\ ~hasUndo[t] THEN RSetSt(m, t, "Hold") ELSE RSetSt(m, t, "Undo")

RConsiderTask(acc, t) ==
  LET m0 == acc.m
      tomb == t \in acc.run
  IN
  IF m0.st[t] = "Abort" /\ tomb THEN acc
  ELSE
  LET m1 == IF m0.st[t] = "Abort" THEN RTryUndo(m0, t) ELSE m0
      s  == m1.st[t]
  IN
  IF tomb THEN [acc EXCEPT !.m = m1]
  ELSE IF IsReadyS(s)
       THEN [acc EXCEPT !.m = m1,
                        !.cl = IF m1.rdy[chgOf[t]] THEN acc.cl \cup {t} ELSE acc.cl]
  ELSE IF s = "Wait" THEN [acc EXCEPT !.m = m1]
  ELSE IF MustWait(m1, t) THEN [acc EXCEPT !.m = m1]
  ELSE IF s = "Undo" /\ ~hasUndo[t] THEN [acc EXCEPT !.m = RSetSt(m1, t, "Done")]
  ELSE IF acc.at[t] # 0 /\ now < acc.at[t] THEN [acc EXCEPT !.m = m1]
  ELSE IF Blocked(t, acc.run) THEN [acc EXCEPT !.m = m1]
  ELSE LET m2 == CASE s = "Do"   -> RSetSt(m1, t, "Doing")
                   [] s = "Undo" -> RSetSt(m1, t, "Undoing")
                   [] OTHER -> m1
           isDo == s \in {"Do", "Doing"}
       IN [acc EXCEPT !.m = m2,
                      !.at = [acc.at EXCEPT ![t] = 0],
                      !.run = acc.run \cup {t},
                      !.bad = acc.bad \/ ~StartOK(m1, acc.at, t),
                      !.redo = acc.redo \/ (isDo /\ t \in everDone) \/ (~isDo /\ t \in everUndone)]

RECURSIVE RFoldPass(_, _, _)
RFoldPass(acc, order, i) ==
  IF i > Len(order) THEN acc ELSE RFoldPass(RConsiderTask(acc, order[i]), order, i + 1)
RPassResult(order) ==
  RFoldPass([m |-> RMem, at |-> atTime, run |-> running, cl |-> clean, bad |-> c02bad, redo |-> redoBad], order, 1)

-----------------------------------------------------------------------------
(* ghosts over what a section did: sc = change for which a system restart was scheduled in the section   *)
(* (0 none), uc = change whose scheduled restart was explicitly unscheduled (0 none), rq/nt as above.    *)
OwedMid(ow, sc, uc) == [c \in Changes |-> IF c = uc THEN FALSE ELSE IF c = sc THEN TRUE ELSE ow[c]]
SysReqs(rq) == {i \in DOMAIN rq : rq[i].ty \in SysTypes}
NCons(rq, nt, c) == Cardinality({i \in SysReqs(rq) : rq[i].c = c}) + Cardinality({i \in DOMAIN nt : nt[i].c = c})
OwedAfter(ow, sc, uc, rq, nt) == [c \in Changes |-> OwedMid(ow, sc, uc)[c] /\ NCons(rq, nt, c) = 0]
\* a request/notification nobody scheduled, a second one for the same scheduling, a request on classic
\* or a notification on core
SpurIn(ow, sc, uc, rq, nt) ==
  \/ \E c \in Changes : NCons(rq, nt, c) > (IF OwedMid(ow, sc, uc)[c] THEN 1 ELSE 0)
  \/ classic /\ SysReqs(rq) # {}
  \/ ~classic /\ nt # <<>>
\* a system restart requested (or announced) while a task of the change could still run
BusyIn(rq, nt) == (\E i \in SysReqs(rq) : ~rq[i].idle) \/ (\E i \in DOMAIN nt : ~nt[i].idle)

ApplyRMem(m, sc, uc) ==
  /\ ApplyMem(m)
  /\ pend' = m.pend /\ lobs' = m.lobs /\ fromBoot' = m.from /\ waitBoot' = m.wb /\ wfsr' = m.wf
  /\ owed' = OwedAfter(owed, sc, uc, m.rq, m.nt)
  /\ b_spur' = (b_spur \/ SpurIn(owed, sc, uc, m.rq, m.nt))
  /\ b_busy' = (b_busy \/ BusyIn(m.rq, m.nt))
  /\ expecting' = (expecting \/ SysReqs(m.rq) # {})

KeepR == UNCHANGED <<rFixed, fromBoot, pend, wfsr, waitBoot, bootId, lobs, started, called, rMon>>

-----------------------------------------------------------------------------
REnsureWith(order) ==
  /\ started /\ ~stopped
  /\ LET r == RPassResult(order) IN
       /\ ApplyRMem(r.m, 0, 0)
       /\ atTime' = r.at
       /\ running' = r.run
       /\ clean' = r.cl
       /\ c02bad' = r.bad
       /\ redoBad' = r.redo
  /\ UNCHANGED <<graphVars, now, stopped, everDone, everUndone, failedDo, failedUndo, aborted, budget>>
  /\ UNCHANGED <<rFixed, bootId, started, called, bootCb, rbudget, a_bad, c_bad, d_bad, e_bad>>
REnsurePass == \E order \in Perms : REnsureWith(order)

RFinishEffect(t, res, after, ws) ==
  LET m == RMem
      s == status[t]
      eres == IF res = "err" /\ stopped THEN "retry" ELSE res
      eafter == IF res = "err" /\ stopped THEN 0 ELSE after
  IN
  CASE eres = "retry" ->
         [m |-> IF s = "Abort" THEN RTryUndo(m, t) ELSE m,
          at |-> IF s # "Abort" /\ eafter # 0 THEN [atTime EXCEPT ![t] = now + eafter] ELSE atTime]
    [] eres = "wait" ->
         [m |-> IF s = "Abort" THEN RTryUndo(m, t) ELSE RSetToWait(m, t, ws), at |-> atTime]
    [] eres = "ok" ->
         [m |-> CASE s = "Doing"   -> RSetSt(m, t, "Done")
                  [] s = "Abort"   -> RSetSt(m, t, "Undo")
                  [] s = "Undoing" -> RSetSt(m, t, "Undone")
                  [] OTHER -> m,
          at |-> atTime]
    [] eres = "err" ->
         [m |-> RSetSt(RAbortLanesTop(m, chgOf[t], Range(lanes[t])), t, "Error"), at |-> atTime]

RFinish(t, res, after, ws) ==
  /\ t \in running
  /\ LET e == RFinishEffect(t, res, after, ws) IN
     /\ ApplyRMem(e.m, 0, 0)
     /\ atTime' = e.at
  /\ running' = running \ {t}
  /\ called' = called \ {t}
  /\ LET wasDo == status[t] \in {"Doing", "Abort", "Done"}
         real == ~(res = "err" /\ stopped)
     IN
     /\ everDone'   = IF res = "ok" /\ wasDo THEN everDone \cup {t} ELSE everDone
     /\ everUndone' = IF res = "ok" /\ ~wasDo THEN everUndone \cup {t} ELSE everUndone
     /\ failedDo'   = IF res = "err" /\ real /\ wasDo THEN failedDo \cup {t} ELSE failedDo
     /\ failedUndo' = IF res = "err" /\ real /\ ~wasDo THEN failedUndo \cup {t} ELSE failedUndo
  /\ UNCHANGED <<graphVars, clean, now, stopped, c02bad, redoBad, aborted>>
  /\ UNCHANGED <<rFixed, bootId, started, bootCb, rbudget, a_bad, c_bad, d_bad, e_bad>>

\* a handler that made its restart-manager call returns nil right away ("the task should immediately return")
RFinishEnv ==
  \E t \in running :
    \/ RFinish(t, "ok", 0, "Done") /\ UNCHANGED budget
    \/ /\ t \notin called
       /\ budget.fail < MaxFail
       /\ RFinish(t, "err", 0, "Done")
       /\ budget' = [budget EXCEPT !.fail = @ + 1]
    \/ /\ t \notin called
       /\ budget.retry < MaxRetry
       /\ \E a \in {0, 1} : (a = 0 \/ now < MaxTime) /\ RFinish(t, "retry", a, "Done")
       /\ budget' = [budget EXCEPT !.retry = @ + 1]

RUserAbortCore(c) ==
  /\ started /\ ~rdy[c]
  /\ ApplyRMem(RAbortAll(RMem, c), 0, 0)
  /\ aborted' = aborted \cup {c}
  /\ UNCHANGED <<graphVars, atTime, clean, now, running, stopped, c02bad, redoBad, everDone, everUndone, failedDo, failedUndo>>
  /\ UNCHANGED <<rFixed, bootId, started, called, bootCb, rbudget, a_bad, c_bad, d_bad, e_bad>>
RUserAbort(c) ==
  /\ budget.abort < MaxAbort
  /\ RUserAbortCore(c)
  /\ budget' = [budget EXCEPT !.abort = @ + 1]

RTick == Tick /\ KeepR

-----------------------------------------------------------------------------
(* restart.go                                                                *)

\* markTaskForRestart(t, status, setTaskToWait)
MarkTask(m, t, s, w) ==
  LET c == chgOf[t] IN
  IF classic /\ s \in {"Undo", "Undone"}
  THEN [RSetSt([m EXCEPT !.pend[c] = "none"], t, s) EXCEPT !.lg = "skipped"]
  ELSE LET m1 == [m EXCEPT !.wf[c] = TRUE] IN
       IF w THEN [RSetToWait([m1 EXCEPT !.wb[t] = m.boot], t, s) EXCEPT !.lg = "wait"]
       ELSE [RSetSt(m1, t, s) EXCEPT !.lg = "requested"]

\* changeHasRestartBoundary / TaskIsRestartBoundary
ChangeHasBoundary(c, d) == \E u \in TasksOf(c) : d \in boundary[u]

\* FinishTaskWithRestart(t, status, restartType, ...)
FTWR(m, t, s, ty) ==
  LET c == chgOf[t] IN
  IF ty \notin SysTypes THEN DoRequest(RSetSt(m, t, s), c, ty)
  ELSE LET m1 == [m EXCEPT !.pend[c] = IF Prio(ty) > Prio(@) THEN ty ELSE @]    \* RestartParameters.init
           d  == DirOf(s)
           w  == IF ChangeHasBoundary(c, d) THEN d \in boundary[t] ELSE TRUE
       IN MarkTask(m1, t, s, w)

\* ---- what the doc comments promise about one call (evaluated on the post-state q of the section)
\* q = [st, wd, wb, wf, pend, lg];  p = status of the task when its handler made the call
WaitRule(t, s) ==     \* "if a change has no restart boundary [in that direction] tasks always wait; else only boundaries"
  LET d == DirOf(s) IN (\A u \in TasksOf(chgOf[t]) : d \notin boundary[u]) \/ d \in boundary[t]

OutcomeOK(t, how, ty, p, s, q) ==
  LET c == chgOf[t] IN
  IF p = "Abort" THEN q.st[t] = "Abort"                     \* an aborted task stays aborted (it will be undone)
  ELSE IF how = "finish" /\ ty \notin SysTypes THEN q.st[t] = s
  ELSE IF how = "finish"
  THEN IF classic /\ s = "Undone"
       THEN q.st[t] = "Undone" /\ q.pend[c] = "none" /\ q.lg = "skipped"
       ELSE /\ q.wf[c]
            /\ \/ q.st[t] = "Wait" /\ q.wd[t] = s /\ q.wb[t] = bootId /\ q.lg = "wait"
               \/ q.st[t] = s /\ q.wb[t] = waitBoot[t] /\ q.lg = "requested"
  ELSE IF classic /\ p = "Undoing"
       THEN q.st[t] = "Undo" /\ q.lg = "skipped"
       ELSE /\ q.st[t] = "Wait" /\ q.wd[t] = (IF p = "Doing" THEN "Do" ELSE "Undo")
            /\ q.wb[t] = bootId /\ q.wf[c] /\ q.lg = "wait"

DirOK(t, how, ty, p, s, q) ==
  (how = "finish" /\ ty \in SysTypes /\ p # "Abort" /\ ~(classic /\ s = "Undone"))
     => ((q.st[t] = "Wait") <=> WaitRule(t, s))

PassedStatus(p) == IF p = "Undoing" THEN "Undone" ELSE "Done"   \* what a do / an undo handler passes

HRestartMem(t, how, ty) ==
  LET p == status[t] IN
  IF how = "finish" THEN FTWR(RMem, t, PassedStatus(p), ty)
  ELSE MarkTask(RMem, t, IF p = "Undoing" THEN "Undo" ELSE "Do", TRUE)

HRestart(t, how, ty) ==
  /\ started /\ t \in running /\ t \notin called
  /\ status[t] \in {"Doing", "Undoing", "Abort"}
  /\ how = "waitfor" => status[t] \in {"Doing", "Undoing"}      \* else TaskWaitForRestart returns an error
  /\ rbudget.calls < MaxCalls
  /\ LET p == status[t]
         s == PassedStatus(p)
         c == chgOf[t]
         m == HRestartMem(t, how, ty)
         q == [st |-> m.st, wd |-> m.wd, wb |-> m.wb, wf |-> m.wf, pend |-> m.pend, lg |-> m.lg]
         sc == IF how = "finish" /\ ty \in SysTypes THEN c ELSE 0
         uc == IF classic /\ p = "Undoing" /\ (how = "waitfor" \/ ty \in SysTypes) THEN c ELSE 0
     IN /\ ApplyRMem(m, sc, uc)
        /\ a_bad' = (a_bad \/ ~OutcomeOK(t, how, ty, p, s, q))
        /\ d_bad' = (d_bad \/ ~DirOK(t, how, ty, p, s, q))
  /\ called' = called \cup {t}
  /\ rbudget' = [rbudget EXCEPT !.calls = @ + 1]
  /\ UNCHANGED <<graphVars, atTime, clean, now, running, stopped, c02bad, redoBad, everDone, everUndone,
                 failedDo, failedUndo, aborted, budget>>
  /\ UNCHANGED <<rFixed, bootId, started, bootCb, c_bad, e_bad>>

HRestartEnv == \E t \in running, how \in {"finish", "waitfor"}, ty \in TypeChoices :
                  (how = "waitfor" => ty = "system") /\ HRestart(t, how, ty)

\* process start: ReadState(last checkpoint) + restart.Manager(st, b, h) -> RestartManager.init
BootCore(b) ==
  /\ running' = {} /\ stopped' = FALSE
  /\ rdy' = [c \in Changes |-> IsReadyS(ChgStatus(status, c))]
  /\ bootId' = b
  /\ lobs' = [c \in Changes |-> "Default"]
  /\ started' = FALSE
  /\ called' = {}
  /\ fromBoot' = IF fromBoot # 0 /\ fromBoot # b THEN 0 ELSE fromBoot        \* ClearReboot
  /\ bootCb' = IF fromBoot # 0 /\ fromBoot = b THEN "did-not-happen" ELSE "as-expected"
  \* Handler doc: RebootDidNotHappen "when a reboot was requested by snapd but did not happen",
  \* RebootAsExpected "when either a reboot was requested by snapd and happened or no reboot was expected"
  /\ e_bad' = (e_bad \/ (bootCb' = "did-not-happen") # (expecting /\ b = bootId))
  /\ expecting' = (expecting /\ b = bootId)
  /\ UNCHANGED <<graphVars, status, waited, atTime, clean, now, panicked, c02bad, redoBad, everDone, everUndone,
                 failedDo, failedUndo, aborted>>
  /\ UNCHANGED <<rFixed, pend, wfsr, waitBoot, owed, a_bad, b_busy, b_spur, c_bad, d_bad>>

Boot(b) ==
  /\ b \in {bootId, bootId + 1} /\ b <= MaxBoot
  /\ IF b = bootId THEN budget.restart < MaxRestart ELSE TRUE
  /\ BootCore(b)
  /\ budget' = IF b = bootId THEN [budget EXCEPT !.restart = @ + 1] ELSE budget
  /\ rbudget' = IF b = bootId THEN rbudget ELSE [rbudget EXCEPT !.boots = @ + 1]

\* RestartManager.StartUp: tasks of a change in chg.Tasks() order
RECURSIVE StartUpTasks(_, _, _, _, _)
StartUpTasks(m, ts, i, still, b) ==       \* b = RestartManager.bootID
  IF i > Len(ts) THEN [m |-> m, still |-> still]
  ELSE LET t == ts[i] IN
       IF m.st[t] # "Wait" \/ m.wb[t] = 0 THEN StartUpTasks(m, ts, i + 1, still, b)
       ELSE IF m.wb[t] = b THEN StartUpTasks(m, ts, i + 1, TRUE, b)          \* no boot has intervened yet
       ELSE StartUpTasks([RSetSt(m, t, m.wd[t]) EXCEPT !.wb[t] = 0], ts, i + 1, still, b)
RECURSIVE StartUpChanges(_, _, _)
StartUpChanges(m, c, b) ==
  IF c > NC THEN m
  ELSE IF m.rdy[c] \/ ~m.wf[c] THEN StartUpChanges(m, c + 1, b)
  ELSE LET r == StartUpTasks(m, SetToSeq(TasksOf(c)), 1, FALSE, b)
       IN StartUpChanges(IF r.still THEN r.m ELSE [r.m EXCEPT !.wf[c] = FALSE], c + 1, b)

\* "update task statuses for tasks that are in WaitStatus": boot id differs -> waited status; same -> untouched
StartUpOK(q, b) ==
  \A t \in Tasks :
    IF status[t] = "Wait" /\ waitBoot[t] # 0
    THEN IF waitBoot[t] # b THEN q.st[t] = waited[t] /\ q.wb[t] = 0
         ELSE q.st[t] = "Wait" /\ q.wb[t] = waitBoot[t]
    ELSE q.st[t] = status[t]

StartUp ==
  /\ ~started
  /\ started' = TRUE
  /\ LET m == StartUpChanges(RMem, 1, bootId) IN
     /\ ApplyRMem(m, 0, 0)
     /\ c_bad' = (c_bad \/ ~StartUpOK([st |-> m.st, wb |-> m.wb], bootId))
  /\ UNCHANGED <<graphVars, atTime, clean, now, running, stopped, c02bad, redoBad, everDone, everUndone,
                 failedDo, failedUndo, aborted, budget>>
  /\ UNCHANGED <<rFixed, bootId, called, bootCb, rbudget, a_bad, d_bad, e_bad>>

\* Boot(b) immediately followed by StartUp, as one step (model checking: the state in between only matters
\* for a crash between the two, which is just another Boot)
BootStart(b) ==
  /\ b \in {bootId, bootId + 1} /\ b <= MaxBoot
  /\ BootAnywhere \/ running = {}
  /\ IF b = bootId THEN budget.restart < MaxRestart ELSE TRUE
  /\ budget' = IF b = bootId THEN [budget EXCEPT !.restart = @ + 1] ELSE budget
  /\ rbudget' = IF b = bootId THEN rbudget ELSE [rbudget EXCEPT !.boots = @ + 1]
  /\ running' = {} /\ stopped' = FALSE /\ called' = {} /\ started' = TRUE /\ bootId' = b
  /\ bootCb' = IF fromBoot # 0 /\ fromBoot = b THEN "did-not-happen" ELSE "as-expected"
  /\ e_bad' = (e_bad \/ (bootCb' = "did-not-happen") # (expecting /\ b = bootId))
  /\ LET m0 == [RMem EXCEPT !.rdy = [c \in Changes |-> IsReadyS(ChgStatus(status, c))],
                            !.lobs = [c \in Changes |-> "Default"],
                            !.boot = b,
                            !.from = IF fromBoot # 0 /\ fromBoot # b THEN 0 ELSE fromBoot]
         m == StartUpChanges(m0, 1, b)
     IN /\ ApplyMem(m)
        /\ pend' = m.pend /\ lobs' = m.lobs /\ fromBoot' = m.from /\ waitBoot' = m.wb /\ wfsr' = m.wf
        /\ owed' = OwedAfter(owed, 0, 0, m.rq, m.nt)
        /\ b_spur' = (b_spur \/ SpurIn(owed, 0, 0, m.rq, m.nt))
        /\ b_busy' = (b_busy \/ BusyIn(m.rq, m.nt))
        /\ expecting' = ((expecting /\ b = bootId) \/ SysReqs(m.rq) # {})
        /\ c_bad' = (c_bad \/ ~StartUpOK([st |-> m.st, wb |-> m.wb], b))
  /\ UNCHANGED <<graphVars, atTime, clean, now, c02bad, redoBad, everDone, everUndone, failedDo, failedUndo, aborted>>
  /\ UNCHANGED <<rFixed, a_bad, d_bad>>

\* Named sub-actions, so that the action labels of the dumped state graph show that the interesting branches
\* were taken. A state in which overlord/state has panicked ("change unexpectedly became unready", known finding
\* C03) is terminal: the daemon dies there.
Alive == ~panicked
NEnsure            == Alive /\ REnsurePass
FinishRequesting   == Alive /\ RFinishEnv /\ pend' # pend
FinishQuiet        == Alive /\ RFinishEnv /\ pend' = pend
HRestartRequesting == Alive /\ HRestartEnv /\ fromBoot' # fromBoot
HRestartQuiet      == Alive /\ HRestartEnv /\ fromBoot' = fromBoot
NAbort             == Alive /\ \E c \in Changes : RUserAbort(c)
NTick              == Alive /\ RTick
RebootResolving    == Alive /\ BootStart(bootId + 1) /\ status' # status
RebootKeeping      == Alive /\ BootStart(bootId + 1) /\ status' = status
SnapdRestart       == Alive /\ BootStart(bootId)

RNext ==
  \/ NEnsure
  \/ FinishRequesting \/ FinishQuiet
  \/ HRestartRequesting \/ HRestartQuiet
  \/ NAbort
  \/ NTick
  \/ RebootResolving \/ RebootKeeping \/ SnapdRestart

-----------------------------------------------------------------------------
RInitState ==
  /\ fromBoot = 0
  /\ pend = [c \in Changes |-> "none"]
  /\ wfsr = [c \in Changes |-> FALSE]
  /\ waitBoot = [t \in Tasks |-> 0]
  /\ bootId = 1
  /\ lobs = [c \in Changes |-> "Default"]
  /\ started = TRUE
  /\ called = {}
  /\ owed = [c \in Changes |-> FALSE]
  /\ expecting = FALSE
  /\ bootCb = "as-expected"
  /\ rbudget = [calls |-> 0, boots |-> 0]
  /\ a_bad = FALSE /\ b_busy = FALSE /\ b_spur = FALSE /\ c_bad = FALSE /\ d_bad = FALSE /\ e_bad = FALSE

ForwardDags == {w \in [Tasks -> SUBSET Tasks] : \A t \in Tasks : w[t] \subseteq 1..(t-1)}

MCRInit ==
  /\ waits \in DagChoices
  /\ lanes = [t \in Tasks |-> <<0>>]
  /\ hasUndo = [t \in Tasks |-> TRUE]
  /\ chgOf = [t \in Tasks |-> 1]
  /\ kind = [t \in Tasks |-> "neutral"]
  /\ snap = [t \in Tasks |-> 0]
  /\ InitState
  /\ classic \in ClassicChoices
  /\ boundary \in BoundaryChoices
  /\ RInitState

MCRSpec == MCRInit /\ [][RNext]_rvars

\* hide write-only history variables of TaskEngine (they feed C01-C04 only)
RView == <<graphVars, status, waited, atTime, now, running, rdy, stopped, panicked, budget, rFixed, rState, rMon>>

\* cfg helpers
Chain == {[t \in Tasks |-> IF t = 1 THEN {} ELSE {t - 1}]}
ChainFork == Chain \cup {[t \in Tasks |-> IF t = 1 THEN {} ELSE {1}]}
ChainForkSide == ChainFork \cup {[t \in Tasks |-> IF t = 2 THEN {1} ELSE {}]}
BoundAll  == [Tasks -> SUBSET Dirs]
BoundSome == [Tasks -> {{}, {"do"}, {"undo"}}]
BoundNone == {[t \in Tasks |-> {}]}
Mark(f) == [t \in Tasks |-> IF t \in DOMAIN f THEN f[t] ELSE {}]
\* none; do on 1; do on 2; undo on 2; do on 1 + undo on 2 (snapd's link-snap / unlink-snap pattern); both on 1
BoundQuick == {Mark(<<>>), Mark(<<{"do"}>>), Mark(<<{}, {"do"}>>), Mark(<<{}, {"undo"}>>),
               Mark(<<{"do"}, {"undo"}>>), Mark(<<{"do", "undo"}>>)}
BoolBoth  == BOOLEAN
CoreOnly  == {FALSE}
ClassicOnly == {TRUE}
TypesAll == {"system", "now", "daemon"}
TypesSys == {"system"}
TypesSysNow == {"system", "now"}

-----------------------------------------------------------------------------
(* Properties                                                                *)

RTypeOK ==
  /\ pend \in [Changes -> {"none", "system", "now"}]
  /\ waitBoot \in [Tasks -> 0..MaxBoot]
  /\ fromBoot \in 0..MaxBoot
  /\ bootId \in 1..MaxBoot

\* (a) FinishTaskWithRestart / TaskWaitForRestart leave the task as documented: classic+undo -> the final
\*     status directly ("Skipped automatic system restart on classic system when undoing ..."), otherwise
\*     Wait with the waited status handed in (Done for do, Undone for undo; Do/Undo for TaskWaitForRestart),
\*     the current boot id stored on the task and the change marked wait-for-system-restart - or, when the
\*     change has restart boundaries in that direction and the task is not one, the final status directly
\*     ("Task has requested a system restart").
E03a_Outcome == ~a_bad
\*     Change.Status(): "With all pending tasks blocked by other tasks in WaitStatus, return WaitStatus" -
\*     the change reports Wait only when nothing of it can run.
E03a_WaitOnlyIdle == \A c \in Changes : ChgStatus(status, c) = "Wait" => Idle(status, c)
E03a == E03a_Outcome /\ E03a_WaitOnlyIdle

\* (b) "the restart is scheduled and postponed until the change has run out of tasks to run":
\*     never requested (classic: announced) while a task of the change can still run,
E03b_NotWhileRunnable == ~b_busy
\*     exactly once per scheduling: no request nobody scheduled, no second request, no request on classic,
E03b_NoSpurious == ~b_spur
\*     and not forgotten: a change that has run out of tasks to run owes no restart.
E03b_NoLost == \A c \in Changes : owed[c] => ~CanNeedRestart(ChgStatus(status, c))
\*     the ghost and the persisted parameters agree (spec sanity)
E03b_PendIsOwed == \A c \in Changes : owed[c] <=> pend[c] # "none"
E03b == E03b_NotWhileRunnable /\ E03b_NoSpurious /\ E03b_NoLost /\ E03b_PendIsOwed

\* (c) StartUp: boot id changed -> every task waiting for the restart gets its waited status; unchanged -> nothing
E03c_StartUp == ~c_bad
\*     once started, no task is left waiting for a restart of an earlier boot, and the change-level marker the
\*     start-up pass keys on covers every such task
E03c_NoStaleWait ==
  \A t \in Tasks : (status[t] = "Wait" /\ waitBoot[t] # 0) =>
       /\ wfsr[chgOf[t]] /\ ~rdy[chgOf[t]]
       /\ started => waitBoot[t] = bootId
E03c == E03c_StartUp /\ E03c_NoStaleWait

\* (d) a restart boundary set for a direction only applies in that direction
E03d == ~d_bad

\* (e) Handler.RebootAsExpected / RebootDidNotHappen
E03e == ~e_bad

E03 == E03a /\ E03b /\ E03c /\ E03d /\ E03e

\* as checked by TLC: everywhere except in the terminal states after the known Change.Abort panic, which is
\* reachable only through a user abort (never through the restart manager or the engine's own failure handling)
I_E03a == panicked \/ E03a
I_E03b == panicked \/ E03b
I_E03c == panicked \/ E03c
I_E03d == panicked \/ E03d
I_E03e == panicked \/ E03e
PanicOnlyByAbort == panicked => aborted # {}

\* the R-operators are TaskEngine's operators on TaskEngine's variables
RefinesEnsure == [][REnsurePass => EnsurePass]_rvars
RefinesFinish == [][\A t \in Tasks : \A res \in {"ok", "err"} : RFinish(t, res, 0, "Done") => Finish(t, res, 0, "Done")]_rvars
RefinesAbort  == [][\A c \in Changes : RUserAbortCore(c) => UserAbortCore(c)]_rvars

\* (c, "its waiters run") after the reboot that was asked for has happened the change goes on: with handlers
\* returning, Ensure being called and the awaited reboot eventually happening, every change settles
WaitingForReboot == \E t \in Tasks : status[t] = "Wait" /\ waitBoot[t] = bootId
AskedReboot == Alive /\ WaitingForReboot /\ running = {} /\ BootStart(bootId + 1)
RNextLive ==
  \/ NEnsure \/ FinishRequesting \/ FinishQuiet \/ HRestartRequesting \/ HRestartQuiet
  \/ NAbort
  \/ NTick
  \/ AskedReboot \/ SnapdRestart
RFairness ==
  /\ WF_rvars(REnsurePass)
  /\ \A t \in Tasks : WF_rvars(RFinish(t, "ok", 0, "Done") /\ UNCHANGED budget)
  /\ WF_rvars(RTick)
  /\ WF_rvars(AskedReboot)
RSettles == <>[]Quiescent
MCRLive == MCRInit /\ [][RNextLive]_rvars /\ RFairness

\* two changes side by side (tasks 1..N-1 in change 1, task N in change 2; dependencies inside a change only)
MCRInit2 ==
  /\ chgOf = [t \in Tasks |-> IF t < N THEN 1 ELSE 2]
  /\ waits \in {w \in DagChoices : \A t \in Tasks : \A u \in w[t] : chgOf[u] = chgOf[t]}
  /\ lanes = [t \in Tasks |-> <<0>>]
  /\ hasUndo = [t \in Tasks |-> TRUE]
  /\ kind = [t \in Tasks |-> "neutral"]
  /\ snap = [t \in Tasks |-> 0]
  /\ InitState
  /\ classic \in ClassicChoices
  /\ boundary \in BoundaryChoices
  /\ RInitState
MCRSpec2 == MCRInit2 /\ [][RNext]_rvars
=============================================================================
