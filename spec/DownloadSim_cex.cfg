\* smallest constants in which the stale tail shows; history variable `script` yields the server script
CONSTANTS
  Sizes = {2}
  MaxFile = 3
  MaxReq = 2
  AttemptLimits = {2}
  RedirChoices = {FALSE}
  TruncateOnRestart = FALSE
INIT SimInit
NEXT SimNext
CHECK_DEADLOCK FALSE
INVARIANTS
  TargetOnlyIfCorrect
