---------------------------- MODULE TimerRoundTrip ----------------------------
(* C16 round trip, semantic half: for each record [case, a, b, d1, d2] the      *)
(* timers a and b (ASTs: a = the enumerated AST or Parse(s); b = the real       *)
(* Parse(String(a))) denote the same set of windows on days d1..d2.             *)
EXTENDS TimerWindows, IOUtils, Json

VARIABLE x

Recs == ndJsonDeserialize(IOEnv.VERIF_TRACE)

Same(r) == TimerWindows(r.a, r.d1, r.d2) = TimerWindows(r.b, r.d1, r.d2)

Bad == {[i |-> i, case |-> Recs[i].case] : i \in {j \in 1..Len(Recs) : ~Same(Recs[j])}}
NonEmpty == Cardinality({j \in 1..Len(Recs) : TimerWindows(Recs[j].a, Recs[j].d1, Recs[j].d2) # {}})

ASSUME JsonSerialize(IOEnv.VERIF_OUT, [bad |-> Bad, n |-> Len(Recs), nonempty |-> NonEmpty])

Init == x = 0
Next == UNCHANGED x
=============================================================================
