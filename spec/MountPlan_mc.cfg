SPECIFICATION Spec
CONSTANTS
  MaxUpdates = 3
  MaxEntries = 2
  KeepOrder = "forward"
  Size = "quick"
  StartRootfs = FALSE
VIEW View
CHECK_DEADLOCK FALSE
INVARIANTS
  InvPlanCoversCurrent
  InvApplyMatches
  InvResult
  InvHelperSupportKept
  InvKeptInPlace
  InvUnmountOrder
  InvUnmountOrderTrue
  InvMountOrder
  InvUnmountStrandsNothing
  InvNoFailure
  InvProfileIsLog
