--------------------------- MODULE RevEpochHistory ---------------------------
(***************************************************************************)
(* C35, history dimension: ONE destination Epoch variable is reused for K  *)
(* successive decodes (short forms N / N*, structured documents incl.      *)
(* write-only / read-only / empty / invalid ones, in every order), and a   *)
(* copy of the destination is kept after each decode (as                   *)
(* `list = append(list, item)` does).  In the specification values are     *)
(* immutable, so every kept copy is, forever, the denotation of the text   *)
(* it was decoded from -- a function of the text ALONE, independent of     *)
(* what the destination held before and of what is decoded into it         *)
(* afterwards.  TLC explores every history (invariants below) and exports  *)
(* the histories and the per-text denotation; the driver                   *)
(* (harness/ext/revepoch: TestVerifC35History) replays each history into a *)
(* real reused `snap.Epoch` through json.Unmarshal / yaml.Unmarshal in     *)
(* every format assignment and judges EVERY kept copy and the final value  *)
(* after the whole history.                                                *)
(***************************************************************************)
EXTENDS RevEpoch

K == EnvInt("VERIF_HISTLEN", 2)

Short(s)  == [short |-> TRUE,  s |-> s,    r |-> NILL, w |-> NILL]
Doc(r, w) == [short |-> FALSE, s |-> <<>>, r |-> r,    w |-> w]        \* NILL = attribute absent

Texts == <<
    Short(<<48>>), Short(<<49>>), Short(<<50>>), Short(<<51>>),            \* 0 1 2 3
    Short(<<50, 42>>), Short(<<51, 42>>), Short(<<53, 42>>),               \* 2* 3* 5*
    Short(<<48, 42>>),                                                     \* 0*   (invalid)
    Doc(NILL, L(<<1, 2>>)),                                                \* {"write":[1,2]}: read = write
    Doc(NILL, L(<<3>>)),                                                   \* {"write":[3]}
    Doc(L(<<1, 2>>), NILL),                                                \* {"read":[1,2]}: write = [2]
    Doc(L(<<1, 2>>), L(<<2>>)),
    Doc(L(<<0, 1, 2, 3>>), L(<<2, 3>>)),
    Doc(L(<<2, 1>>), NILL),                                                \* not increasing (invalid)
    Doc(NILL, NILL),                                                       \* {}: epoch 0
    Doc(L(<<0>>), L(<<0>>)) >>
T == Len(Texts)

Denote(t) == IF t.short THEN ParseShort(t.s) ELSE ParseStructured(t.r, t.w)

Peers == <<E(<<48>>), E(<<49>>), E(<<50>>), E(<<51>>), E(<<53>>), Ep(L(<<1, 2>>), L(<<2>>)), Ep(L(<<0, 1, 2, 3>>), L(<<2, 3>>))>>

VARIABLES dst, kept, hist
hvars == <<x, dst, kept, hist>>

HInit == x = <<"rev", 1>> /\ dst = Ep(NILL, NILL) /\ kept = <<>> /\ hist = <<>>

\* Decode(t): on success the destination IS the denoted epoch (nothing of the old value survives);
\* on failure it is left alone. A copy is taken after every decode.
Decode(t) ==
    LET d == Denote(Texts[t]) IN
    /\ Len(hist) < K
    /\ hist' = Append(hist, t)
    /\ dst' = IF d.ok THEN d.e ELSE dst
    /\ kept' = Append(kept, [ok |-> d.ok, e |-> IF d.ok THEN d.e ELSE dst])
    /\ UNCHANGED x
HNext == \E t \in 1..T : Decode(t)

\* every kept copy (and the destination) is what ITS text denotes, whatever was decoded before or after
KeptIsDenoted == \A i \in 1..Len(kept) : kept[i].ok =>
                    /\ kept[i].e = Denote(Texts[hist[i]]).e
                    /\ kept[i].ok = Denote(Texts[hist[i]]).ok
DstIsLastGood == (kept # <<>> /\ kept[Len(kept)].ok) => dst = kept[Len(kept)].e
\* ... and therefore valid, self-reading, printing back to itself, with CanRead following the denoted sets
KeptLaws == \A i \in 1..Len(kept) : kept[i].ok =>
               LET e == kept[i].e IN
               /\ ValidRaw(e) /\ CanRead(e, e)
               /\ ~e.r.nil /\ ~e.w.nil
               /\ \A p \in 1..Len(Peers) : CanRead(e, Peers[p]) = (SetOf(e.r.l) \cap SetOf(Norm(Peers[p].w)) # {})

-----------------------------------------------------------------------------
(* T->I export: the histories (every sequence of 1..K text indices) and the denotation of each text *)
RECURSIVE HistsOfLen(_)
HistsOfLen(n) == IF n = 0 THEN << <<>> >>
                 ELSE LET P == HistsOfLen(n - 1) IN
                      [i \in 1..(Len(P) * T) |-> Append(P[((i - 1) \div T) + 1], ((i - 1) % T) + 1)]
RECURSIVE HistsUpTo(_)
HistsUpTo(n) == IF n = 0 THEN <<>> ELSE HistsUpTo(n - 1) \o HistsOfLen(n)

TextRow(t) == LET d == Denote(t) IN
    [short |-> t.short, s |-> t.s, r |-> t.r, w |-> t.w,
     ok |-> d.ok, er |-> d.e.r.l, ew |-> d.e.w.l,
     str |-> IF d.ok THEN EpochString(d.e) ELSE <<>>,
     valid |-> d.ok /\ ValidRaw(d.e),
     reads |-> [p \in 1..Len(Peers) |-> d.ok /\ CanRead(d.e, Peers[p])],
     readby |-> [p \in 1..Len(Peers) |-> d.ok /\ CanRead(Peers[p], d.e)]]
HistTable == [k |-> K,
              texts |-> [i \in 1..T |-> TextRow(Texts[i])],
              peers |-> [p \in 1..Len(Peers) |-> [r |-> Peers[p].r.l, w |-> Peers[p].w.l]],
              hists |-> HistsUpTo(K)]
ASSUME JsonSerialize(IOEnv.VERIF_OUT, HistTable)
=============================================================================
