\* thorough exhaustive config: as Aliases_mc.cfg with histories of 3 requests
CONSTANTS
  Snaps <- MCSnaps
  Names <- MCNames2
  Apps <- MCApps
  AutoApps <- MCAuto1
  OpKinds <- MCAllKinds
  InstallFlags <- MCFlags
  FaultModes <- MCFaultsAtomic
  InitInst <- MCBoth
  RAAUX = FALSE
  LateRemoveFaults = FALSE
  MaxOps = 3
INIT Init
NEXT Next
CHECK_DEADLOCK FALSE
INVARIANTS TypeOK SysMatchesState NoPendingWhenSettled NoDoubleAlias NoNamespaceClash RefreshKeepsManualFollowsDecl FailedChangeRestores
