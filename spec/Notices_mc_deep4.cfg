\* C08 deep slice: 1 user + public, 1 type, 2 keys, clock {1,3,5,7}, <= 4 additions
SPECIFICATION SpecPoll
CONSTANTS
  Users <- MCUsers1
  Types <- MCTypes1
  Keys <- MCKeys
  RepeatAfters = {0, 2}
  Data = {"d"}
  Clients <- MCClients
  CfgChoices <- MCCfgDeep
  ClockValues = {1, 3, 5, 7}
  MaxAdds = 4
  Bump = TRUE
  BroadcastRepeat = TRUE
  AddAtTimes = {}
  ClockRegress = FALSE
VIEW view
INVARIANTS
  TypeOK
  UniqueNotices
  ExactlyOnce
  InOrder
  NoPhantom
  Ownership
  PublicToAll
  RepeatAfterSuppression
  StrictTimes
  NoLostWakeup
PROPERTIES
  PollDrainsProp
  NoPhantomProp
  RepeatAfterProp
CHECK_DEADLOCK FALSE
