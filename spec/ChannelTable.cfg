INIT TInit
NEXT Next
CHECK_DEADLOCK FALSE
