--------------------------- MODULE TraceQuotaTree ---------------------------
(***************************************************************************)
(* I->T for C36: a file of NDJSON events recorded from the REAL            *)
(* quota.NewGroup / NewSubGroup / UpdateQuotaLimits (driver: harness/      *)
(* overlay/quota/zz_verif_quota_test.go) must be a behaviour of QuotaTree: *)
(*  - accept/refuse of every request equals the spec's transcribed guard,  *)
(*  - the projected real forest after the request equals the spec's        *)
(*    post-state (in particular: refused => unchanged),                    *)
(*  - the real CPU allocation of every group equals Alloc,                 *)
(*  - the driver's own evaluation of the statement on the real forest and  *)
(*    its mechanism classification equal the spec's (dev),                 *)
(*  - all invariants of QuotaTree hold in every recorded state.            *)
(* Events: Reset (new empty forest; carries the bounds), Op, Mark (remember *)
(* the current forest), Restore (the driver rebuilt the marked forest on   *)
(* fresh real objects: enumeration of all one-step requests from it).      *)
(***************************************************************************)
EXTENDS QuotaTree, IOUtils, Json

VARIABLES l, base

Trace == ndJsonDeserialize(IOEnv.VERIF_TRACE)

\* bounds and NumCPU come from the driver (first event is always a Reset)
TraceNCPU      == Trace[1].ncpu
TraceMaxGroups == Trace[1].maxGroups
TraceMaxDepth  == Trace[1].maxDepth
TraceMaxRoots  == Trace[1].maxRoots

ToSet(s) == {s[i] : i \in DOMAIN s}
DecReq(r) == [mem |-> r.mem, thr |-> r.thr, cnt |-> r.cnt, pct |-> r.pct,
              hasSet |-> r.hasSet, cpus |-> ToSet(r.cpus), other |-> r.other]
DecRec(r) == [parent |-> r.parent, mem |-> r.mem, thr |-> r.thr, cnt |-> r.cnt, pct |-> r.pct,
              cpus |-> ToSet(r.cpus), other |-> r.other]
DecTree(st) == [i \in 1..Len(st) |-> DecRec(st[i])]

IsEv(e) == l <= Len(Trace) /\ Trace[l].ev = e /\ l' = l + 1

TInit == Init /\ l = 1 /\ base = <<>>

TReset ==
    /\ IsEv("Reset")
    /\ tree' = <<>> /\ dev' = {} /\ base' = <<>>
    /\ last' = [op |-> "init", g |-> 0, path |-> "direct", req |-> EmptyReq]

TOp ==
    /\ IsEv("Op")
    /\ UNCHANGED base
    /\ dev = {}
    /\ LET e  == Trace[l]
           q  == DecReq(e.req)
           aq == AllQuotas(tree)
       IN  /\ IF e.op = "new"
                THEN /\ CanCreate(tree, e.g) = TRUE
                     /\ e.ok = CreateOK(tree, aq, e.g, q)
                     /\ IF e.ok THEN Create(aq, e.g, q) ELSE UNCHANGED <<tree, dev, last>>
                ELSE /\ e.g \in Ids(tree)
                     /\ e.ok = UpdateOK(tree, aq, e.g, e.path, q)
                     /\ IF e.ok THEN Update(aq, e.g, e.path, q) ELSE UNCHANGED <<tree, dev, last>>
           /\ tree' = DecTree(e.st)                                    \* refused => unchanged; accepted => Apply
           /\ \A g \in Ids(tree') : e.st[g].alloc = Alloc(tree', g)    \* real getCurrentCPUAllocation
           /\ e.fits = (dev' = {})                                     \* the statement evaluated on the real forest
           /\ ToSet(e.cls) = dev'

TMark ==
    /\ IsEv("Mark")
    /\ DecTree(Trace[l].st) = tree
    /\ base' = tree
    /\ UNCHANGED <<tree, dev, last>>

TRestore ==
    /\ IsEv("Restore")
    /\ DecTree(Trace[l].st) = base
    /\ tree' = base /\ dev' = {}
    /\ UNCHANGED <<base, last>>

TNext == TReset \/ TOp \/ TMark \/ TRestore
TSpec == TInit /\ [][TNext]_<<tree, dev, last, l, base>>

Accepted == TLCGet("stats").diameter - 1 = Len(Trace)

\* diagnosis of a rejected line i (all states are logged, so the pre-state is the previous line's st):
\* evaluated by props/_quotatree.py with VERIF_LINE after a rejection
PreTree(i) == IF Trace[i - 1].ev = "Reset" THEN <<>> ELSE DecTree(Trace[i - 1].st)
Explain(i) ==
    LET e  == Trace[i]
        t  == PreTree(i)
        q  == DecReq(e.req)
        aq == AllQuotas(t)
        ok == IF e.op = "new" THEN CreateOK(t, aq, e.g, q) ELSE UpdateOK(t, aq, e.g, e.path, q)
        t2 == IF ~ok THEN t
              ELSE IF e.op = "new" THEN Append(t, Apply(EmptyRec(e.g), q))
              ELSE [t EXCEPT ![e.g] = Apply(t[e.g], Effective(t, e.g, e.path, q))]
    IN  [specOk |-> ok, realOk |-> e.ok, specTree |-> t2, realTree |-> DecTree(e.st),
         specAlloc |-> [g \in Ids(t2) |-> Alloc(t2, g)], specFits |-> Fits(t2)]
=============================================================================
