SPECIFICATION TSpec
CONSTANTS
  NCPU <- TraceNCPU
  MaxGroups <- TraceMaxGroups
  MaxDepth <- TraceMaxDepth
  MaxRoots <- TraceMaxRoots
  MemVals = {}
  ThrVals = {}
  CpuCounts = {}
  CpuPcts = {}
  Cores = {}
  OtherVals = {}
  Paths = {}
INVARIANTS TypeOK InvMem InvThr InvSet InvFitsOrNamed
POSTCONDITION Accepted
CHECK_DEADLOCK FALSE
