--------------------------- MODULE RegistryViewMC2 ---------------------------
(* the large view universes (kept out of RegistryViewMC: TLC evaluates every constant definition at start-up) *)
EXTENDS RegistryViewMC

\* thorough universe: every single shape x access, and every pair of shapes that interact (same storage path,
\* whole-map + placeholder, nested + sibling, same parent map) x accesses; both orders where the rule order can
\* matter (Unset walks the rules in order).  Independent rules only repeat the single-shape behaviour.
Pairs(X, Y) == {<<x, y>> : x \in X, y \in Y}
SA == {ShA(a) : a \in Acc}
SF == {ShF(a) : a \in Acc}
SC == {ShC(a) : a \in Acc}
SCk == {ShCk(a) : a \in Acc}
SD == {ShD(a, b) : a \in Acc, b \in Acc}
SDq == {ShDq(a) : a \in Acc}
SE == {ShE(a) : a \in Acc}
SEk == {ShEk(a) : a \in Acc}
SH == {ShH(a) : a \in Acc}
SKz == {ShKz(a) : a \in Acc}
SExk == {ShExk(a) : a \in Acc}
Views2 == {v \in {<<x>> : x \in Shapes1}
                 \cup Pairs(SA, SF) \cup Pairs(SC, SCk) \cup Pairs(SCk, SC) \cup Pairs(SD, SDq) \cup Pairs(SDq, SD)
                 \cup Pairs(SD, SH) \cup Pairs(SE, SEk) \cup Pairs(SEk, SE) \cup Pairs(SDq, SH)
                 \cup Pairs(SKz, SEk) \cup Pairs(SKz, SExk) \cup Pairs(SEk, SExk) \cup Pairs(SExk, SEk) : ValidView(v)}
Views3 == {v \in {Append(w, x) : w \in ViewsQuick, x \in Shapes1} : ValidView(v)}


ViewsUpTo3 == Views2 \cup Views3
=============================================================================
