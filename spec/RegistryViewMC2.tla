--------------------------- MODULE RegistryViewMC2 ---------------------------
(* the large view universes (kept out of RegistryViewMC: TLC evaluates every constant definition at start-up) *)
EXTENDS RegistryViewMC

\* every sequence of <= 2 shapes x accesses (order matters for Unset) that registry.New accepts; <= 3 for simulation
Views2 == {v \in {<<x>> : x \in Shapes1} \cup {<<x, y>> : x \in Shapes1, y \in Shapes1} : ValidView(v)}
Views3 == {v \in {Append(w, x) : w \in ViewsQuick, x \in Shapes1} : ValidView(v)}


ViewsUpTo3 == Views2 \cup Views3
=============================================================================
