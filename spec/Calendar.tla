------------------------------ MODULE Calendar ------------------------------
(* A concrete proleptic-Gregorian calendar on integers, UTC, no DST.          *)
(* Day 0 is 2018-01-01 (a Monday).  Covers Y0 .. Y0+NYears-1.                 *)
(* Everything here is constant-level: TLC evaluates the tables once.          *)
(* Weekday numbering follows Go's time.Weekday: Sunday=0 .. Saturday=6.       *)
EXTENDS Integers, Sequences, FiniteSets, TLC

Y0     == 2018
NYears == 10                      \* 2018 .. 2027
NM     == NYears * 12

IsLeap(y) == (y % 4 = 0 /\ y % 100 # 0) \/ y % 400 = 0

\* table of month lengths (the only calendar "axiom")
MonthLen(y, m) ==
    CASE m = 2 -> IF IsLeap(y) THEN 29 ELSE 28
      [] m \in {4, 6, 9, 11} -> 30
      [] OTHER -> 31

YearOfIdx(i)  == Y0 + (i - 1) \div 12         \* month index 1..NM
MonthOfIdx(i) == ((i - 1) % 12) + 1

\* MonthStart[i] = day number of the first day of month index i; MonthStart[NM+1] = number of days
\* (written without recursion so that TLC treats the tables as constants and evaluates them once)
DaysBeforeYear(y) == 365 * (y - Y0) + Cardinality({yy \in Y0..(y - 1) : IsLeap(yy)})
DaysBeforeMonth(y, m) == LET cum == <<0, 31, 59, 90, 120, 151, 181, 212, 243, 273, 304, 334>> IN
                         cum[m] + (IF m > 2 /\ IsLeap(y) THEN 1 ELSE 0)
MonthStart == TLCEval([i \in 1..(NM + 1) |-> DaysBeforeYear(YearOfIdx(i)) + DaysBeforeMonth(YearOfIdx(i), MonthOfIdx(i))])
\* the month-length table is consistent with the cumulative one
MonthLenConsistent == \A i \in 1..NM : MonthStart[i + 1] - MonthStart[i] = MonthLen(YearOfIdx(i), MonthOfIdx(i))
NDays == MonthStart[NM + 1]

MonthIdxOfDay(d) == CHOOSE i \in 1..NM : MonthStart[i] <= d /\ d < MonthStart[i + 1]

\* per-day table: weekday, day of month, month length, month, year
DayInfo == TLCEval([d \in 0..(NDays - 1) |->
              LET mi == MonthIdxOfDay(d) IN
              [wd   |-> (d + 1) % 7,
               dom  |-> d - MonthStart[mi] + 1,
               mlen |-> MonthStart[mi + 1] - MonthStart[mi],
               mon  |-> MonthOfIdx(mi),
               year |-> YearOfIdx(mi)]])

InCalendar(d) == d >= 0 /\ d < NDays

Weekday(d)       == DayInfo[d].wd
DayOfMonth(d)    == DayInfo[d].dom
\* the d-th day is the NthInMonth(d)-th occurrence of its weekday in its month
NthInMonth(d)    == (DayInfo[d].dom - 1) \div 7 + 1
\* ... and the last occurrence of its weekday in its month
IsLastInMonth(d) == DayInfo[d].dom + 7 > DayInfo[d].mlen

\* "pos" of a numbered weekday: 1..4 = n-th occurrence, 5 = last occurrence (4th or 5th)
PosMatches(d, pos) == IF pos = 5 THEN IsLastInMonth(d) ELSE NthInMonth(d) = pos

\* sanity of the table (checked by TLC at start-up wherever the module is used)
ASSUME /\ NDays = 3652
       /\ MonthLenConsistent
       /\ DayInfo[0] = [wd |-> 1, dom |-> 1, mlen |-> 31, mon |-> 1, year |-> 2018]
       /\ DayInfo[789].mon = 2 /\ DayInfo[789].dom = 29 /\ DayInfo[789].year = 2020 /\ DayInfo[789].wd = 6
       /\ DayInfo[207].mon = 7 /\ DayInfo[207].dom = 27 /\ DayInfo[207].wd = 5 /\ NthInMonth(207) = 4
          /\ IsLastInMonth(207)            \* 2018-07-27, 4th and last Friday of July 2018
=============================================================================
