---------------------------- MODULE RevEpochTable ----------------------------
(* C35 T->I: tabulate the reference (part VERIF_PART: rev | epoch | canread | all) into IOEnv.VERIF_OUT.
   The inputs are part of the table, so the Go driver evaluates the real code on exactly this domain. *)
EXTENDS RevEpoch
TInit == x = <<"rev", 1>>
ASSUME WriteTable
=============================================================================
