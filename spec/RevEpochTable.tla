---------------------------- MODULE RevEpochTable ----------------------------
(* C35 T->I: tabulate the reference into IOEnv.VERIF_OUT: the sections selected by VERIF_KINDS (rev 1,
   str 2, ep 4, cr 8), epochs VERIF_LO..VERIF_HI. The inputs are part of the table, so the Go driver
   evaluates the real code on exactly this domain.
   Configs: RevEpochTable.cfg (table only) or RevEpoch_mc.cfg (props/c35.py: the law invariants are
   checked on the same inputs in the same JVM). *)
EXTENDS RevEpoch
TInit == x = <<"rev", 1>>
ASSUME WriteTable
=============================================================================
