---------------------- MODULE TraceRestartBoundary ----------------------
(***************************************************************************)
(* Validates event logs recorded from the REAL restart manager + task      *)
(* engine (harness/ext/restartmgr) against RestartBoundary.                *)
(*                                                                         *)
(* Two modes (IOEnv.VERIF_MODE):                                           *)
(*  "precise"    every logged critical section must be a step of the       *)
(*               RestartBoundary action for that event, lead to the logged *)
(*               post-state and make exactly the logged restart requests / *)
(*               classic announcements / boot callbacks;                   *)
(*  "permissive" the logged post-state is taken as is.                     *)
(* In both modes the property oracles A_E03a..e are evaluated on the REAL  *)
(* data: real task/change statuses, real HandleRestart calls with the      *)
(* status snapshot taken at the instant of the call, real task log lines,  *)
(* real persisted keys.  One file holds many executions ("Init" resets).   *)
(***************************************************************************)
EXTENDS RestartBoundary, IOUtils, Json

VARIABLES l,
          r_chgst,     \* real Change.Status() per change
          t_owed,      \* ghost over real events: a system restart was scheduled and not yet consumed
          t_expecting, \* ghost over real events: a system restart was requested during the current boot
          o_a, o_busy, o_spur, o_c, o_d, o_e, o_stuck

ovars == <<l, r_chgst, t_owed, t_expecting, o_a, o_busy, o_spur, o_c, o_d, o_e, o_stuck>>
tvars == <<rvars, ovars>>

Trace == ndJsonDeserialize(IOEnv.VERIF_TRACE)
Precise == IOEnv.VERIF_MODE = "precise"
TN == atoi(IOEnv.VERIF_TN)
TNC == atoi(IOEnv.VERIF_TNC)

E == Trace[l]
IsEv(e) == l <= Len(Trace) /\ Trace[l].ev = e /\ l' = l + 1
SeqRange(s) == {s[i] : i \in DOMAIN s}

\* ---- the logged post-state
PostStatus == [t \in Tasks |-> E.st.status[t]]
PostWaited == [t \in Tasks |-> E.st.waited[t]]
PostAt     == [t \in Tasks |-> E.st.at[t]]
PostRdy    == [c \in Changes |-> E.st.rdy[c]]
PostPend   == [c \in Changes |-> E.st.pend[c]]
PostWfsr   == [c \in Changes |-> E.st.wfsr[c]]
PostWB     == [t \in Tasks |-> E.st.wb[t]]
PostChgSt  == [c \in Changes |-> E.st.chgst[c]]

PostMatches ==
  /\ status' = PostStatus
  /\ waited' = PostWaited
  /\ atTime' = PostAt
  /\ clean' = SeqRange(E.st.clean)
  /\ now' = E.st.now
  /\ running' = SeqRange(E.st.running)
  /\ rdy' = PostRdy
  /\ stopped' = E.st.stopped
  /\ pend' = PostPend
  /\ wfsr' = PostWfsr
  /\ waitBoot' = PostWB
  /\ fromBoot' = E.st.from
  /\ bootId' = E.st.boot
  /\ started' = E.st.started
  /\ called' = SeqRange(E.st.called)

\* permissive: TaskEngine's and RestartBoundary's own bookkeeping is left alone
KeepSpecMon ==
  /\ UNCHANGED <<graphVars, rFixed, lobs, rMon>>
  /\ UNCHANGED <<everDone, everUndone, failedDo, failedUndo, aborted, budget, c02bad, redoBad, panicked>>

\* ---- real requests / announcements of this section, with idleness evaluated on the real snapshot
SnapFn(s) == [t \in Tasks |-> s[t]]
RealRq == [i \in DOMAIN E.rq |-> [c |-> E.rq[i].c, ty |-> E.rq[i].ty,
                                  idle |-> IF E.rq[i].c \in Changes THEN Idle(SnapFn(E.rq[i].snap), E.rq[i].c) ELSE FALSE]]
RealNt == [i \in DOMAIN E.nt |-> [c |-> E.nt[i].c,
                                  idle |-> IF E.nt[i].c \in Changes THEN Idle(SnapFn(E.nt[i].snap), E.nt[i].c) ELSE FALSE]]
Strip(rq) == {[c |-> rq[i].c, ty |-> rq[i].ty] : i \in DOMAIN rq}
RqMatches(m) ==      \* the spec's section made exactly the real requests and announcements
  /\ Len(m.rq) = Len(E.rq) /\ Strip(m.rq) = Strip(RealRq)
  /\ Len(m.nt) = Len(E.nt) /\ {m.nt[i].c : i \in DOMAIN m.nt} = {E.nt[i].c : i \in DOMAIN E.nt}

\* restart.PendingForChange as documented ("has tasks that are set to wait pending a manual system restart";
\* a waiting task counts when it has no successor or a successor that still needs doing / undoing)
PendingForChangeOn(st, wd, wb, wf, rd, boot, c) ==
  /\ ~rd[c] /\ wf[c]
  /\ \E t \in TasksOf(c) :
       /\ st[t] = "Wait" /\ wb[t] # 0 /\ wb[t] = boot
       /\ \/ wd[t] \in {"Do", "Done"} /\ (Halts(t) = {} \/ \E d \in Halts(t) : st[d] = "Do")
          \/ wd[t] \in {"Undo", "Undone"} /\ (waits[t] = {} \/ \E d \in waits[t] : st[d] = "Undo")
PostConforms ==      \* precise mode only: conformance of derived observations, not a property
  /\ \A c \in Changes : E.st.pfc[c] = PendingForChangeOn(PostStatus, PostWaited, PostWB, PostWfsr, PostRdy, E.st.boot, c)
  /\ \A c \in Changes : E.st.chgst[c] = ChgStatus(PostStatus, c)
  /\ \A t \in Tasks : SeqRange(E.st.mark[t]) = boundary[t]

\* ---- oracles on real data (both modes) -----------------------------------
Oracles(sc, uc) ==
  /\ r_chgst' = PostChgSt
  /\ t_owed' = OwedAfter(t_owed, sc, uc, RealRq, RealNt)
  /\ o_spur' = (o_spur \/ SpurIn(t_owed, sc, uc, RealRq, RealNt) \/ E.ntfile # Len(E.nt))
  /\ o_busy' = (o_busy \/ BusyIn(RealRq, RealNt))
KeepO == /\ o_a' = o_a /\ o_c' = o_c /\ o_d' = o_d /\ o_e' = o_e /\ o_stuck' = o_stuck
KeepExpecting == t_expecting' = (t_expecting \/ SysReqs(RealRq) # {})

-----------------------------------------------------------------------------
TInitEv ==
  /\ IsEv("Init")
  /\ waits' = [t \in Tasks |-> SeqRange(E.g.waits[t])]
  /\ lanes' = [t \in Tasks |-> E.g.lanes[t]]
  /\ hasUndo' = [t \in Tasks |-> E.g.undo[t]]
  /\ chgOf' = [t \in Tasks |-> E.g.chg[t]]
  /\ kind' = [t \in Tasks |-> E.g.kind[t]]
  /\ snap' = [t \in Tasks |-> E.g.snap[t]]
  /\ classic' = E.g.classic
  /\ boundary' = [t \in Tasks |-> SeqRange(E.g.bound[t])]
  /\ PostMatches
  /\ lobs' = [c \in Changes |-> "Default"]
  /\ panicked' = FALSE /\ c02bad' = FALSE /\ redoBad' = FALSE
  /\ everDone' = {} /\ everUndone' = {} /\ failedDo' = {} /\ failedUndo' = {} /\ aborted' = {}
  /\ budget' = [fail |-> 0, retry |-> 0, wait |-> 0, restart |-> 0, abort |-> 0]
  /\ owed' = [c \in Changes |-> FALSE] /\ expecting' = FALSE /\ bootCb' = E.cb
  /\ rbudget' = [calls |-> 0, boots |-> 0]
  /\ a_bad' = FALSE /\ b_busy' = FALSE /\ b_spur' = FALSE /\ c_bad' = FALSE /\ d_bad' = FALSE /\ e_bad' = FALSE
  /\ r_chgst' = PostChgSt
  /\ t_owed' = [c \in Changes |-> FALSE] /\ t_expecting' = FALSE
  \* "no reboot was expected at all" -> RebootAsExpected
  /\ o_e' = (o_e \/ E.cb # "as-expected")
  /\ o_a' = o_a /\ o_busy' = o_busy /\ o_spur' = o_spur /\ o_c' = o_c /\ o_d' = o_d /\ o_stuck' = o_stuck

TEnsure ==
  /\ IsEv("Ensure")
  /\ IF Precise
     THEN /\ \E order \in Perms :
                /\ LET r == RPassResult(order) IN
                      r.m.st = PostStatus /\ r.run = SeqRange(E.st.running) /\ RqMatches(r.m)
                /\ REnsureWith(order)
          /\ PostMatches
          /\ PostConforms
     ELSE PostMatches /\ KeepSpecMon
  /\ Oracles(0, 0) /\ KeepO /\ KeepExpecting

TFinish ==
  /\ IsEv("Finish")
  /\ IF Precise
     THEN /\ RFinish(E.t, E.res, E.after, "Done") /\ PostMatches /\ UNCHANGED budget
          /\ RqMatches(RFinishEffect(E.t, E.res, E.after, "Done").m)
          /\ PostConforms
     ELSE PostMatches /\ KeepSpecMon
  /\ Oracles(0, 0) /\ KeepO /\ KeepExpecting

TAbort ==
  /\ IsEv("Abort")
  /\ IF Precise
     THEN /\ RUserAbortCore(E.c) /\ PostMatches /\ UNCHANGED budget
          /\ RqMatches(RAbortAll(RMem, E.c))
          /\ PostConforms
     ELSE PostMatches /\ KeepSpecMon
  /\ Oracles(0, 0) /\ KeepO /\ KeepExpecting

\* the real Change.Abort panicked ("change ... unexpectedly became unready": the known finding recorded for C03,
\* not an E03 matter). Conformance: the specification predicts that panic for this abort. The real state is
\* left half-way through the abort and the case ends here (the next line is an Init).
TAbortPanic ==
  /\ IsEv("AbortPanic")
  /\ Precise => (started /\ ~rdy[E.c] /\ RAbortAll(RMem, E.c).pan)
  /\ panicked' = TRUE
  /\ UNCHANGED <<graphVars, stateVars, c02bad, redoBad, everDone, everUndone, failedDo, failedUndo, aborted, budget>>
  /\ UNCHANGED <<rFixed, rState, rMon>>
  /\ UNCHANGED <<r_chgst, t_owed, t_expecting, o_a, o_busy, o_spur, o_c, o_d, o_e, o_stuck>>

TTick ==
  /\ IsEv("Tick")
  /\ PostMatches /\ KeepSpecMon
  /\ Precise => (status' = status /\ waited' = waited /\ atTime' = atTime /\ running' = running /\ rdy' = rdy
                 /\ now' >= now /\ pend' = pend /\ wfsr' = wfsr /\ waitBoot' = waitBoot /\ fromBoot' = fromBoot
                 /\ bootId' = bootId /\ E.rq = <<>> /\ E.nt = <<>>)
  /\ Oracles(0, 0) /\ KeepO /\ KeepExpecting

THRestart ==
  /\ IsEv("HRestart")
  /\ LET t == E.t
         c == chgOf[t]
         sys == E.how = "finish" /\ E.ty \in SysTypes
         sc == IF sys THEN c ELSE 0
         uc == IF classic /\ E.p = "Undoing" /\ (E.how = "waitfor" \/ sys) THEN c ELSE 0
         q  == [st |-> PostStatus, wd |-> PostWaited, wb |-> PostWB, wf |-> PostWfsr, pend |-> PostPend, lg |-> E.lg]
     IN
     /\ IF Precise
        THEN /\ E.p = status[t] /\ E.s = PassedStatus(E.p) /\ E.cerr = ""
             /\ HRestart(t, E.how, E.ty) /\ PostMatches
             /\ LET m == HRestartMem(t, E.how, E.ty) IN RqMatches(m) /\ m.lg = E.lg
             /\ PostConforms
        ELSE PostMatches /\ KeepSpecMon
     /\ Oracles(sc, uc) /\ KeepExpecting
     /\ o_a' = (o_a \/ ~OutcomeOK(t, E.how, E.ty, E.p, E.s, q) \/ E.cerr # "")
     /\ o_d' = (o_d \/ ~DirOK(t, E.how, E.ty, E.p, E.s, q))
     /\ o_c' = o_c /\ o_e' = o_e /\ o_stuck' = o_stuck

TBoot ==
  /\ IsEv("Boot")
  /\ IF Precise
     THEN /\ Boot(E.b) /\ PostMatches /\ bootCb' = E.cb
          /\ E.rq = <<>> /\ E.nt = <<>>
          /\ PostConforms
     ELSE PostMatches /\ KeepSpecMon
  /\ Oracles(0, 0)
  /\ o_e' = (o_e \/ (E.cb = "did-not-happen") # (t_expecting /\ E.b = bootId) \/ E.cb \notin {"did-not-happen", "as-expected"})
  /\ t_expecting' = (t_expecting /\ E.b = bootId)
  /\ o_a' = o_a /\ o_c' = o_c /\ o_d' = o_d /\ o_stuck' = o_stuck

TStartUp ==
  /\ IsEv("StartUp")
  /\ IF Precise
     THEN /\ StartUp /\ PostMatches
          /\ RqMatches(StartUpChanges(RMem, 1, bootId))
          /\ PostConforms
     ELSE PostMatches /\ KeepSpecMon
  /\ Oracles(0, 0) /\ KeepExpecting
  /\ o_c' = (o_c \/ ~StartUpOK([st |-> PostStatus, wb |-> PostWB], bootId))
  /\ o_a' = o_a /\ o_d' = o_d /\ o_e' = o_e /\ o_stuck' = o_stuck

\* the driver's fair drain (every handler returns ok, the system is rebooted whenever tasks wait for it)
\* did not reach quiescence
TStuck ==
  /\ IsEv("Stuck")
  /\ o_stuck' = TRUE
  /\ UNCHANGED <<rvars, r_chgst, t_owed, t_expecting, o_a, o_busy, o_spur, o_c, o_d, o_e>>

TNext == TInitEv \/ TEnsure \/ TFinish \/ TAbort \/ TAbortPanic \/ TTick \/ THRestart \/ TBoot \/ TStartUp \/ TStuck

TInit ==
  /\ l = 1
  /\ waits = [t \in Tasks |-> {}]
  /\ lanes = [t \in Tasks |-> <<0>>]
  /\ hasUndo = [t \in Tasks |-> TRUE]
  /\ chgOf = [t \in Tasks |-> 1]
  /\ kind = [t \in Tasks |-> "neutral"]
  /\ snap = [t \in Tasks |-> 0]
  /\ InitState
  /\ classic = FALSE
  /\ boundary = [t \in Tasks |-> {}]
  /\ RInitState
  /\ r_chgst = [c \in Changes |-> "Do"]
  /\ t_owed = [c \in Changes |-> FALSE] /\ t_expecting = FALSE
  /\ o_a = FALSE /\ o_busy = FALSE /\ o_spur = FALSE /\ o_c = FALSE /\ o_d = FALSE /\ o_e = FALSE /\ o_stuck = FALSE

TSpec == TInit /\ [][TNext]_tvars

Accepted == TLCGet("stats").diameter - 1 = Len(Trace)

\* ---- invariants, grouped by property (all over REAL data) -----------------
A_E03a == ~o_a /\ \A c \in Changes : r_chgst[c] = "Wait" => Idle(status, c)
A_E03b == ~o_busy /\ ~o_spur /\ \A c \in Changes : t_owed[c] => ~CanNeedRestart(r_chgst[c])
A_E03c == ~o_c /\ E03c_NoStaleWait /\ ~o_stuck
A_E03d == ~o_d
A_E03e == ~o_e
A_E03 == A_E03a /\ A_E03b /\ A_E03c /\ A_E03d /\ A_E03e
\* spec-side monitors stay clean too (precise mode: the spec's own bookkeeping over the real run)
SpecMonR == panicked \/ E03
=============================================================================
