---------------------------- MODULE DesktopInstall ----------------------------
(* C27, the install step as a state machine: a snap (or two: with and without instance key) ships up to
   MaxFiles desktop files; ONE call of EnsureSnapDesktopFiles installs all of them.  The call is modelled at the
   grain of deriveDesktopFilesContent: SanitizeNext sanitizes the next shipped file and keeps the result in
   memory (`pending`), WriteAll (EnsureDirState) installs everything that is pending.  Invariants: what is kept
   pending for file i stays the sanitizer's output of file i while later files are sanitized
   (InvPendingStable: the results do not share storage), and every installed file satisfies the four clauses
   of the statement (the InvInstalled... invariants). *)
EXTENDS DesktopSanitize

CONSTANTS MaxFiles,       \* shipped files per call
          MaxFileLen,     \* lines per shipped file
          FileFnames      \* file-name variants used

VARIABLES shipped,    \* sequence of [fname, inst, lines]
          pending,    \* results kept in memory by the running call (sequence of outputs)
          installed,  \* file index -> installed content (<< >> before the call has written)
          phase       \* "ship" | "sanitize" | "done"
ivars == <<shipped, pending, installed, phase>>
allvars == <<vars, ivars>>

LinesUpTo(fn) == UNION { [1..n -> {c \in Classes : (c \o "/" \o fn) \notin ExcludedPairs}] : n \in 0..MaxFileLen }
FileDomain == UNION { { [fname |-> fn, inst |-> i, lines |-> ls] : i \in BOOLEAN, ls \in LinesUpTo(fn) } : fn \in FileFnames }

IInit == /\ lines = << >> /\ inst = FALSE /\ fname = "other" /\ out = << >> /\ stopped = FALSE
         /\ shipped = << >> /\ pending = << >> /\ installed = << >> /\ phase = "ship"

Ship == /\ phase = "ship" /\ Len(shipped) < MaxFiles
        /\ \E f \in FileDomain : shipped' = Append(shipped, f)
        /\ UNCHANGED <<vars, pending, installed, phase>>

StartCall == /\ phase = "ship" /\ shipped # << >>
             /\ phase' = "sanitize"
             /\ UNCHANGED <<vars, shipped, pending, installed>>

SanitizeNext == /\ phase = "sanitize" /\ Len(pending) < Len(shipped)
                /\ LET f == shipped[Len(pending) + 1] IN
                      pending' = Append(pending, Sanitize(f.lines, f.inst, f.fname))
                /\ UNCHANGED <<vars, shipped, installed, phase>>

WriteAll == /\ phase = "sanitize" /\ Len(pending) = Len(shipped)
            /\ installed' = pending
            /\ phase' = "done"
            /\ UNCHANGED <<vars, shipped, pending>>

INext == Ship \/ StartCall \/ SanitizeNext \/ WriteAll
ISpec == IInit /\ [][INext]_allvars

InvPendingStable == \A i \in 1..Len(pending) : pending[i] = Install(shipped)[i]
InvInstallIsFunctionOfFile == phase = "done" => installed = Install(shipped)

InvInstalledOnlyAllowlisted  == \A i \in 1..Len(installed) : OnlyAllowlisted(installed[i])
InvInstalledExecIsOwnWrapper == \A i \in 1..Len(installed) : ExecIsOwnWrapper(installed[i], shipped[i].fname)
InvInstalledIconInsideSnap   == \A i \in 1..Len(installed) : IconInsideSnap(installed[i])
InvInstalledTagged           == \A i \in 1..Len(installed) : Tagged(installed[i], shipped[i].inst)
=============================================================================
