\* C26 thorough (root module: ApiAccessTable, which EXTENDS ApiAccess and exports the decision table)
CONSTANTS
  Creds = {"valid", "missing", "garbage", "trailing", "leading", "nopid", "nouid"}
  Users = {"none", "valid", "garbage", "removed", "forged"}
  Conns = {"none", "activeListed", "bothListed", "activeOther", "undesired", "hotplugGone", "otherSnap", "slotSide", "notSnap", "badRef"}
SPECIFICATION Spec
INVARIANTS
  TypeOK
  InvDecided
  InvNoCreds
  InvSnapSocket
  InvRootOnly
  InvAuthenticated
  InvUnknownSocket
  InvPolkitOnlyYes
CHECK_DEADLOCK FALSE
