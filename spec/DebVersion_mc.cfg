\* C33 laws on the reference. Domain bound: VERIF_MAXLEN (IOEnv), default 2 (91 strings, 753 571 triples).
INIT Init
NEXT Next
CHECK_DEADLOCK FALSE
INVARIANT Reflexive
INVARIANT Antisymmetric
INVARIANT Transitive
INVARIANT EqCongruent
INVARIANT EpochRejected
INVARIANT TildeFirst
INVARIANT NumericParts
INVARIANT RevisionSplit
