\* thorough exhaustive: 2 transactions x (Begin + <=3 Set/Get/Commit) = 4 operations each, interleaved in every order,
\* 8-entry write menu, 1 snap, 1 revision, <=1 snapshot operation anywhere
INIT Init
NEXT Next
CONSTANTS
  t1 = t1
  t2 = t2
  Txns = {t1, t2}
  Snaps = {"core"}
  Revs = {1}
  SetMenu <- Menu8
  GetPaths <- GetOne
  ChkPaths <- PathsUpTo3
  MaxOps = 3
  MaxRevOps = 1
SYMMETRY TxnSym
VIEW mcview
INVARIANTS ReadYourWrites NoLostUpdate SnapshotExact NoNullsCommitted TypeOK
PROPERTY Isolation
CHECK_DEADLOCK FALSE
