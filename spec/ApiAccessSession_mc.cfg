\* C26 sessions, quick (root module: ApiAccessSessionTable): 4 users, every login/logout history of <= 8 operations
CONSTANTS
  MaxUsers = 4
  MaxOps = 8
SPECIFICATION Spec
INVARIANTS
  TypeOK
  InvOnlyLoggedIn
  InvStillRecognised
  InvLogoutExact
CHECK_DEADLOCK FALSE
