INIT Init
NEXT Next
