------------------------------- MODULE Naming -------------------------------
(***************************************************************************)
(* C24 -- which snap / instance / component names and security tags are    *)
(* valid.  One definition that the daemon (snap/naming, snap), snap-confine*)
(* (libsnap-confine-private/snap.c) and snap-update-ns (bootstrap.c) must  *)
(* all implement.                                                          *)
(*                                                                         *)
(* Strings are RUN-LENGTH ENCODED: a sequence of runs [c |-> ch, n |-> k], *)
(* k >= 1, adjacent runs have different ch (canonical form; Cat keeps it). *)
(* ch is a one-character string for printable ASCII, any other token (e.g. *)
(* "<e9>") stands for a byte outside every class.  All predicates are      *)
(* defined on runs, so strings of length 40/41, 51/52, 256/257 cost the    *)
(* same as short ones.                                                     *)
(***************************************************************************)
EXTENDS Naturals, Sequences, FiniteSets, TLC

Lower == {"a","b","c","d","e","f","g","h","i","j","k","l","m","n","o","p","q","r","s","t","u","v","w","x","y","z"}
Upper == {"A","B","C","D","E","F","G","H","I","J","K","L","M","N","O","P","Q","R","S","T","U","V","W","X","Y","Z"}
Digit == {"0","1","2","3","4","5","6","7","8","9"}
LowerDigit == Lower \cup Digit
Alnum == Lower \cup Upper \cup Digit

Run(ch, k) == [c |-> ch, n |-> k]
Str1(ch) == <<Run(ch, 1)>>

\* canonical concatenation
Cat(s, t) ==
    IF s = <<>> THEN t ELSE IF t = <<>> THEN s
    ELSE IF s[Len(s)].c = t[1].c
         THEN SubSeq(s, 1, Len(s) - 1) \o <<Run(t[1].c, s[Len(s)].n + t[1].n)>> \o Tail(t)
         ELSE s \o t

RECURSIVE Norm(_)       \* canonical form of an arbitrary run sequence (inputs from files)
Norm(s) == IF s = <<>> THEN <<>> ELSE Cat(<<s[1]>>, Norm(Tail(s)))

RECURSIVE FromChars(_)  \* a sequence of characters as a canonical RLE string
FromChars(cs) == IF cs = <<>> THEN <<>> ELSE Cat(Str1(Head(cs)), FromChars(Tail(cs)))

RECURSIVE SLen(_)
SLen(s) == IF s = <<>> THEN 0 ELSE s[1].n + SLen(Tail(s))

AllIn(s, S)  == \A i \in DOMAIN s : s[i].c \in S
HasChar(s, S) == \E i \in DOMAIN s : s[i].c \in S
FirstC(s) == s[1].c
LastC(s)  == s[Len(s)].c
HasDoubleDash(s) == \E i \in DOMAIN s : s[i].c = "-" /\ s[i].n >= 2

\* index of the first run of character ch, 0 if none
IndexOf(s, ch) == IF \E i \in DOMAIN s : s[i].c = ch
                  THEN CHOOSE i \in DOMAIN s : s[i].c = ch /\ \A j \in 1..(i - 1) : s[j].c # ch
                  ELSE 0
\* the string before / after the FIRST character of run i
Before(s, i) == SubSeq(s, 1, i - 1)
After1(s, i) == (IF s[i].n > 1 THEN <<Run(s[i].c, s[i].n - 1)>> ELSE <<>>) \o SubSeq(s, i + 1, Len(s))

---------------------------------------------------------------------------
(* Names *)

\* lower case letters, digits and dashes; no leading/trailing/double dash  (isValidName)
DashedName(s, first, rest) ==
    /\ s # <<>>
    /\ FirstC(s) \in first
    /\ AllIn(s, rest \cup {"-"})
    /\ LastC(s) # "-"
    /\ ~HasDoubleDash(s)

ValidSnapName(s) ==
    /\ DashedName(s, LowerDigit, LowerDigit)
    /\ HasChar(s, Lower)                      \* at least one letter
    /\ SLen(s) >= 2 /\ SLen(s) <= 40

ValidInstanceKey(k) == k # <<>> /\ AllIn(k, LowerDigit) /\ SLen(k) <= 10

\* name or name_key; everything after the FIRST underscore is the key
ValidInstanceName(s) ==
    LET i == IndexOf(s, "_")
    IN IF i = 0 THEN ValidSnapName(s)
       ELSE ValidSnapName(Before(s, i)) /\ ValidInstanceKey(After1(s, i))

SnapOfInstance(s) == LET i == IndexOf(s, "_") IN IF i = 0 THEN s ELSE Before(s, i)

\* "<snap>+<component>", both parts are snap-like names
ValidSnapComponent(s) ==
    LET i == IndexOf(s, "+")
    IN i # 0 /\ ValidSnapName(Before(s, i)) /\ ValidSnapName(After1(s, i))

ValidAppName(s)  == DashedName(s, Alnum, Alnum)         \* ^[a-zA-Z0-9](-?[a-zA-Z0-9])*$
ValidHookName(s) == DashedName(s, Lower, LowerDigit)    \* ^[a-z](-?[a-z0-9])*$

---------------------------------------------------------------------------
(* Security tags:  snap.<instance>.<app>  |  snap.<instance>[+<component>].hook.<hook> *)

Lit(cs)  == FromChars(cs)
SnapLit  == Lit(<<"s","n","a","p">>)
HookLit  == Lit(<<"h","o","o","k">>)
Dot      == Str1(".")
Plus     == Str1("+")

RECURSIVE SplitN(_, _, _)   \* strings.SplitN(s, ch, n)
SplitN(s, ch, n) ==
    LET i == IndexOf(s, ch)
    IN IF n <= 1 \/ i = 0 THEN <<s>> ELSE <<Before(s, i)>> \o SplitN(After1(s, i), ch, n - 1)

NoComp == [has |-> FALSE, s |-> <<>>]
Comp(s) == [has |-> TRUE, s |-> s]
BadTag == [ok |-> FALSE, kind |-> "none", inst |-> <<>>, comp |-> NoComp, name |-> <<>>]

ParseTag(t) ==
    LET parts == SplitN(t, ".", 5) IN
    IF Len(parts) \notin {3, 4} \/ parts[1] # SnapLit THEN BadTag
    ELSE LET p2   == parts[2]
             j    == IndexOf(p2, "+")
             inst == IF j = 0 THEN p2 ELSE Before(p2, j)
             comp == IF j = 0 THEN NoComp ELSE Comp(After1(p2, j))
         IN IF ~ValidInstanceName(inst) \/ (comp.has /\ ~ValidSnapName(comp.s)) THEN BadTag
            ELSE IF Len(parts) = 3
                 THEN IF comp.has \/ ~ValidAppName(parts[3]) THEN BadTag
                      ELSE [ok |-> TRUE, kind |-> "app", inst |-> inst, comp |-> NoComp, name |-> parts[3]]
                 ELSE IF parts[3] # HookLit \/ ~ValidHookName(parts[4]) THEN BadTag
                      ELSE [ok |-> TRUE, kind |-> "hook", inst |-> inst, comp |-> comp, name |-> parts[4]]

\* the tag is a valid tag of exactly this instance (and component / no component)
TagBelongs(t, inst, comp) ==
    LET p == ParseTag(t) IN p.ok /\ p.inst = inst /\ p.comp = comp

TagMaxLen == 256
TagInScope(t) == SLen(t) <= TagMaxLen       \* beyond it snap-confine refuses; the statement exempts those

\* what snap-confine's invocation check amounts to: the instance name is validated, then the
\* "<snap>+<component>" (if any) against it, then the tag against both
InvocationAccepts(t, inst, sc) ==
    /\ ValidInstanceName(inst)
    /\ sc.has => (ValidSnapComponent(sc.s) /\ Before(sc.s, IndexOf(sc.s, "+")) = SnapOfInstance(inst))
    /\ TagInScope(t)
    /\ TagBelongs(t, inst, IF sc.has THEN Comp(After1(sc.s, IndexOf(sc.s, "+"))) ELSE NoComp)

\* tags as the daemon generates them (AppInfo.SecurityTag / HookInfo.SecurityTag)
AppTag(inst, app) == Cat(Cat(Cat(Cat(SnapLit, Dot), inst), Dot), app)
HookTag(inst, comp, hook) ==
    Cat(Cat(Cat(Cat(Cat(Cat(SnapLit, Dot), IF comp.has THEN Cat(Cat(inst, Plus), comp.s) ELSE inst), Dot), HookLit), Dot), hook)

---------------------------------------------------------------------------
(* Verdict rows (what the three implementations are compared with) *)

NameRow(s) == [s |-> s, len |-> SLen(s),
               snap |-> ValidSnapName(s), inst |-> ValidInstanceName(s), comp |-> ValidSnapComponent(s),
               app |-> ValidAppName(s), hook |-> ValidHookName(s)]

\* q = [t, inst, comp (component name or NoComp)]
TagRow(q) ==
    LET p       == ParseTag(q.t)
        belongs == p.ok /\ p.inst = q.inst /\ p.comp = q.comp
        instok  == ValidInstanceName(q.inst)
        compok  == q.comp.has => ValidSnapName(q.comp.s)
        tlen    == SLen(q.t)
    IN [t |-> q.t, inst |-> q.inst, comp |-> q.comp, tlen |-> tlen,
        belongs |-> belongs, instok |-> instok, compok |-> compok,
        \* = InvocationAccepts(q.t, q.inst, <snap of inst>+<comp>): the snap part matches by construction
        inv |-> instok /\ compok /\ tlen <= TagMaxLen /\ belongs]
=============================================================================
