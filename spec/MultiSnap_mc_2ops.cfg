\* two consecutive changes (1 or 2 snaps each) from the empty system: the states a failed / partly failed change
\* leaves are the contexts of the next one
SPECIFICATION Spec
CONSTANTS
    Snaps <- Two
    SnapOrder <- Order2
    MaxRev = 3
    MaxOps = 2
    MaxTasks = 36
    MaxFaults = 1
    KindOpts <- KAll
    TxnOpts <- BoolFT
    SelSizes <- Sz12
    InstallRevs <- Rev1
    RefreshRevs <- Rev23
    RetainInit <- Ret2
    InitCtx <- CtxEmpty2
    OpFaults = TRUE
    Compact = TRUE
    Reduce = TRUE
INVARIANTS
    TypeOK
    FailedSnapRestored
    HealthySnapsComplete
    AllRevertedIfTransactional
    ConsistentAll
    ChangeErrorIffFailed
    LaneDiscipline
    EngineSane
CONSTRAINT StateConstraint
CHECK_DEADLOCK FALSE
