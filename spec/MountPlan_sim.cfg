\* behaviours for T->I replay (tlc -simulate): histories of the reference planner over the quick universe, up to 3 entries
SPECIFICATION Spec
CONSTANTS
  MaxUpdates = 3
  MaxEntries = 3
  KeepOrder = "forward"
  Size = "quick"
  StartRootfs = FALSE
CHECK_DEADLOCK FALSE
INVARIANTS
  InvResult
  InvKeptInPlace
  InvUnmountOrderTrue
  InvMountOrder
  InvUnmountStrandsNothing
