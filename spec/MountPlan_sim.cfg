\* behaviours for T->I replay (tlc -simulate): histories of the reference planner over the thorough universe
SPECIFICATION Spec
CONSTANTS
  MaxUpdates = 3
  MaxEntries = 3
  KeepOrder = "forward"
  Size = "thorough"
  StartRootfs = FALSE
CHECK_DEADLOCK FALSE
INVARIANTS
  InvResult
  InvKeptInPlace
  InvUnmountOrderTrue
  InvMountOrder
  InvUnmountStrandsNothing
