\* CPU quota + cpu-set: 2 groups, depth 3, count 0..2, percentage 50/100, cores {c0,c1,c2} (symmetric)
SPECIFICATION Spec
CONSTANTS
  MaxGroups = 2
  MaxDepth = 3
  MaxRoots = 1
  NCPU = 3
  MemVals = {}
  ThrVals = {}
  CpuCounts = {0, 1, 2}
  CpuPcts = {0, 50, 100}
  Cores = {c0, c1, c2}
  OtherVals = {TRUE}
  Paths = {"direct", "merged"}
VIEW View
SYMMETRY CoreSym
INVARIANTS TypeOK InvMem InvThr InvSet InvFitsOrNamed
CHECK_DEADLOCK FALSE
