\* C25 thorough: every argv of <=4 tokens (+ up to 2 trailing free words), every real command signature, both uid classes (root module: SnapctlTable, which EXTENDS Snapctl and exports the table)
CONSTANTS
  MaxCore = 4
  MaxPad = 2
SPECIFICATION Spec
INVARIANTS
  TypeOK
  InvNonRootReadOnly
  InvRootUnrestricted
  InvHelpOrFail
  InvGateOnlyFilters
CHECK_DEADLOCK FALSE
