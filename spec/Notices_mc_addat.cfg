\* witness for the documented non-claim (expected: ExactlyOnce violated): options.Time bypasses the bump
SPECIFICATION SpecPoll
CONSTANTS
  Users <- MCUsers1
  Types <- MCTypes1
  Keys <- MCKeys
  RepeatAfters = {0, 2}
  Data = {"d"}
  Clients <- MCClients
  CfgChoices <- MCCfgDeep
  ClockValues = {1, 3, 5, 7}
  MaxAdds = 4
  Bump = TRUE
  BroadcastRepeat = TRUE
  AddAtTimes = {1, 2}
  ClockRegress = FALSE
VIEW view
INVARIANTS
  ExactlyOnce
CHECK_DEADLOCK FALSE
