CONSTANTS
  Variant = "UC20grub"
  KRevs = {1}
  BRevs = {1}
  MaxCK = 3
  MaxFaults = 0
  ExcuseKnown = TRUE
INIT TabInit
NEXT TabNext
CHECK_DEADLOCK FALSE
