\* precise mode: VERIF_MODE=precise VERIF_TN=<N> VERIF_TNC=<NC> VERIF_TRACE=<file>
SPECIFICATION TSpec
CONSTANTS
  N <- TN
  NC <- TNC
  MaxFail = 0
  MaxRetry = 0
  MaxWaitRes = 0
  MaxTime = 0
  MaxRestart = 1000000
  MaxAbort = 0
  MaxBoot = 1000000
  MaxCalls = 1000000
  BoundaryChoices <- BoundNone
  ClassicChoices <- CoreOnly
  TypeChoices <- TypesAll
  DagChoices <- Chain
  BootAnywhere = TRUE
INVARIANTS A_E03a A_E03b A_E03c A_E03d A_E03e SpecMonR
POSTCONDITION Accepted
CHECK_DEADLOCK FALSE
