\* spec-level controls, run with -continue: which WriterSpec variant violates which invariant.
\* expected: good -> nothing; nodirsync -> only DurableWhenDone (not part of C06);
\* nosync, rename_first, wrongfd, inplace -> OldOrNew and NoEarlyExposure;
\* ignore_fsync_error (fault runs: at most MaxFaults calls fail) -> OldOrNew and NoEarlyExposure
SPECIFICATION WriterSpec
CONSTANTS
  MaxChunks = 2
  Variants = {"good", "nosync", "rename_first", "wrongfd", "inplace", "nodirsync", "ignore_fsync_error"}
  AnyNames = {"target", "tmp"}
  AnyFileFds = {1}
  AnyDirFds = {2}
  AnyChunks = 2
  AnyMaxInodes = 3
  AnyMaxHist = 4
  AnyMaxLen = 2
  AnyMaxSteps = 8
  AnyFaults = TRUE
  MaxFaults = 1
INVARIANTS TypeOK OldOrNew NoEarlyExposure DurableWhenDone
CHECK_DEADLOCK FALSE
