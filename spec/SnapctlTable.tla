---------------------------- MODULE SnapctlTable ----------------------------
(* T->I export for C25: every abstract argv within the bound of Snapctl.tla, for every real command   *)
(* signature (IOEnv.VERIF_SIGS), with the spec's outcome for a root and a non-root caller, as JSON     *)
(* (IOEnv.VERIF_OUT).  The Go driver instantiates each row for every real command of that signature    *)
(* and runs the real ctlcmd.Run on it.                                                                 *)
(* This module is the ROOT module of the model-checking runs (Snapctl_mc*.cfg): one JVM both checks    *)
(* the invariants of Snapctl.tla over the state machine and exports the same domain as a table; the    *)
(* check cross-checks  #rows * 2 uid classes = #distinct states.                                       *)
EXTENDS Snapctl, SequencesExt

RECURSIVE Core(_, _)
Core(s, k) ==
  IF k = 0 THEN { <<>> }
  ELSE UNION { { Append(a, t) : t \in { t2 \in Tokens : Applicable(s, a, t2) } } : a \in Core(s, k - 1) }

PadSeq(j) == [i \in 1..j |-> "A"]

Domain(s) ==
  LET full == Core(s, MaxCore) IN
  (UNION { Core(s, k) : k \in 0..(MaxCore - 1) }) \cup full
  \cup { a \o PadSeq(j) : a \in full, j \in 1..MaxPad }

Rows(s) == LET D == SetToSeq(Domain(s)) IN
  [i \in 1..Len(D) |-> [argv |-> D[i], user |-> Outcome("user", s, D[i]), root |-> Outcome("root", s, D[i])]]

Table == LET SigSeq == SetToSeq(Sigs) IN
         [readonly |-> SetToSeq(ReadOnly), tokens |-> SetToSeq(Tokens), maxcore |-> MaxCore,
          sigs |-> [i \in 1..Len(SigSeq) |-> [sig |-> SigSeq[i], rows |-> Rows(SigSeq[i])]]]

ASSUME JsonSerialize(IOEnv.VERIF_OUT, Table)
=============================================================================
