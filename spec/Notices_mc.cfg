\* C08 wide slice (quick): 2 users + public, 2 types, 2 keys, repeat-after {0,2}, clock {1,3,5}, 2 clients (user default / root users=all+type), <= 2 additions, no waiters
SPECIFICATION SpecPoll
CONSTANTS
  Users <- MCUsers
  Types <- MCTypes
  Keys <- MCKeys
  RepeatAfters = {0, 2}
  Data = {"d"}
  Clients <- MCClients
  CfgChoices <- MCCfgOne
  ClockValues = {1, 3, 5}
  MaxAdds = 2
  Bump = TRUE
  BroadcastRepeat = TRUE
  AddAtTimes = {}
  ClockRegress = FALSE
VIEW view
INVARIANTS
  TypeOK
  UniqueNotices
  ExactlyOnce
  InOrder
  NoPhantom
  Ownership
  PublicToAll
  RepeatAfterSuppression
  StrictTimes
  NoLostWakeup
PROPERTIES
  PollDrainsProp
  NoPhantomProp
  RepeatAfterProp
CHECK_DEADLOCK FALSE
