--------------------------- MODULE StateStore ---------------------------
(* Persisted state of snapd's overlord/state: changes, tasks, notices, warnings, top-level data, *)
(* id counters; the public mutators; Prune (C09) and SaveReload (C05).                            *)
(*                                                                                              *)
(* Time: integer "ticks"; one hour = TU ticks; the mocked clock (state.MockTime) is `clk` hours.  *)
(* The sub-hour part only ever holds the +1ns bumps AddNotice applies to keep timestamps unique.  *)
(* 0 is the zero time.  Prune / notice+warning expiry read the REAL clock, which the drivers pin  *)
(* at H hours (mocked instants are realNow-(H-h)h+30min, so real `Before` == integer `<`).        *)
EXTENDS Integers, Sequences, FiniteSets, TLC

CONSTANTS H,            \* the real "now" in hours (Prune, expiry)
          TU,           \* ticks per hour
          NoticeExpire, \* hours (code: 7 days)
          WarnExpire,   \* hours (code: 28 days)
          Keys,         \* data keys
          OPS,          \* enabled op families (model-checking configs restrict this)
          \* finite domains for Next (model checking / simulation only)
          ClockVals, StartVals, WaitVals, MaxVals, StatusVals, MaxChanges, MaxTasks, MaxLanes, Vals,
          MaxDepth, MaxOcc, PruneTerminal,
          Clk0          \* initial value of the mocked clock (hours)

VARIABLES changes, tasks, notices, warnings, kv,
          lastChange, lastTask, lastLane, lastNotice, lastNoticeTs,
          clk, registered,   \* runtime only: mocked clock, pending-predicate attrs
          issued,            \* history: every id ever handed out, per id space (sequences, in order)
          last               \* history: the op that led here (Prune parameters for the C09 properties)

pvars == <<changes, tasks, notices, warnings, kv, lastChange, lastTask, lastLane, lastNotice, lastNoticeTs>>
vars  == <<changes, tasks, notices, warnings, kv, lastChange, lastTask, lastLane, lastNotice, lastNoticeTs,
           clk, registered, issued, last>>

Statuses == {"Hold", "Do", "Doing", "Done", "Abort", "Undo", "Undoing", "Undone", "Error", "Wait"}
StatusOrder == <<"Abort", "Undoing", "Undo", "Doing", "Do", "Wait", "Error", "Undone", "Done", "Hold">>
Ready(s) == s \in {"Done", "Undone", "Hold", "Error"}
\* tasks keep the raw status: "Default" (never set) reads as Do, but SetStatus(Do) on it is not a no-op
Eff(s) == IF s = "Default" THEN "Do" ELSE s

Now == clk * TU
HT  == H * TU
NoData == [k \in Keys |-> ""]
NoProgress == [set |-> FALSE, label |-> "", done |-> 0, total |-> 0]
Range(s) == {s[i] : i \in DOMAIN s}
AddOnce(s, x) == IF x \in Range(s) THEN s ELSE Append(s, x)
Max(a, b) == IF a >= b THEN a ELSE b
\* function update that may extend the domain
Put(f, k, v) == [x \in DOMAIN f \cup {k} |-> IF x = k THEN v ELSE f[x]]
Drop(f, S) == [x \in DOMAIN f \ S |-> f[x]]

-----------------------------------------------------------------------------
(* Change.Status(): explicit override, else derived from the tasks.                              *)
(* isChangeWaiting / isTaskWaiting of change.go, for graphs where no Do task waits for an Undo   *)
(* task (the only way its traversal can revisit a task, see Sane): a pending task "is waiting"   *)
(* iff no dependency is running, every pending dependency is itself waiting, and at least one    *)
(* dependency is in Wait or pending.                                                             *)
RECURSIVE TaskWaiting(_, _, _)
TaskWaiting(T, deps, fuel) ==
    IF fuel = 0 THEN FALSE ELSE
    /\ \A i \in DOMAIN deps : Eff(T[deps[i]].status) \notin {"Doing", "Undoing", "Abort"}
    /\ \A i \in DOMAIN deps : Eff(T[deps[i]].status) = "Do"   => TaskWaiting(T, T[deps[i]].waits, fuel - 1)
    /\ \A i \in DOMAIN deps : Eff(T[deps[i]].status) = "Undo" => TaskWaiting(T, T[deps[i]].halts, fuel - 1)
    /\ \E i \in DOMAIN deps : Eff(T[deps[i]].status) \in {"Wait", "Do", "Undo"}

ChangeWaiting(T, tids) ==
    \A i \in DOMAIN tids : LET t == T[tids[i]] IN
        /\ Eff(t.status) \notin {"Doing", "Undoing", "Abort"}
        /\ Eff(t.status) = "Do"   => TaskWaiting(T, t.waits, Cardinality(DOMAIN T) + 1)
        /\ Eff(t.status) = "Undo" => TaskWaiting(T, t.halts, Cardinality(DOMAIN T) + 1)

DerivedStatus(T, tids) ==
    IF Len(tids) = 0 THEN "Hold"
    ELSE LET sts == {Eff(T[tids[i]].status) : i \in DOMAIN tids} IN
         IF "Wait" \in sts /\ ChangeWaiting(T, tids) THEN "Wait"
         ELSE StatusOrder[CHOOSE i \in 1..10 : StatusOrder[i] \in sts /\ \A j \in 1..(i-1) : StatusOrder[j] \notin sts]

ChangeStatus(C, T, c) == IF C[c].status # "Default" THEN C[c].status ELSE DerivedStatus(T, C[c].tasks)

\* Graph sanity the drivers keep (and the model requires): edges of linked tasks point to existing tasks, no Do task
\* waits for an Undo task (else Change.Status() itself appends "detected cyclic dependencies" log lines).
Sane(T) == \A u \in DOMAIN T :
    /\ T[u].change # 0 => Range(T[u].waits) \cup Range(T[u].halts) \subseteq DOMAIN T
    /\ Eff(T[u].status) = "Do" => \A v \in Range(T[u].waits) \cap DOMAIN T : T[v].status # "Undo"

-----------------------------------------------------------------------------
(* Notices.  Key <<user, type, key>> (user -1 = public).                                         *)
NoticeExpired(n) == (n.last \div TU) + n.expire < H
WarnExpired(w)   == (w.last \div TU) + w.expire < H

\* the occurrence time AddNotice uses when no explicit time is given
NextNoticeTs == IF Now > lastNoticeTs THEN Now ELSE lastNoticeTs + 1

\* result of recording one occurrence: <<notices', lastNotice', id>>
Occur(N, ln, k, at, data, rep) ==
    IF k \in DOMAIN N
    THEN LET n == N[k]
             repeat == rep = 0 \/ at > n.rep + rep * TU
         IN <<[N EXCEPT ![k] = [n EXCEPT !.occ = n.occ + 1, !.rep = IF repeat THEN at ELSE n.rep,
                                          !.last = at, !.data = data, !.repeat = rep]], ln, n.id>>
    ELSE <<Put(N, k, [id |-> ln + 1, first |-> at, last |-> at, rep |-> at, occ |-> 1, data |-> data,
                      repeat |-> rep, expire |-> NoticeExpire]), ln + 1, ln + 1>>

ChangeKey(c) == <<-1, "change-update", ToString(c)>>
KindData(kind) == << <<"kind", kind>> >>

SkipNotice(old, new) == old = new \/ (old = "Doing" /\ new = "Do") \/ (old = "Undoing" /\ new = "Undo")

\* notifyStatusChange(cs) of change c, threaded through a state record S = [C, T, N, ln, lts]
Notify(S, c, cs) ==
    IF SkipNotice(S.C[c].lastNotice, cs) THEN S
    ELSE LET at == IF Now > S.lts THEN Now ELSE S.lts + 1
             o  == Occur(S.N, S.ln, ChangeKey(c), at, KindData(S.C[c].kind), 0)
         IN [S EXCEPT !.C = [S.C EXCEPT ![c].lastNotice = cs], !.N = o[1], !.ln = o[2], !.lts = at]

MarkReady(C, c) == [C EXCEPT ![c].isReady = TRUE, ![c].ready = IF C[c].ready = 0 THEN Now ELSE C[c].ready]

Cur == [C |-> changes, T |-> tasks, N |-> notices, ln |-> lastNotice, lts |-> lastNoticeTs]
Commit(S) == /\ changes' = S.C /\ tasks' = S.T /\ notices' = S.N
             /\ lastNotice' = S.ln /\ lastNoticeTs' = S.lts
             /\ issued' = IF S.ln > lastNotice THEN [issued EXCEPT !.notice = Append(@, S.ln)] ELSE issued

\* Task.changeStatus(old, new) with t.status already known to differ (raw) from new
OthersReady(S, c, t) == \A i \in DOMAIN S.C[c].tasks : S.C[c].tasks[i] = t \/ Ready(S.T[S.C[c].tasks[i]].status)

\* detectChangeReady panics ("change unexpectedly became unready") in this situation
WouldPanic(S1, c, t, old, new) ==
    /\ Ready(old) # Ready(new) /\ OthersReady(S1, c, t)
    /\ S1.C[c].isReady /\ ~Ready(ChangeStatus(S1.C, S1.T, c))

TaskStatusStep(S, t, new) ==   \* S1: task updated;  then the change reacts
    LET old == S.T[t].status
        S1  == [S EXCEPT !.T = [S.T EXCEPT ![t].status = new,
                                           ![t].ready = IF ~Ready(old) /\ Ready(new) THEN Now ELSE S.T[t].ready]]
        c   == S.T[t].change
    IN IF c = 0 THEN S1
       ELSE LET cs == ChangeStatus(S1.C, S1.T, c)
                S2 == IF Ready(old) # Ready(new) /\ OthersReady(S1, c, t)
                      THEN [S1 EXCEPT !.C = MarkReady(S1.C, c)] ELSE S1
            IN Notify(S2, c, cs)

StatusStepOK(S, t, new) ==
    LET old == S.T[t].status
        S1  == [S EXCEPT !.T = [S.T EXCEPT ![t].status = new]]
        c   == S.T[t].change
    IN /\ Sane(S1.T)
       /\ c # 0 => ~WouldPanic(S1, c, t, old, new)

-----------------------------------------------------------------------------
Init ==
    /\ changes = <<>> /\ tasks = <<>> /\ notices = <<>> /\ warnings = <<>> /\ kv = NoData
    /\ lastChange = 0 /\ lastTask = 0 /\ lastLane = 0 /\ lastNotice = 0 /\ lastNoticeTs = 0
    /\ clk = Clk0 /\ registered = {}
    /\ issued = [chg |-> <<>>, task |-> <<>>, lane |-> <<>>, notice |-> <<>>]

Tick(h) == /\ h >= 1 /\ clk' = h
           /\ UNCHANGED <<pvars, registered, issued>>

NewChange(kind, summary) ==
    LET id == lastChange + 1
        C1 == Put(changes, id, [kind |-> kind, summary |-> summary, status |-> "Default", clean |-> FALSE,
                                data |-> NoData, tasks |-> <<>>, spawn |-> Now, ready |-> 0,
                                lastNotice |-> "Default", isReady |-> FALSE])
        at == NextNoticeTs
        o  == Occur(notices, lastNotice, ChangeKey(id), at, KindData(kind), 0)
    IN /\ lastChange' = id /\ changes' = C1
       /\ notices' = o[1] /\ lastNotice' = o[2] /\ lastNoticeTs' = at
       /\ issued' = [issued EXCEPT !.chg = Append(@, id),
                                   !.notice = IF o[2] > lastNotice THEN Append(@, o[2]) ELSE @]
       /\ UNCHANGED <<tasks, warnings, kv, lastTask, lastLane, clk, registered>>

NewTask(kind, summary) ==
    LET id == lastTask + 1 IN
    /\ lastTask' = id
    /\ tasks' = Put(tasks, id, [kind |-> kind, summary |-> summary, status |-> "Default", waited |-> "Done",
                                clean |-> FALSE, progress |-> NoProgress, data |-> NoData, waits |-> <<>>,
                                halts |-> <<>>, lanes |-> <<>>, log |-> <<>>, change |-> 0, spawn |-> Now,
                                ready |-> 0, at |-> 0, doing |-> 0, undoing |-> 0])
    /\ issued' = [issued EXCEPT !.task = Append(@, id)]
    /\ UNCHANGED <<changes, notices, warnings, kv, lastChange, lastLane, lastNotice, lastNoticeTs, clk, registered>>

AddTask(c, t) ==
    /\ c \in DOMAIN changes /\ t \in DOMAIN tasks /\ tasks[t].change = 0
    /\ Range(tasks[t].waits) \cup Range(tasks[t].halts) \subseteq DOMAIN tasks   \* no edge to a pruned task
    /\ tasks' = [tasks EXCEPT ![t].change = c]
    /\ changes' = [changes EXCEPT ![c].tasks = AddOnce(@, t)]
    /\ UNCHANGED <<notices, warnings, kv, lastChange, lastTask, lastLane, lastNotice, lastNoticeTs, clk, registered, issued>>

WaitFor(a, b) ==
    /\ a \in DOMAIN tasks /\ b \in DOMAIN tasks /\ b < a      \* drivers only build acyclic graphs
    /\ LET T1 == [tasks EXCEPT ![a].waits = AddOnce(@, b), ![b].halts = AddOnce(@, a)]
       IN Sane(T1) /\ tasks' = T1
    /\ UNCHANGED <<changes, notices, warnings, kv, lastChange, lastTask, lastLane, lastNotice, lastNoticeTs, clk, registered, issued>>

NewLane ==
    /\ lastLane' = lastLane + 1
    /\ issued' = [issued EXCEPT !.lane = Append(@, lastLane + 1)]
    /\ UNCHANGED <<changes, tasks, notices, warnings, kv, lastChange, lastTask, lastNotice, lastNoticeTs, clk, registered>>

JoinLane(t, lane) ==
    /\ t \in DOMAIN tasks
    /\ tasks' = [tasks EXCEPT ![t].lanes = Append(@, lane)]
    /\ UNCHANGED <<changes, notices, warnings, kv, lastChange, lastTask, lastLane, lastNotice, lastNoticeTs, clk, registered, issued>>

\* Task.SetStatus(new), new # Wait
SetStatus(t, new) ==
    /\ t \in DOMAIN tasks /\ new \in Statuses \ {"Wait"}
    /\ LET old == tasks[t].status IN
       IF (new = "Done" /\ old = "Abort") \/ old = new
       THEN UNCHANGED <<changes, tasks, notices, lastNotice, lastNoticeTs, issued>>
       ELSE StatusStepOK(Cur, t, new) /\ Commit(TaskStatusStep(Cur, t, new))
    /\ UNCHANGED <<warnings, kv, lastChange, lastTask, lastLane, clk, registered>>

\* Task.SetToWait(result)
SetToWait(t, res) ==
    /\ t \in DOMAIN tasks /\ res \in Statuses \ {"Wait"}
    /\ LET old == tasks[t].status IN
       IF old = "Abort" THEN UNCHANGED <<changes, tasks, notices, lastNotice, lastNoticeTs, issued>>
       ELSE LET S0 == [Cur EXCEPT !.T = [tasks EXCEPT ![t].waited = res]] IN
            IF old = "Wait" THEN Commit(S0)
            ELSE StatusStepOK(S0, t, "Wait") /\ Commit(TaskStatusStep(S0, t, "Wait"))
    /\ UNCHANGED <<warnings, kv, lastChange, lastTask, lastLane, clk, registered>>

\* Change.SetStatus(s); s may be "Default" (back to the derived status)
ChangeSetStatus(c, s) ==
    /\ c \in DOMAIN changes /\ s \in Statuses \cup {"Default"}
    /\ LET C1 == [changes EXCEPT ![c].status = s]
           C2 == IF Ready(s) THEN MarkReady(C1, c) ELSE C1
           S1 == [Cur EXCEPT !.C = C2]
       IN Commit(Notify(S1, c, ChangeStatus(C2, tasks, c)))
    /\ UNCHANGED <<warnings, kv, lastChange, lastTask, lastLane, clk, registered>>

UNCH_IDS == UNCHANGED <<lastChange, lastTask, lastLane, lastNotice, lastNoticeTs, clk, registered, issued>>

\* Set(key, v): v = "" stands for a nil value (deletes); Clear(key) only exists on tasks
TaskSet(t, k, v) == /\ t \in DOMAIN tasks /\ k \in Keys
                    /\ tasks' = [tasks EXCEPT ![t].data[k] = v]
                    /\ UNCHANGED <<changes, notices, warnings, kv>> /\ UNCH_IDS
ChangeSet(c, k, v) == /\ c \in DOMAIN changes /\ k \in Keys
                      /\ changes' = [changes EXCEPT ![c].data[k] = v]
                      /\ UNCHANGED <<tasks, notices, warnings, kv>> /\ UNCH_IDS
StateSet(k, v) == /\ k \in Keys /\ kv' = [kv EXCEPT ![k] = v]
                  /\ UNCHANGED <<changes, tasks, notices, warnings>> /\ UNCH_IDS

\* Logf / Errorf: ring of the 10 most recent lines
Log(t, lvl, msg) ==
    /\ t \in DOMAIN tasks
    /\ LET l0 == tasks[t].log
           l1 == IF Len(l0) > 9 THEN SubSeq(l0, Len(l0) - 8, Len(l0)) ELSE l0
       IN tasks' = [tasks EXCEPT ![t].log = Append(l1, [t |-> Now, lvl |-> lvl, msg |-> msg])]
    /\ UNCHANGED <<changes, notices, warnings, kv>> /\ UNCH_IDS

\* At(when): ignored for a ready task unless it clears the schedule
At(t, when) ==
    /\ t \in DOMAIN tasks
    /\ tasks' = IF Ready(tasks[t].status) /\ when # 0 THEN tasks ELSE [tasks EXCEPT ![t].at = when]
    /\ UNCHANGED <<changes, notices, warnings, kv>> /\ UNCH_IDS

SetProgress(t, label, done, total) ==
    /\ t \in DOMAIN tasks
    /\ tasks' = [tasks EXCEPT ![t].progress = IF total <= 0 \/ done > total THEN NoProgress
                                               ELSE [set |-> TRUE, label |-> label, done |-> done, total |-> total]]
    /\ UNCHANGED <<changes, notices, warnings, kv>> /\ UNCH_IDS

\* SetClean: only legal once the change is ready (panics otherwise)
SetClean(t) ==
    /\ t \in DOMAIN tasks
    /\ LET c == tasks[t].change
           T1 == [tasks EXCEPT ![t].clean = TRUE]
       IN /\ c # 0 => changes[c].isReady
          /\ tasks' = T1
          /\ changes' = IF c # 0 /\ ~tasks[t].clean /\ \A i \in DOMAIN changes[c].tasks : T1[changes[c].tasks[i]].clean
                        THEN [changes EXCEPT ![c].clean = TRUE] ELSE changes
    /\ UNCHANGED <<notices, warnings, kv>> /\ UNCH_IDS

\* AddNotice(user, type, key, {data, repeatAfter (hours), time (ticks, 0 = use the clock)})
AddNotice(user, type, key, data, rep, time) ==
    LET at == IF time = 0 THEN NextNoticeTs ELSE time
        o  == Occur(notices, lastNotice, <<user, type, key>>, at, data, rep)
    IN /\ notices' = o[1] /\ lastNotice' = o[2]
       /\ lastNoticeTs' = IF time = 0 THEN at ELSE lastNoticeTs
       /\ issued' = IF o[2] > lastNotice THEN [issued EXCEPT !.notice = Append(@, o[2])] ELSE issued
       /\ UNCHANGED <<changes, tasks, warnings, kv, lastChange, lastTask, lastLane, clk, registered>>

AddWarning(msg, rep, time) ==
    LET at == IF time = 0 THEN Now ELSE time
        w0 == IF msg \in DOMAIN warnings THEN warnings[msg]
              ELSE [first |-> at, last |-> at, shown |-> 0, expire |-> WarnExpire, repeat |-> rep]
    IN /\ warnings' = Put(warnings, msg, [w0 EXCEPT !.last = at, !.repeat = rep])
       /\ UNCHANGED <<changes, tasks, notices, kv>> /\ UNCH_IDS

ShowAfter(w, t) == IF w.shown = 0 THEN w.first <= t ELSE w.shown + w.repeat * TU < t
OkayWarnings(t) ==
    /\ warnings' = [m \in DOMAIN warnings |-> IF ShowAfter(warnings[m], t) THEN [warnings[m] EXCEPT !.shown = t]
                                               ELSE warnings[m]]
    /\ UNCHANGED <<changes, tasks, notices, kv>> /\ UNCH_IDS
RemoveWarning(msg) ==
    /\ warnings' = Drop(warnings, {msg})
    /\ UNCHANGED <<changes, tasks, notices, kv>> /\ UNCH_IDS

\* RegisterPendingChangeByAttr(k, f) with f(chg) == (chg's data[k] is JSON true)
Register(k) == /\ k \in Keys /\ registered' = registered \cup {k}
               /\ UNCHANGED <<pvars, clk, issued>>

(* SaveReload: checkpoint + ReadState.  Identity on everything persisted, except that expired     *)
(* notices/warnings are not written; runtime-only state is rebuilt: predicates are gone, and a   *)
(* change counts as ready iff its status is ready (documented exception in Change.IsReady).      *)
Reloaded(C, T) == [c \in DOMAIN C |-> [C[c] EXCEPT !.isReady = Ready(ChangeStatus(C, T, c))]]
SaveReload ==
    /\ notices'  = Drop(notices,  {k \in DOMAIN notices  : NoticeExpired(notices[k])})
    /\ warnings' = Drop(warnings, {m \in DOMAIN warnings : WarnExpired(warnings[m])})
    /\ changes'  = Reloaded(changes, tasks)
    /\ registered' = {}
    /\ UNCHANGED <<tasks, kv, lastChange, lastTask, lastLane, lastNotice, lastNoticeTs, clk, issued>>

-----------------------------------------------------------------------------
(* Prune(startOfOperation, pruneWait, abortWait, maxReadyChanges), from the documented contract. *)
(* start in ticks (0 = zero time), waits in hours.  The real clock stands at H.                  *)
PruneLimit(pw) == HT - pw * TU
AbortLimit(aw) == HT - aw * TU
EffSpawn(c, start) == Max(changes[c].spawn, start)
ReadyCs   == {c \in DOMAIN changes : changes[c].ready # 0}
UnreadyCs == DOMAIN changes \ ReadyCs
OldCs(pw)  == {c \in ReadyCs : changes[c].ready < PruneLimit(pw)}        \* past the retention period
RestCs(pw) == ReadyCs \ OldCs(pw)
Excess(pw, mx) == Max(0, Cardinality(RestCs(pw)) - mx)
\* admissible choices of the changes removed because of the count limit: the Excess oldest ones
\* (ties in ready time: any of them - the code's sort is not stable)
LimitChoices(pw, mx) == {X \in SUBSET RestCs(pw) :
                           /\ Cardinality(X) = Excess(pw, mx)
                           /\ \A x \in X, k \in RestCs(pw) \ X : changes[x].ready <= changes[k].ready}
EmptyOld(start, pw) == {c \in UnreadyCs : Len(changes[c].tasks) = 0 /\ EffSpawn(c, start) < PruneLimit(pw)}
Pending(c) == \E k \in registered : changes[c].data[k] = "true"
AbortedCs(start, pw, aw) == {c \in UnreadyCs \ EmptyOld(start, pw) : EffSpawn(c, start) < AbortLimit(aw) /\ ~Pending(c)}
OldUnlinked(pw) == {t \in DOMAIN tasks : tasks[t].change = 0 /\ tasks[t].spawn < PruneLimit(pw)}

\* what aborting does to one task (Change.abortTasks)
AbortMap(t) == LET e == IF t.status = "Wait" THEN t.waited ELSE Eff(t.status) IN
               CASE e = "Do" -> "Hold" [] e = "Doing" -> "Abort" [] e = "Done" -> "Undo" [] OTHER -> t.status
\* tasks an abort of the unready lanes must hit: every unready task; which Done tasks are undone with them
\* depends on lanes (healthy-lane exemption, C01's subject): any subset U of them is admitted here
MustAbort(A)  == {t \in DOMAIN tasks : tasks[t].change \in A /\ ~Ready(tasks[t].status)}
MayAbort(A)   == {t \in DOMAIN tasks : tasks[t].change \in A /\ tasks[t].status = "Done"}

AbortTasks(T, hit) ==
    [t \in DOMAIN T |-> IF t \in hit
                        THEN LET new == AbortMap(T[t]) IN
                             [T[t] EXCEPT !.status = new,
                                          !.ready = IF ~Ready(T[t].status) /\ Ready(new) THEN Now ELSE T[t].ready]
                        ELSE T[t]]

\* change-level consequences of the abort of c (T0 before, S.T after): ready mark, change-update notice.
\* The number of notices an abort records depends on the order it walks the tasks; the model records one
\* for the final status (trace validation leaves notice counts of aborted changes to the log).
AfterAbort(S, T0, c) ==
    LET ids  == Range(S.C[c].tasks)
        flip == \E t \in ids : Ready(T0[t].status) # Ready(S.T[t].status)
        S1   == IF flip /\ \A t \in ids : Ready(S.T[t].status) THEN [S EXCEPT !.C = MarkReady(S.C, c)] ELSE S
    IN IF \E t \in ids : T0[t].status # S.T[t].status THEN Notify(S1, c, ChangeStatus(S1.C, S1.T, c)) ELSE S1

RECURSIVE AfterAborts(_, _, _)
AfterAborts(S, T0, A) == IF A = {} THEN S
                         ELSE LET c == CHOOSE x \in A : \A y \in A : x <= y
                              IN AfterAborts(AfterAbort(S, T0, c), T0, A \ {c})

PrunePost(start, pw, aw, mx, X, U) ==
    LET goneC == OldCs(pw) \cup X \cup EmptyOld(start, pw)
        goneT == {t \in DOMAIN tasks : tasks[t].change \in OldCs(pw) \cup X} \cup OldUnlinked(pw)
        A     == AbortedCs(start, pw, aw)
        T1    == AbortTasks(tasks, MustAbort(A) \cup U)
        N0    == Drop(notices, {k \in DOMAIN notices : NoticeExpired(notices[k])})
        S     == AfterAborts([C |-> changes, T |-> T1, N |-> N0, ln |-> lastNotice, lts |-> lastNoticeTs], tasks, A)
    IN [S EXCEPT !.C = Drop(S.C, goneC), !.T = Drop(S.T, goneT)]

\* dangling edges make the abort walk (and Change.Status) dereference removed tasks: the drivers never
\* prune in such a state (snapd adds whole task sets to a change)
EdgesClosed == \A t \in DOMAIN tasks : tasks[t].change # 0 =>
                   \A u \in Range(tasks[t].waits) \cup Range(tasks[t].halts) :
                       u \in DOMAIN tasks /\ tasks[u].change = tasks[t].change

Prune(start, pw, aw, mx, X, U) ==
    /\ EdgesClosed
    /\ X \in LimitChoices(pw, mx) /\ U \subseteq MayAbort(AbortedCs(start, pw, aw))
    /\ Commit(PrunePost(start, pw, aw, mx, X, U))
    /\ warnings' = Drop(warnings, {m \in DOMAIN warnings : WarnExpired(warnings[m])})
    /\ UNCHANGED <<kv, lastChange, lastTask, lastLane, clk, registered>>

-----------------------------------------------------------------------------
Op(name) == [op |-> name, start |-> 0, pw |-> 0, aw |-> 0, mx |-> 0]
PruneOp(start, pw, aw, mx) == [op |-> "Prune", start |-> start, pw |-> pw, aw |-> aw, mx |-> mx]
On(name) == name \in OPS

\* terminal-Prune configs stop exploring after a Prune step
Go == PruneTerminal => last.op # "Prune"
DoTick ==
    /\ Go
    /\ On("Tick") /\ \E h \in ClockVals : h > clk /\ Tick(h) /\ last' = Op("Tick")
DoNewChange ==
    /\ Go
    /\ On("NewChange") /\ lastChange < MaxChanges /\ NewChange("k", "s") /\ last' = Op("NewChange")
DoNewTask ==
    /\ Go
    /\ On("NewTask") /\ lastTask < MaxTasks /\ NewTask("k", "s") /\ last' = Op("NewTask")
DoAddTask ==
    /\ Go
    /\ On("AddTask") /\ \E c \in DOMAIN changes, t \in DOMAIN tasks : AddTask(c, t) /\ last' = Op("AddTask")
DoWaitFor ==
    /\ Go
    /\ On("WaitFor") /\ \E a, b \in DOMAIN tasks : tasks[a].change = tasks[b].change /\ WaitFor(a, b) /\ last' = Op("WaitFor")
DoNewLane ==
    /\ Go
    /\ On("Lane") /\ lastLane < MaxLanes /\ NewLane /\ last' = Op("NewLane")
DoJoinLane ==
    /\ Go
    /\ On("Lane") /\ \E t \in DOMAIN tasks, l \in 1..lastLane : Len(tasks[t].lanes) < 2 /\ JoinLane(t, l) /\ last' = Op("JoinLane")
DoSetStatus ==
    /\ Go
    /\ On("SetStatus") /\ \E t \in DOMAIN tasks, s \in StatusVals \ {"Wait"} : SetStatus(t, s) /\ last' = Op("SetStatus")
DoSetToWait ==
    /\ Go
    /\ On("SetToWait") /\ \E t \in DOMAIN tasks, s \in StatusVals \ {"Wait"} : SetToWait(t, s) /\ last' = Op("SetToWait")
DoChangeSetStatus ==
    /\ Go
    /\ On("ChangeSetStatus") /\ \E c \in DOMAIN changes, s \in StatusVals \cup {"Default"} : ChangeSetStatus(c, s) /\ last' = Op("ChangeSetStatus")
DoTaskSet ==
    /\ Go
    /\ On("TaskData") /\ \E t \in DOMAIN tasks, k \in Keys, v \in Vals : TaskSet(t, k, v) /\ last' = Op("TaskSet")
DoChangeSet ==
    /\ Go
    /\ On("ChangeData") /\ \E c \in DOMAIN changes, k \in Keys, v \in Vals : ChangeSet(c, k, v) /\ last' = Op("ChangeSet")
DoStateSet ==
    /\ Go
    /\ On("StateData") /\ \E k \in Keys, v \in Vals : StateSet(k, v) /\ last' = Op("StateSet")
DoLog ==
    /\ Go
    /\ On("Log") /\ \E t \in DOMAIN tasks : Len(tasks[t].log) < 11 /\ Log(t, "INFO", "m") /\ last' = Op("Log")
DoAt ==
    /\ Go
    /\ On("At") /\ \E t \in DOMAIN tasks, w \in {0, Now} : At(t, w) /\ last' = Op("At")
DoSetClean ==
    /\ Go
    /\ On("Clean") /\ \E t \in DOMAIN tasks : SetClean(t) /\ last' = Op("SetClean")
DoAddNotice ==
    /\ Go
    /\ On("Notice") /\ lastNotice < MaxChanges + 2
                       /\ \E key \in {"a", "b"}, rep \in {0, 2} : AddNotice(-1, "warning", key, <<>>, rep, 0) /\ last' = Op("AddNotice")
DoAddWarning ==
    /\ Go
    /\ On("Warning") /\ \E m \in {"w1", "w2"} : AddWarning(m, 1, 0) /\ last' = Op("AddWarning")
DoOkayWarnings ==
    /\ Go
    /\ On("Warning") /\ OkayWarnings(Now) /\ last' = Op("OkayWarnings")
DoRegister ==
    /\ Go
    /\ On("Register") /\ \E k \in Keys : Register(k) /\ last' = Op("Register")
DoPrune ==
    /\ Go
    /\ On("Prune") /\ \E start \in StartVals, pw \in WaitVals, aw \in WaitVals, mx \in MaxVals :
                           \E X \in LimitChoices(pw, mx), U \in SUBSET MayAbort(AbortedCs(start, pw, aw)) :
                               Prune(start, pw, aw, mx, X, U) /\ last' = PruneOp(start, pw, aw, mx)
DoSaveReload ==
    /\ Go
    /\ On("SaveReload") /\ SaveReload /\ last' = Op("SaveReload")

Next == DoTick \/ DoNewChange \/ DoNewTask \/ DoAddTask \/ DoWaitFor \/ DoNewLane \/ DoJoinLane \/ DoSetStatus \/ DoSetToWait \/ DoChangeSetStatus \/ DoTaskSet \/ DoChangeSet \/ DoStateSet \/ DoLog \/ DoAt \/ DoSetClean \/ DoAddNotice \/ DoAddWarning \/ DoOkayWarnings \/ DoRegister \/ DoPrune \/ DoSaveReload
Bound == TLCGet("level") <= MaxDepth /\ \A k \in DOMAIN notices : notices[k].occ <= MaxOcc
Spec == Init /\ last = Op("Init") /\ [][Next]_vars

-----------------------------------------------------------------------------
(* C05 *)
NoDup(s) == \A i, j \in DOMAIN s : i # j => s[i] # s[j]
FreshIds == \A sp \in {"chg", "task", "lane", "notice"} : NoDup(issued[sp])
CountersCoverIds ==
    /\ \A c \in DOMAIN changes : c <= lastChange
    /\ \A t \in DOMAIN tasks : t <= lastTask /\ \A i \in DOMAIN tasks[t].lanes : tasks[t].lanes[i] <= lastLane
    /\ \A k \in DOMAIN notices : notices[k].id <= lastNotice
    /\ \A i \in DOMAIN issued.chg : issued.chg[i] <= lastChange
    /\ \A i \in DOMAIN issued.task : issued.task[i] <= lastTask
    /\ \A i \in DOMAIN issued.lane : issued.lane[i] <= lastLane
    /\ \A i \in DOMAIN issued.notice : issued.notice[i] <= lastNotice
CountersMonotone == [][last'.op = "Init" \/
                       /\ lastChange' >= lastChange /\ lastTask' >= lastTask /\ lastLane' >= lastLane
                       /\ lastNotice' >= lastNotice /\ lastNoticeTs' >= lastNoticeTs]_vars
\* what a client can see of the persisted part: expired notices/warnings are invisible
Visible == [changes |-> [c \in DOMAIN changes |-> [changes[c] EXCEPT !.isReady = FALSE]], tasks |-> tasks, kv |-> kv,
            notices |-> Drop(notices, {k \in DOMAIN notices : NoticeExpired(notices[k])}),
            warnings |-> Drop(warnings, {m \in DOMAIN warnings : WarnExpired(warnings[m])}),
            ctr |-> <<lastChange, lastTask, lastLane, lastNotice, lastNoticeTs>>]
ReloadIdentity == [][last'.op = "SaveReload" => Visible' = Visible]_vars

(* C09: properties of a Prune step, stated on the pre/post states and the call parameters only *)
IsPrune == last'.op = "Prune"
PLim == HT - last'.pw * TU
ALim == HT - last'.aw * TU
GoneC == DOMAIN changes \ DOMAIN changes'
GoneT == DOMAIN tasks \ DOMAIN tasks'
ESp(c) == Max(changes[c].spawn, last'.start)
NeverRemovesUnfinished == [][IsPrune => \A c \in GoneC :
        \/ changes[c].ready # 0
        \/ Len(changes[c].tasks) = 0 /\ ESp(c) < PLim]_vars
RemovedOnlyIfDue == [][IsPrune => \A c \in GoneC : changes[c].ready # 0 =>
        \/ changes[c].ready < PLim
        \/ Cardinality(ReadyCs) > last'.mx]_vars
OldestFirst == [][IsPrune => \A r \in GoneC, k \in DOMAIN changes' :
        (changes[r].ready # 0 /\ changes[k].ready # 0 /\ ~(changes[r].ready < PLim)) => changes[r].ready <= changes[k].ready]_vars
\* no more than needed is removed for the count limit, and the limit + retention are enforced
PruneExact == [][IsPrune =>
        /\ \A k \in DOMAIN changes' : changes[k].ready # 0 => ~(changes[k].ready < PLim)
        /\ LET left == Cardinality({k \in DOMAIN changes' : changes[k].ready # 0}) IN
           /\ left <= Max(last'.mx, 0)
           /\ (\E r \in GoneC : changes[r].ready # 0 /\ ~(changes[r].ready < PLim)) => left = last'.mx]_vars
TasksGoWithChange == [][IsPrune =>
        /\ \A c \in GoneC : Range(changes[c].tasks) \cap DOMAIN tasks' = {}
        /\ \A c \in DOMAIN changes' : Range(changes'[c].tasks) \subseteq DOMAIN tasks' /\ changes'[c].tasks = changes[c].tasks
        /\ \A t \in GoneT : \/ tasks[t].change \in GoneC
                            \/ tasks[t].change = 0 /\ tasks[t].spawn < PLim]_vars
AbortNotBeforeAbortWait == [][IsPrune => \A c \in DOMAIN changes' :
        (\E t \in Range(changes[c].tasks) : tasks'[t].status # tasks[t].status) =>
            /\ changes[c].ready = 0 /\ ESp(c) < ALim /\ ~Pending(c)]_vars
\* ... and due aborts do happen: every unready task of a due change has been told to stop
AbortWhenDue == [][IsPrune => \A c \in DOMAIN changes' :
        (changes[c].ready = 0 /\ ESp(c) < ALim /\ ~Pending(c)) =>
            \A t \in Range(changes[c].tasks) : ~Ready(tasks[t].status) => tasks'[t].status = AbortMap(tasks[t])]_vars
ExpiredVanish == [][IsPrune =>
        /\ \A k \in DOMAIN notices : NoticeExpired(notices[k]) => (k \notin DOMAIN notices' \/ notices'[k] # notices[k])
        /\ \A m \in DOMAIN warnings : WarnExpired(warnings[m]) => m \notin DOMAIN warnings'
        /\ \A m \in DOMAIN warnings : ~WarnExpired(warnings[m]) => m \in DOMAIN warnings']_vars
=============================================================================
