\* C38 raw content images (implicit/explicit offsets, declared sizes, overlap, overflow of the structure) x geometry,
\* <= 2 structures, no pruning
CONSTANTS
  MinStart = 2
  MbrMax = 1
  PtrSize = 1
  MaxStructs = 2
  OffVals <- OffSmall
  SizeVals = {2, 3}
  MinVals = {0}
  RoleVals = {"none", "mbr", "system-data"}
  OwVals <- OwNone
  ContentVals <- ContentSmall
  PartialVals = {FALSE}
  Prune = FALSE
INIT Init
NEXT Next
CHECK_DEADLOCK FALSE
INVARIANTS
  InvNonNegative
  InvIncreasing
  InvDisjoint
  InvContentInside
  InvOrderIsPermutation
