\* thorough: 3 changes per behaviour, a fault on entry of any task of any change
SPECIFICATION Spec
CONSTANTS
  MaxOps = 3
  SetupFaults = FALSE
  WorldNames = {"W0", "W1", "W2", "W3"}
INVARIANTS TypeOK FailureRestores FailureProfiles ActiveMatch ReloadMatch ProfilesMatch RepoSane
CHECK_DEADLOCK FALSE
