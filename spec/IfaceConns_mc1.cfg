\* quick: 1 change per behaviour from 4 initial worlds, a fault on entry of any task (hooks and a later task of the change included); invariants outside the named deviations D1 (profiles) and D5 (forget of an inactive connection undone)
SPECIFICATION Spec
CONSTANTS
  MaxOps = 1
  SetupFaults = FALSE
  WorldNames = {"W0", "W1", "W2", "W3"}
INVARIANTS TypeOK FailureRestores FailureProfiles ActiveMatch ReloadMatch ProfilesMatch RepoSane
CHECK_DEADLOCK FALSE
