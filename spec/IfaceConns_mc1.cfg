\* quick: 1 change per behaviour from 4 initial worlds, a fault on entry of any task (hooks included); conns/repository clauses strict, profile clause outside named deviation D1
SPECIFICATION Spec
CONSTANTS
  MaxOps = 1
  SetupFaults = FALSE
  WorldNames = {"W0", "W1", "W2", "W3"}
INVARIANTS TypeOK FailureRestores FailureProfiles ActiveMatch ReloadMatch ProfilesMatch RepoSane StrictFailureRestores StrictActiveMatch StrictReloadMatch
CHECK_DEADLOCK FALSE
