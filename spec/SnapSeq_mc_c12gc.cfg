SPECIFICATION Spec
CONSTANTS
    MaxRev = 4
    MaxOps = 5
    InstallRevs <- Rev1
    AttrOpts <- AttrPlain
    RetainOpts <- RetNone
    CfgOpts <- Cfg0
    OnClassicOpts <- BoolT
    BootOpts <- Boot1only
    KernelOpts <- BoolT
    OpFaults = FALSE
INVARIANTS
    TypeOK
    C12_Retain
CONSTRAINT StateConstraint
CHECK_DEADLOCK FALSE
