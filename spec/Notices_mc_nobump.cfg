\* negative design control (expected: ExactlyOnce violated): without the strictly-increasing bump
SPECIFICATION SpecPoll
CONSTANTS
  Users <- MCUsers1
  Types <- MCTypes1
  Keys <- MCKeys
  RepeatAfters = {0, 2}
  Data = {"d"}
  Clients <- MCClients
  CfgChoices <- MCCfgDeep
  ClockValues = {1, 3, 5, 7}
  MaxAdds = 4
  Bump = FALSE
  BroadcastRepeat = TRUE
  AddAtTimes = {}
  ClockRegress = FALSE
VIEW view
INVARIANTS
  ExactlyOnce
CHECK_DEADLOCK FALSE
