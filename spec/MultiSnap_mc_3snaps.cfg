\* 3 snaps in one change (a fault in one lane: two healthy lanes complete / all three revert)
SPECIFICATION Spec
CONSTANTS
    Snaps <- Three
    SnapOrder <- Order3
    MaxRev = 3
    MaxOps = 1
    MaxTasks = 40
    MaxFaults = 1
    KindOpts <- KAll
    TxnOpts <- BoolFT
    SelSizes <- Sz3
    InstallRevs <- Rev1
    RefreshRevs <- Rev3
    RetainInit <- Ret2
    InitCtx <- CtxQuick3
    OpFaults = TRUE
    Compact = TRUE
    Reduce = TRUE
INVARIANTS
    TypeOK
    FailedSnapRestored
    HealthySnapsComplete
    AllRevertedIfTransactional
    ConsistentAll
    ChangeErrorIffFailed
    LaneDiscipline
    EngineSane
CONSTRAINT StateConstraint
CHECK_DEADLOCK FALSE
