---------------------------- MODULE TraceBootTry ----------------------------
(* I->T: validates events recorded from the REAL boot package (harness/overlay/boot) against BootTry.
   One JSON object per line (VERIF_TRACE):
     Reset      {full}             load a reachable spec state (the state the real objects were materialised from)
     InUse      {k, b}             boot.InUse on that state           = InUseK / InUseB
     W          {op, st}           one durable write of the real call = Step, same kind of write, same post-state
     End        {st}               the real call returned             = End (no further write planned)
     InitNs     {st}               InitramfsRunModeUpdateBootloaderVars                   = InitNs
     InitBase   {res, rev, st}     InitramfsRunModeSelectSnapsToMount([base])             = InitBase
     InitKernel {res, rev, st}     InitramfsRunModeSelectSnapsToMount([kernel])           = InitKernel
   Every line must be consumed (POSTCONDITION Accepted); all invariants of BootTry are evaluated on the way. *)
EXTENDS BootTry, IOUtils, Json

Trace == ndJsonDeserialize(IOEnv.VERIF_TRACE)

VARIABLE l
tvars == <<d, pres, boot, act, h, l>>

ToSet(s) == {s[i] : i \in DOMAIN s}
IsEv(e) == l <= Len(Trace) /\ Trace[l].ev = e /\ l' = l + 1
Ev == Trace[l]

TInit == Init /\ l = 1

TReset ==
  /\ IsEv("Reset")
  /\ LET f == Ev.full IN
       /\ d' = f.d
       /\ pres' = [k |-> ToSet(f.pres.k), b |-> ToSet(f.pres.b)]
       /\ boot' = f.boot
       /\ act' = f.act
       /\ h' = [f.h EXCEPT !.goodk = ToSet(@), !.goodb = ToSet(@)]

TInUse ==
  /\ IsEv("InUse")
  /\ act.pc = 0
  /\ ToSet(Ev.k) = {r \in 1..5 : InUseK(d, r)}
  /\ ToSet(Ev.b) = {r \in 1..5 : InUseB(d, r)}
  /\ UNCHANGED vars

TW ==
  /\ IsEv("W")
  /\ Step
  /\ act.ws[act.pc + 1].op = Ev.op
  /\ d' = Ev.st

TEnd ==
  /\ IsEv("End")
  /\ End
  /\ d = Ev.st

TInitNs ==
  /\ IsEv("InitNs")
  /\ InitNs
  /\ d' = Ev.st

TInitBase ==
  /\ IsEv("InitBase")
  /\ InitBase
  /\ d' = Ev.st
  /\ CASE Ev.res = "ok"   -> boot'.phase = "ikern" /\ boot'.rb = Ev.rev
       [] Ev.res = "halt" -> boot'.phase = "halt"
       [] OTHER -> FALSE

TInitKernel ==
  /\ IsEv("InitKernel")
  /\ InitKernel
  /\ d' = Ev.st
  /\ CASE Ev.res = "ok"     -> boot'.phase = "result" /\ boot'.mk = Ev.rev
       [] Ev.res = "reboot" -> boot'.phase = "fw"
       [] Ev.res = "halt"   -> boot'.phase = "halt"
       [] OTHER -> FALSE

TNext == TReset \/ TInUse \/ TW \/ TEnd \/ TInitNs \/ TInitBase \/ TInitKernel

Accepted == TLCGet("stats").diameter - 1 = Len(Trace)
=============================================================================
