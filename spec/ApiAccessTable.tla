--------------------------- MODULE ApiAccessTable ---------------------------
(* T->I export for C26 (part 1): the whole decision table of ApiAccess.tla -- for every access class and   *)
(* every request, the decision, whether polkit is consulted and which listed interfaces end up attached -- *)
(* written as JSON to IOEnv.VERIF_OUT.  Root module of the model-checking runs (ApiAccess_mc*.cfg): the    *)
(* same JVM checks the statement's clauses as invariants over the same domain.                             *)
EXTENDS ApiAccess, SequencesExt, IOUtils, Json

B(b) == IF b THEN "T" ELSE "F"
Key(q) == q.cred \o "|" \o q.socket \o "|" \o q.uid \o "|" \o q.user \o "|" \o q.polkit \o "|" \o q.conn
          \o "|" \o B(q.degraded) \o "|" \o B(q.write)

Rows(a) == LET R == SetToSeq(Requests) IN
  [i \in 1..Len(R) |-> [k |-> Key(R[i]), d |-> Decide(a, R[i]), p |-> ConsultsPolkit(a, R[i]),
                        a |-> Cardinality(Attached(a, R[i]))]]

Table == LET A == SetToSeq(AccessClasses) IN
  [fields |-> <<"cred", "socket", "uid", "user", "polkit", "conn", "degraded", "write">>,
   classes |-> [i \in 1..Len(A) |-> [ac |-> A[i], rows |-> Rows(A[i])]]]

ASSUME JsonSerialize(IOEnv.VERIF_OUT, Table)
=============================================================================
