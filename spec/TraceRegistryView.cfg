INIT TInit
NEXT TNext
CONSTANTS
  Txns = {1, 2}
  PH = {"{k}"}
  Views = {}
  SetMenu = {}
  UnsetMenu = {}
  GetMenu = {}
  ChkPaths <- TracePaths
  MaxOps = 100000000
INVARIANTS AccessRespected ReadAfterWrite TxnOrder RejectedInv TypeOK
PROPERTIES TraceRejected TraceIsolation
POSTCONDITION Accepted
CHECK_DEADLOCK FALSE
