\* AnySpec, the universal client: every system-call sequence over 3 names, 2 fds, 9 calls, <=3 inodes, with a crash
\* at every point; lemma: the local discipline implies OldOrNew and NoEarlyExposure
SPECIFICATION AnySpec
CONSTANTS
  MaxChunks = 3
  Variants = {"good"}
  AnyNames = {"target", "tmp", "x"}
  AnyFileFds = {1}
  AnyDirFds = {2}
  AnyChunks = 2
  AnyMaxInodes = 3
  AnyMaxHist = 4
  AnyMaxLen = 2
  AnyMaxSteps = 9
  AnyFaults = TRUE
  MaxFaults = 1
CONSTRAINT AnyConstraint
INVARIANTS TypeOK DisciplineSafe
CHECK_DEADLOCK FALSE
