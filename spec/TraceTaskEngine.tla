------------------------- MODULE TraceTaskEngine -------------------------
(***************************************************************************)
(* Validates event logs recorded from the REAL overlord/state engine       *)
(* (harness/ext/taskengine) against TaskEngine.                            *)
(*                                                                         *)
(* Two modes (IOEnv.VERIF_MODE):                                           *)
(*  "precise"    every logged step must be a step of TaskEngine's action   *)
(*               for that event AND lead to the logged post-state          *)
(*               (conformance: the code does what the spec says);          *)
(*  "permissive" the logged post-state is taken as is.                     *)
(* In both modes the property oracles (A_* below and the C0x invariants of *)
(* TaskEngine) are evaluated on the REAL states, starts and results.       *)
(* One file holds many executions: an "Init" event resets everything.      *)
(***************************************************************************)
EXTENDS TaskEngine, IOUtils, Json

VARIABLES l,          \* next line of the trace
          a_c02bad,   \* a real handler start violated C02 (evaluated on the logged snapshot)
          a_revbad,   \* a real undo started while a task that waited on it was not finished
          a_aggbad,   \* real Change.Status() differs from the documented aggregate of real task statuses
          a_rdybad,   \* a change reported ready was seen unready again / not ready when all tasks ready
          a_redobad,  \* a real handler ran again for finished work
          a_rerunbad, \* after a restart an in-flight task was not run again by the next pass
          a_lostbad,  \* a restart lost or changed persisted task state
          needRerun,  \* tasks that the next pass has to re-run (set by Restart)
          a_stuck,    \* the driver's fair drain phase did not reach quiescence (change does not settle)
          a_stopbad   \* a handler error returned while the runner was stopping failed the task (must be retried)

tvars == <<vars, l, a_c02bad, a_revbad, a_aggbad, a_rdybad, a_redobad, a_rerunbad, a_lostbad, needRerun, a_stuck, a_stopbad>>

Trace == ndJsonDeserialize(IOEnv.VERIF_TRACE)
Precise == IOEnv.VERIF_MODE = "precise"
TN == atoi(IOEnv.VERIF_TN)
TNC == atoi(IOEnv.VERIF_TNC)

E == Trace[l]
IsEv(e) == l <= Len(Trace) /\ Trace[l].ev = e /\ l' = l + 1

SeqRange(s) == {s[i] : i \in DOMAIN s}

\* ---- the logged post-state
PostStatus == [t \in Tasks |-> E.st.status[t]]
PostWaited == [t \in Tasks |-> E.st.waited[t]]
PostAt     == [t \in Tasks |-> E.st.at[t]]
PostRdy    == [c \in Changes |-> E.st.rdy[c]]
PostMatches ==
  /\ status' = PostStatus
  /\ waited' = PostWaited
  /\ atTime' = PostAt
  /\ clean' = SeqRange(E.st.clean)
  /\ now' = E.st.now
  /\ running' = SeqRange(E.st.running)
  /\ rdy' = PostRdy
  /\ stopped' = E.st.stopped

\* ---- oracles on real data -------------------------------------------------
\* real aggregate: Change.Status() as logged vs the documented aggregate of the logged task statuses
AggOK == \A c \in Changes : E.st.chgst[c] = ChgStatus(PostStatus, c)
\* ready flag: once all tasks are ready the change is ready; a ready change has a ready status
RdyOK == \A c \in Changes :
           /\ E.st.rdy[c] => IsReadyS(E.st.chgst[c])
           /\ (\A t \in TasksOf(c) : IsReadyS(E.st.status[t])) => E.st.rdy[c]
\* a change that was ready before this step stays ready (restart included)
RdySticky == \A c \in Changes : rdy[c] => E.st.rdy[c]

StartSnapOK(s) ==
  LET snapst == [t \in Tasks |-> s.snap[t]] IN
  /\ snapst[s.t] = "Do"   => \A w \in waits[s.t] : snapst[w] = "Done"
  /\ snapst[s.t] = "Undo" => \A h \in Halts(s.t) : IsReadyS(snapst[h])
  /\ s.at = 0 \/ s.at <= s.now
  /\ snapst[s.t] \in (IF s.ph = "do" THEN {"Do", "Doing"} ELSE {"Undo", "Undoing"})
StartRevOK(s) ==
  LET snapst == [t \in Tasks |-> s.snap[t]] IN
  snapst[s.t] = "Undo" => \A h \in Halts(s.t) : IsReadyS(snapst[h]) /\ h \notin running
StartRedoOK(s) ==
  /\ s.ph = "do"   => s.t \notin everDone
  /\ s.ph = "undo" => s.t \notin everUndone

Oracles ==
  /\ a_aggbad' = (a_aggbad \/ ~AggOK)
  /\ a_rdybad' = (a_rdybad \/ ~RdyOK \/ ~RdySticky)

NoStartOracles ==
  /\ a_c02bad' = a_c02bad /\ a_revbad' = a_revbad /\ a_redobad' = a_redobad
  /\ a_rerunbad' = a_rerunbad /\ a_lostbad' = a_lostbad /\ needRerun' = needRerun
  /\ a_stuck' = a_stuck /\ a_stopbad' = a_stopbad

\* ---- permissive versions of the history updates ---------------------------
FinishMon(t, res) ==
  LET wasDo == status[t] \in {"Doing", "Abort", "Done"}
      real == ~(res = "err" /\ stopped)
  IN
  /\ everDone'   = IF res = "ok" /\ wasDo THEN everDone \cup {t} ELSE everDone
  /\ everUndone' = IF res = "ok" /\ ~wasDo THEN everUndone \cup {t} ELSE everUndone
  /\ failedDo'   = IF res = "err" /\ real /\ wasDo THEN failedDo \cup {t} ELSE failedDo
  /\ failedUndo' = IF res = "err" /\ real /\ ~wasDo THEN failedUndo \cup {t} ELSE failedUndo

KeepMon == UNCHANGED <<everDone, everUndone, failedDo, failedUndo, aborted, budget, c02bad, redoBad, panicked>>

-----------------------------------------------------------------------------
TInitEv ==
  /\ IsEv("Init")
  /\ waits' = [t \in Tasks |-> SeqRange(E.g.waits[t])]
  /\ lanes' = [t \in Tasks |-> E.g.lanes[t]]
  /\ hasUndo' = [t \in Tasks |-> E.g.undo[t]]
  /\ chgOf' = [t \in Tasks |-> E.g.chg[t]]
  /\ kind' = [t \in Tasks |-> E.g.kind[t]]
  /\ snap' = [t \in Tasks |-> E.g.snap[t]]
  /\ PostMatches
  /\ panicked' = FALSE /\ c02bad' = FALSE /\ redoBad' = FALSE
  /\ everDone' = {} /\ everUndone' = {} /\ failedDo' = {} /\ failedUndo' = {} /\ aborted' = {}
  /\ budget' = budget
  /\ a_aggbad' = a_aggbad /\ a_rdybad' = a_rdybad
  /\ NoStartOracles

TEnsure ==
  /\ IsEv("Ensure")
  /\ IF Precise THEN EnsurePass /\ PostMatches
     ELSE PostMatches /\ UNCHANGED graphVars /\ KeepMon
  /\ Oracles
  /\ a_c02bad' = (a_c02bad \/ \E i \in DOMAIN E.starts : ~StartSnapOK(E.starts[i]))
  /\ a_revbad' = (a_revbad \/ \E i \in DOMAIN E.starts : ~StartRevOK(E.starts[i]))
  /\ a_redobad' = (a_redobad \/ \E i \in DOMAIN E.starts : ~StartRedoOK(E.starts[i]))
  \* tasks that were in flight at the restart and are still Doing/Undoing and due when this pass begins
  \* (an abort or a retry delay in between legitimately changes that) must be run again by this pass
  /\ a_rerunbad' = (a_rerunbad \/ ~({t \in needRerun : status[t] \in {"Doing", "Undoing"} /\ (atTime[t] = 0 \/ atTime[t] <= now)}
                                      \subseteq {E.starts[i].t : i \in DOMAIN E.starts}))
  /\ needRerun' = {}
  /\ a_lostbad' = a_lostbad /\ a_stuck' = a_stuck /\ a_stopbad' = a_stopbad

TFinish ==
  /\ IsEv("Finish")
  /\ IF Precise THEN Finish(E.t, E.res, E.after, E.ws) /\ PostMatches /\ UNCHANGED budget
     ELSE PostMatches /\ FinishMon(E.t, E.res) /\ UNCHANGED <<graphVars, aborted, budget, c02bad, redoBad, panicked>>
  /\ Oracles
  /\ a_c02bad' = a_c02bad /\ a_revbad' = a_revbad /\ a_redobad' = a_redobad
  /\ a_rerunbad' = a_rerunbad /\ a_lostbad' = a_lostbad /\ needRerun' = needRerun /\ a_stuck' = a_stuck
  \* shutting down: "errors might be due to cancellations, to be safe retry" - the task must not fail
  /\ a_stopbad' = (a_stopbad \/ (stopped /\ E.res = "err" /\ PostStatus[E.t] = "Error"))

TAbort ==
  /\ IsEv("Abort")
  /\ IF Precise THEN UserAbortCore(E.c) /\ PostMatches /\ UNCHANGED budget
     ELSE PostMatches /\ aborted' = aborted \cup {E.c}
          /\ UNCHANGED <<graphVars, everDone, everUndone, failedDo, failedUndo, budget, c02bad, redoBad, panicked>>
  /\ Oracles /\ NoStartOracles

TResolveWait ==
  /\ IsEv("ResolveWait")
  /\ IF Precise THEN ResolveWait(E.t) /\ PostMatches
     ELSE PostMatches /\ UNCHANGED graphVars /\ KeepMon
  /\ Oracles /\ NoStartOracles

TForce ==
  /\ IsEv("Force")
  /\ IF Precise THEN ManagerSetStatus(E.t, E.res) /\ PostMatches
     ELSE PostMatches /\ UNCHANGED graphVars /\ KeepMon
  /\ Oracles /\ NoStartOracles

TTick ==
  /\ IsEv("Tick")
  /\ PostMatches /\ UNCHANGED graphVars /\ KeepMon
  /\ Precise => (status' = status /\ waited' = waited /\ atTime' = atTime /\ running' = running /\ rdy' = rdy /\ now' >= now)
  /\ Oracles /\ NoStartOracles

TStop ==
  /\ IsEv("Stop")
  /\ IF Precise THEN StopCore /\ PostMatches /\ UNCHANGED budget
     ELSE PostMatches /\ UNCHANGED graphVars /\ KeepMon
  /\ Oracles /\ NoStartOracles

TRestart ==
  /\ IsEv("Restart")
  /\ IF Precise THEN RestartCore /\ PostMatches /\ UNCHANGED budget
     ELSE PostMatches /\ UNCHANGED graphVars /\ KeepMon
  /\ Oracles
  \* nothing persisted may change across a restart
  /\ a_lostbad' = (a_lostbad \/ PostStatus # status \/ PostWaited # waited \/ PostAt # atTime)
  /\ needRerun' = {t \in Tasks : /\ PostStatus[t] \in {"Doing", "Undoing"}
                                 /\ (PostAt[t] = 0 \/ PostAt[t] <= E.st.now)
                                 /\ kind[t] = "neutral"}
  /\ a_c02bad' = a_c02bad /\ a_revbad' = a_revbad /\ a_redobad' = a_redobad /\ a_rerunbad' = a_rerunbad
  /\ a_stuck' = a_stuck /\ a_stopbad' = a_stopbad

\* the driver's drain phase (fair schedule) did not reach quiescence: the change does not settle
TStuck ==
  /\ IsEv("Stuck")
  /\ a_stuck' = TRUE
  /\ UNCHANGED <<vars, a_c02bad, a_revbad, a_aggbad, a_rdybad, a_redobad, a_rerunbad, a_lostbad, needRerun, a_stopbad>>

TNext == TInitEv \/ TForce \/ TEnsure \/ TFinish \/ TAbort \/ TResolveWait \/ TTick \/ TStop \/ TRestart \/ TStuck

TInit ==
  /\ l = 1
  /\ waits = [t \in Tasks |-> {}]
  /\ lanes = [t \in Tasks |-> <<0>>]
  /\ hasUndo = [t \in Tasks |-> TRUE]
  /\ chgOf = [t \in Tasks |-> 1]
  /\ kind = [t \in Tasks |-> "neutral"]
  /\ snap = [t \in Tasks |-> 0]
  /\ InitState
  /\ a_c02bad = FALSE /\ a_revbad = FALSE /\ a_aggbad = FALSE /\ a_rdybad = FALSE
  /\ a_redobad = FALSE /\ a_rerunbad = FALSE /\ a_lostbad = FALSE
  /\ needRerun = {}
  /\ a_stuck = FALSE
  /\ a_stopbad = FALSE

TSpec == TInit /\ [][TNext]_tvars

Accepted == TLCGet("stats").diameter - 1 = Len(Trace)

\* ---- invariants, grouped by property ------------------------------------
A_C01 == C01_SettlesError /\ C01_WaitersHeld /\ C01_LaneReverted /\ C01_HealthyComplete /\ C01_AllLanesFailed /\ C01_SingleFailureIndependent /\ ~a_revbad
A_C02 == ~a_c02bad
A_C03 == ~a_aggbad /\ ~a_rdybad /\ ~a_stuck
A_C04 == ~a_redobad /\ ~a_rerunbad /\ ~a_lostbad /\ ~a_stopbad
A_C07 == C07
\* spec-side monitors stay clean too (precise mode: the spec's own bookkeeping over the real run)
SpecMon == ~c02bad /\ ~redoBad /\ ~panicked
=============================================================================
