------------------------------- MODULE Channel -------------------------------
(***************************************************************************)
(* C34 -- reference for snap/channel (ParseVerbatim, Parse/Clean, Full,    *)
(* Resolve, ResolvePinned) and snapstate.resolveChannel.                   *)
(*                                                                         *)
(* A channel string is modelled as the sequence of its '/'-separated       *)
(* components (strings.Split(s, "/")): "" is <<"">>, "a//b" is             *)
(* <<"a","","b">>. Components are TLA+ strings that are only compared,     *)
(* never taken apart. The driver joins / splits on "/".                    *)
(*                                                                         *)
(*   Channel_mc.cfg        laws of the statement on the reference          *)
(*   ChannelTable.tla/cfg  T->I tables                                     *)
(*   TraceChannel.tla/cfg  I->T observations beyond the bound              *)
(***************************************************************************)
EXTENDS Integers, Sequences, FiniteSets, TLC, IOUtils, Json

Risks == {"stable", "candidate", "beta", "edge"}

EnvInt(name, dflt) ==
    IF name \in DOMAIN IOEnv /\ IOEnv[name] # "" THEN atoi(IOEnv[name]) ELSE dflt

-----------------------------------------------------------------------------
(* Reference functions. A parsed channel is [ok, track, risk, branch, name]; an unset field is "". *)

BadChannel == [ok |-> FALSE, track |-> "", risk |-> "", branch |-> "", name |-> <<>>]
Chan(t, r, b, n) == [ok |-> TRUE, track |-> t, risk |-> r, branch |-> b, name |-> n]

\* which component plays which role: <<track, risk, branch>> positions (0 = absent)
Roles(p) ==
    CASE Len(p) = 3 -> <<1, 2, 3>>
      [] Len(p) = 2 -> IF p[1] \in Risks THEN <<0, 1, 2>> ELSE <<1, 2, 0>>
      [] Len(p) = 1 -> IF p[1] \in Risks THEN <<0, 1, 0>> ELSE <<1, 0, 0>>
      [] OTHER -> <<0, 0, 0>>

\* ParseVerbatim: no normalisation; name stays empty
ParseVerbatim(p) ==
    IF p = <<"">> \/ Len(p) > 3 \/ Len(p) = 0 THEN BadChannel
    ELSE LET ro == Roles(p)
             At(i) == IF ro[i] = 0 THEN "" ELSE p[ro[i]]
         IN  IF \/ (ro[2] # 0 /\ At(2) \notin Risks)       \* a risk, when given, must be a risk name
                \/ (ro[1] # 0 /\ At(1) = "")               \* a given track / branch must not be empty
                \/ (ro[3] # 0 /\ At(3) = "")
             THEN BadChannel
             ELSE Chan(At(1), At(2), At(3), <<>>)

Opt(c) == IF c = "" THEN <<>> ELSE <<c>>

\* Clean: "latest" is the default track (dropped), "stable" the default risk (made explicit)
Clean(c) ==
    IF ~c.ok THEN c
    ELSE LET t == IF c.track = "latest" THEN "" ELSE c.track
             r == IF c.risk = "" THEN "stable" ELSE c.risk
         IN  Chan(t, r, c.branch, Opt(t) \o <<r>> \o Opt(c.branch))

Parse(p) == Clean(ParseVerbatim(p))

Res(o) == [ok |-> TRUE, out |-> o]
Err == [ok |-> FALSE, out |-> <<>>]

NonEmpty(p) == SelectSeq(p, LAMBDA c : c # "")

\* channel.Full(string): the full name track/risk[/branch] ("" stays "")
Full(p) ==
    LET f == NonEmpty(p) IN
    CASE Len(f) = 0 -> Res(<<"">>)
      [] Len(f) = 1 -> IF f[1] \in Risks THEN Res(<<"latest", f[1]>>) ELSE Res(<<f[1], "stable">>)
      [] Len(f) = 2 -> IF f[1] \in Risks THEN Res(<<"latest">> \o f) ELSE Res(f)
      [] Len(f) = 3 -> Res(f)
      [] OTHER -> Err

\* Resolve(current, new): a risk(/branch)-only request keeps the current track
Resolve(cur, new) ==
    IF new = <<"">> THEN Res(cur)
    ELSE IF cur = <<"">> THEN Res(new)
    ELSE LET c == ParseVerbatim(cur) IN
         IF ~c.ok THEN Err
         ELSE IF new[1] \in Risks /\ c.track # "" THEN Res(<<c.track>> \o new)
         ELSE Res(new)

\* ResolvePinned(track, new): stay in the pinned track or refuse
ErrSwitch == [ok |-> FALSE, out |-> <<"cannot switch pinned track">>]
TrackOnly(c) == c.ok /\ c.track # "" /\ c.risk = "" /\ c.branch = ""
ResolvePinned(track, new) ==
    IF track = <<"">> THEN Res(new)
    ELSE LET c == ParseVerbatim(track) IN
         IF ~TrackOnly(c) THEN Err
         ELSE IF new = <<"">> THEN Res(track)
         ELSE IF new[1] \in Risks THEN Res(<<c.track>> \o new)
         ELSE IF new # track /\ ~(Len(new) >= 2 /\ new[1] = c.track) THEN ErrSwitch
         ELSE Res(new)

\* snapstate.resolveChannel(snap, old, new, model): pinned = the model's track for this snap, <<"">> if none
ResolveChannel(old, new, pinned) ==
    IF new = <<"">> THEN Res(old)
    ELSE IF pinned = <<"">> THEN Resolve(old, new)
    ELSE LET r == ResolvePinned(pinned, new) IN IF r.ok THEN r ELSE Err

-----------------------------------------------------------------------------
(* Bounded domain: component sequences of length 1..MaxComps over Comps, numbered 1..N by
   (length, base-K value). The driver uses the numbering only through the exported tables. *)

Comps == <<"", "latest", "stable", "edge", "t1", "2.0", "b1">>
K == Len(Comps)
MaxComps == EnvInt("VERIF_MAXCOMPS", 4)

RECURSIVE PowK(_)
PowK(n) == IF n = 0 THEN 1 ELSE K * PowK(n - 1)
Off(L) == (PowK(L) - K) \div (K - 1)            \* number of sequences of length 1..L-1
NOf(L) == Off(L + 1)                            \* number of sequences of length 1..L
N == NOf(MaxComps)
Str(i) ==
    LET L == CHOOSE l \in 1..MaxComps : Off(l) < i /\ i <= Off(l + 1)
        k == i - 1 - Off(L)
    IN  [p \in 1..L |-> Comps[((k \div PowK(L - p)) % K) + 1]]
Dom == [i \in 1..N |-> Str(i)]
N3 == IF MaxComps >= 3 THEN NOf(3) ELSE N       \* requests / current channels: up to 3 components
N2 == NOf(2)                                    \* pinned tracks: up to 2 components

-----------------------------------------------------------------------------
(* Laws of the statement on the reference; one state per x (Channel_mc.cfg) *)

VARIABLE x
Init == x \in 1..N
Next == UNCHANGED x

FullTrack(c) == IF c.track = "" THEN "latest" ELSE c.track

\* "Parsing a channel and printing it again is stable (normalizing twice equals normalizing once)"
ParsePrintStable ==
    LET c == Parse(Dom[x]) IN c.ok => /\ Parse(c.name) = c
                                      /\ Clean(c) = c
                                      /\ ParseVerbatim(c.name).ok
\* "the full form of a channel always names its track and risk"
FullNamesTrackAndRisk ==
    LET c == Parse(Dom[x]) IN c.ok =>
        LET f == Full(c.name) g == Full(Dom[x]) IN
        /\ f.ok /\ Len(f.out) \in {2, 3}
        /\ f.out[1] = FullTrack(c) /\ f.out[1] # ""
        /\ f.out[2] = c.risk /\ f.out[2] \in Risks
        /\ (Len(f.out) = 3) = (c.branch # "") /\ (c.branch # "" => f.out[3] = c.branch)
        /\ g = f                                    \* the verbatim spelling has the same full form
        /\ Full(f.out) = f /\ Parse(f.out) = c      \* the full form is itself a fixed point / same channel
\* "a risk-only request keeps the current track" (x = current channel, every risk[/branch] request).
\* NAMED DEVIATION (risk-named-track): when the current track is itself spelled like a risk
\* ("stable/stable/b1": track "stable"), track/risk[/branch] re-parses as risk/branch[/...]: the
\* two-component result "stable/edge" denotes risk stable, branch edge, and the track is lost.
\* RiskOnlyKeepsTrackAll (not in the cfg; TLC refutes it with x = "stable/stable/latest") is the law
\* as the statement words it; the driver checks it on the real outputs without the carve-out and
\* reports those inputs as violations of class risk-named-track.
KeepsTrack(i) ==
    \A j \in 1..N3 : LET n == ParseVerbatim(Dom[j]) IN (n.ok /\ n.track = "") =>
        LET r == Resolve(Dom[i], Dom[j]) IN
        /\ r.ok /\ Parse(r.out).ok
        /\ Parse(r.out).track = Parse(Dom[i]).track
        /\ Parse(r.out).risk = n.risk /\ Parse(r.out).branch = n.branch
RiskOnlyKeepsTrack == (x <= N3 /\ Parse(Dom[x]).ok /\ Parse(Dom[x]).track \notin Risks) => KeepsTrack(x)
RiskOnlyKeepsTrackAll == (x <= N3 /\ Parse(Dom[x]).ok) => KeepsTrack(x)
\* "Under a pinned track, a request is either resolved within that track or refused" (x = request)
InTrack(out, t) == out = <<t>> \/ (Len(out) >= 2 /\ out[1] = t)
PinnedStaysOrRefuses ==
    x <= N3 =>
        \A j \in 1..N2 : Dom[j] # <<"">> =>
            LET r == ResolvePinned(Dom[j], Dom[x])
                rc == ResolveChannel(<<"t1", "stable">>, Dom[x], Dom[j]) IN
            /\ r.ok => /\ Len(Dom[j]) = 1 /\ InTrack(r.out, Dom[j][1])
                       \* (same named deviation: a request whose own track is spelled like a risk is
                       \* prefixed with the pinned track and becomes a 4-component non-channel)
                       /\ (ParseVerbatim(Dom[x]).ok /\ ParseVerbatim(Dom[x]).track \notin Risks) =>
                              (ParseVerbatim(r.out).ok /\ ParseVerbatim(r.out).track = Dom[j][1])
            /\ (Dom[x] # <<"">> /\ rc.ok) => InTrack(rc.out, Dom[j][1])
\* without a pinned track or a current channel a valid request is taken as is
ResolveIdentity ==
    x <= N3 => /\ Resolve(<<"">>, Dom[x]) = Res(Dom[x])
               /\ Resolve(Dom[x], <<"">>) = Res(Dom[x])
               /\ ResolvePinned(<<"">>, Dom[x]) = Res(Dom[x])
=============================================================================
