----------------------------- MODULE MultiSnapMC -----------------------------
(* Model-checking instances of MultiSnap: constant definitions for the cfg files *)
EXTENDS MultiSnap

Two   == {"some-snap", "some-other-snap"}
Order2 == <<"some-snap", "some-other-snap">>
Three == {"some-snap", "some-other-snap", "snap-c"}
Order3 == <<"some-snap", "some-other-snap", "snap-c">>

KAll == {"install-many", "update-many", "remove-many"}
KInstUpd == {"install-many", "update-many"}
BoolFT == {FALSE, TRUE}
BoolF == {FALSE}
BoolT == {TRUE}
Sz12 == {1, 2}
Sz2 == {2}
Sz23 == {2, 3}
Sz3 == {3}
Sz123 == {1, 2, 3}
Rev1 == {1}
Rev12 == {1, 2}
Rev23 == {2, 3}
Rev123 == {1, 2, 3}
Rev3 == {3}
Rev2 == {2}
\* initial contexts
S0 == <<>>
S1 == <<1>>
S12 == <<1, 2>>
CtxEmpty2 == {[s \in Two |-> S0]}
CtxEmpty3 == {[s \in Three |-> S0]}
CtxQuick2 == {[s \in Two |-> S0], ("some-snap" :> S1) @@ ("some-other-snap" :> S12)}
CtxMore2 == {[s \in Two |-> S0], ("some-snap" :> S1) @@ ("some-other-snap" :> S12), [s \in Two |-> S12], [s \in Two |-> S1]}
CtxQuick3 == {[s \in Three |-> S0], ("some-snap" :> S1) @@ ("some-other-snap" :> S12) @@ ("snap-c" :> S1)}
RetNone == [t |-> "none", v |-> 0]
Ret2 == [t |-> "num", v |-> 2]
==============================================================================
