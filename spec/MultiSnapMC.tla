----------------------------- MODULE MultiSnapMC -----------------------------
(* Model-checking instances of MultiSnap: constant definitions for the cfg files *)
EXTENDS MultiSnap

Two   == {"some-snap", "some-other-snap"}
Order2 == <<"some-snap", "some-other-snap">>
Three == {"some-snap", "some-other-snap", "third-snap"}
Order3 == <<"some-snap", "some-other-snap", "third-snap">>

KAll == {"install-many", "update-many", "remove-many"}
KInstUpd == {"install-many", "update-many"}
BoolFT == {FALSE, TRUE}
BoolF == {FALSE}
BoolT == {TRUE}
Sz12 == {1, 2}
Sz2 == {2}
Sz23 == {2, 3}
Sz3 == {3}
Sz123 == {1, 2, 3}
Rev1 == {1}
Rev12 == {1, 2}
Rev23 == {2, 3}
Rev123 == {1, 2, 3}
RetNone == [t |-> "none", v |-> 0]
Ret2 == [t |-> "num", v |-> 2]
==============================================================================
