\* quick: additionally the k-th backend Setup call of a task fails; lenient invariants (named deviations D1-D4 excluded)
SPECIFICATION Spec
CONSTANTS
  MaxOps = 1
  SetupFaults = TRUE
  WorldNames = {"W0", "W1", "W2", "W3"}
INVARIANTS TypeOK FailureRestores FailureProfiles ActiveMatch ReloadMatch ProfilesMatch RepoSane
CHECK_DEADLOCK FALSE
