INIT TRInit
NEXT Next
CHECK_DEADLOCK FALSE
