\* deeper: 10 curated views x 2 transactions x (Begin + <=3 requests/commits each), full menus
INIT Init
NEXT Next
CONSTANTS
  t1 = t1
  t2 = t2
  Txns = {t1, t2}
  PH = {"{k}"}
  Views <- ViewsQuick
  SetMenu <- SetAll
  UnsetMenu <- UnsetAll
  GetMenu <- GetQuick
  ChkPaths <- StorPaths
  MaxOps = 3
SYMMETRY TxnSym
VIEW mcview
INVARIANTS AccessRespected ReadAfterWrite TxnOrder RejectedInv TypeOK
PROPERTIES RejectedChangesNothing Isolation
CHECK_DEADLOCK FALSE
