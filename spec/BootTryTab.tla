----------------------------- MODULE BootTryTab -----------------------------
(* T->I table export: the firmware rule table of BootTry (GrubRule) as JSON, compared by props/_boottry.py with the
   if/elif chain on $kernel_status extracted from bootloader/assets/data/grub.cfg (and the generated Go asset). *)
EXTENDS BootTry, IOUtils, Json

ASSUME JsonSerialize(IOEnv.VERIF_OUT,
         [try |-> GrubRule("try"), trying |-> GrubRule("trying"), empty |-> GrubRule(""), other |-> GrubRule("bogus")])

TabInit == Init
TabNext == UNCHANGED vars
=============================================================================
