\* C09 focus, thorough A: 2 changes x 3 tasks, depth 9
SPECIFICATION Spec
CONSTANTS
  H = 6
  TU = 100
  NoticeExpire = 3
  WarnExpire = 4
  Keys = {"k1"}
  OPS = {"Tick", "NewChange", "NewTask", "AddTask", "SetStatus", "ChangeData", "Register", "Prune"}
  ClockVals = {3, 5}
  StartVals = {0, 400}
  WaitVals = {2, 4}
  MaxVals = {0, 1, 2}
  StatusVals = {"Doing", "Done"}
  MaxChanges = 2
  MaxTasks = 3
  MaxLanes = 0
  Vals = {"true"}
  MaxDepth = 9
  MaxOcc = 4
  PruneTerminal = TRUE
  Clk0 = 1
CONSTRAINT Bound
INVARIANTS FreshIds CountersCoverIds
PROPERTIES CountersMonotone NeverRemovesUnfinished RemovedOnlyIfDue OldestFirst PruneExact
           TasksGoWithChange AbortNotBeforeAbortWait AbortWhenDue ExpiredVanish
CHECK_DEADLOCK FALSE
