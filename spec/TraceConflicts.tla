--------------------------- MODULE TraceConflicts ---------------------------
(***************************************************************************)
(* I->T binding for C14: validates an NDJSON log of request histories      *)
(* issued through the REAL entry points of overlord/snapstate (and         *)
(* overlord/ifacestate) against Conflicts.                                 *)
(*                                                                         *)
(* Strict (default): each request's outcome (accepted / conflict error)    *)
(* and the real change list afterwards (kind, readiness, union of          *)
(* SnapsAffectedByTask, snapd-downgrade flag) must be exactly what the     *)
(* spec computes.  VERIF_STRICT=0: the spec's change list is advanced with *)
(* the OBSERVED outcome and the REQUESTED snaps only; the C14 invariants   *)
(* are then evaluated on that (statement-level verdict).                   *)
(***************************************************************************)
EXTENDS Conflicts, IOUtils, Json

Trace  == ndJsonDeserialize(IOEnv.VERIF_TRACE)
Strict == ~("VERIF_STRICT" \in DOMAIN IOEnv /\ IOEnv.VERIF_STRICT = "0")

VARIABLE l
ToSet(q) == {q[i] : i \in 1..Len(q)}
Ev       == Trace[l]
IsEv(e)  == l <= Len(Trace) /\ Trace[l].ev = e /\ l' = l + 1

LChanges == [i \in 1..Len(Ev.st.changes) |->
               [kind |-> Ev.st.changes[i].kind, ready |-> Ev.st.changes[i].ready,
                snaps |-> ToSet(Ev.st.changes[i].snaps), down |-> Ev.st.changes[i].down,
                done |-> ToSet(Ev.st.changes[i].done)]]
LStatus  == [s \in AllSnaps |-> Ev.st.status[s]]
LACfg    == [new |-> ToSet(Ev.st.acfg.new), drop |-> ToSet(Ev.st.acfg.drop),
             xsrc |-> ToSet(Ev.st.acfg.xsrc), xdst |-> ToSet(Ev.st.acfg.xdst)]

\* readiness is always taken from the real change list (a change we believe live must really be unready)
ReadyAgrees(ch) == Len(ch) = Len(LChanges) /\ \A i \in 1..Len(ch) : ch[i].ready = LChanges[i].ready

TReset ==
    /\ IsEv("Reset")
    /\ changes' = <<>> /\ Len(LChanges) = 0
    /\ status' = LStatus
    /\ acfg' = LACfg /\ ACfgOK(LStatus, LACfg)
    /\ mon' = NoMon

TRequest ==
    /\ IsEv("Request")
    /\ LET op == Ev.args.op
           S  == ToSet(Ev.args.S)
           from == Ev.args.from
           mutated == ToSet(Ev.args.mutated)
           res == Ev.res.result
           specRes == IF Rejected(changes, op, S, from, mutated) THEN "conflict" ELSE "accepted"
           \* lenient successor: what the OBSERVED outcome operates on = the requested snaps plus whatever the
           \* tasks the real request created affect (real SnapsAffectedByTask), e.g. alias tasks for other snaps
           obsAfter == IF res # "accepted" THEN changes
                       ELSE IF op = "refresh-from"
                            THEN [changes EXCEPT ![from].snaps = @ \cup S \cup LChanges[from].snaps, ![from].done = @ \ S]
                       ELSE IF Len(LChanges) = Len(changes) THEN changes      \* refresh-all with nothing to do
                       ELSE LET real == LChanges[Len(LChanges)]
                            IN Append(changes, IF op = "refresh-all" THEN real
                                               ELSE [NewChange(op, S) EXCEPT !.snaps = @ \cup real.snaps])
       IN /\ res \in {"accepted", "conflict"}
          /\ NeedsOK(op, S, status)
          /\ LStatus = status
          /\ IF Strict
             THEN /\ res = specRes
                  /\ changes' = After(changes, op, S, from, mutated)
                  /\ changes' = LChanges
             ELSE /\ changes' = obsAfter
                  /\ ReadyAgrees(changes')
          /\ UNCHANGED <<status, acfg>>
          /\ mon' = [MonOf(op, S, from, mutated, res) EXCEPT !.same = (changes' = changes /\ Ev.st.same /\ Ev.st.nchg >= 0)]

TInject ==
    /\ IsEv("Inject")
    /\ changes' = Append(changes, [kind |-> Ev.args.kind, ready |-> FALSE, snaps |-> ToSet(Ev.args.T), down |-> FALSE, done |-> {}])
    /\ Strict => changes' = LChanges
    /\ ReadyAgrees(changes')
    /\ UNCHANGED <<status, acfg>>
    /\ mon' = [NoMon EXCEPT !.kind = "inject"]

TProgress ==
    /\ IsEv("Progress")
    /\ Ev.args.c \in Live(changes)
    /\ changes' = [changes EXCEPT ![Ev.args.c] = Done]
    /\ Strict => changes' = LChanges
    /\ ReadyAgrees(changes')
    /\ UNCHANGED <<status, acfg>>
    /\ mon' = [NoMon EXCEPT !.kind = "progress"]

\* all tasks of change c naming snap s were made ready (Done / Undone / Error / Hold); the change is still unready
TPartial ==
    /\ IsEv("Partial")
    /\ Ev.args.c \in Live(changes)
    /\ Ev.args.s \in changes[Ev.args.c].snaps
    /\ changes' = [changes EXCEPT ![Ev.args.c].done = @ \cup {Ev.args.s}]
    /\ Strict => changes' = LChanges
    /\ ReadyAgrees(changes')
    /\ UNCHANGED <<status, acfg>>
    /\ mon' = [NoMon EXCEPT !.kind = "partial"]

TInit == changes = <<>> /\ status = [s \in AllSnaps |-> "absent"] /\ acfg = NoA /\ mon = NoMon /\ l = 1
TNext == TReset \/ TRequest \/ TInject \/ TProgress \/ TPartial

Accepted == TLCGet("stats").diameter - 1 = Len(Trace)
=============================================================================
