CONSTANTS Mode = "lvl1"
  NCand = 4
INIT Init
NEXT Next
INVARIANT TypeOK
INVARIANT PrecedenceRespected
INVARIANT DenyOverAllow
INVARIANT DenyMonotone
PROPERTY PrecedenceStep
CHECK_DEADLOCK FALSE
