\* C27 quick: every desktop file of <= 3 line classes x instance key? x file-name variant
CONSTANTS
  MaxLen = 3
  ExcludedPairs = {}
INIT Init
NEXT Next
CHECK_DEADLOCK FALSE
INVARIANTS
  InvOnlyAllowlisted
  InvExecIsOwnWrapper
  InvIconInsideSnap
  InvTagged
