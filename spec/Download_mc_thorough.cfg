\* generated layout, edit by hand if needed. Download_mc_thorough.cfg
CONSTANTS
  Sizes = {2, 3, 4}
  MaxFile = 5
  MaxReq = 4
  AttemptLimits = {2, 3}
  RedirChoices = {FALSE}
  TruncateOnRestart = FALSE
INIT Init
NEXT Next
CHECK_DEADLOCK FALSE
INVARIANTS
  TypeOK
  FailureLeavesNoTarget
  SuccessPlacesTarget
  FailureRemovesPartial
  HashIsFilePrefix
  TargetHasContentPrefix
  TargetOnlyIfCorrect
