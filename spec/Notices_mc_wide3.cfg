\* C08 wide slice (thorough): as Notices_mc.cfg with <= 3 additions
SPECIFICATION SpecPoll
CONSTANTS
  Users <- MCUsers
  Types <- MCTypes
  Keys <- MCKeys
  RepeatAfters = {0, 2}
  Data = {"d"}
  Clients <- MCClients
  CfgChoices <- MCCfgChoices
  ClockValues = {1, 3, 5}
  MaxAdds = 3
  Bump = TRUE
  BroadcastRepeat = TRUE
  AddAtTimes = {}
  ClockRegress = FALSE
VIEW view
INVARIANTS
  TypeOK
  UniqueNotices
  ExactlyOnce
  InOrder
  NoPhantom
  Ownership
  PublicToAll
  RepeatAfterSuppression
  StrictTimes
  NoLostWakeup
PROPERTIES
  PollDrainsProp
  NoPhantomProp
  RepeatAfterProp
CHECK_DEADLOCK FALSE
