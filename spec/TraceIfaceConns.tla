---------------------------- MODULE TraceIfaceConns ----------------------------
(* I->T: the events recorded from the REAL InterfaceManager + TaskRunner (one per task status change,   *)
(* change start / settle, restart) must be a behaviour of IfaceConns: every event is matched with the   *)
(* spec action of the same name, and the projected real state logged with the event (state "conns",     *)
(* repository connections, last Setup per snap, installed snaps) must equal the state the action yields.*)
EXTENDS IfaceConns, IOUtils, Json

Trace == ndJsonDeserialize(IOEnv.VERIF_TRACE)

VARIABLE l
tvars == <<vars, l>>

ToSet(seq) == {seq[i] : i \in DOMAIN seq}
Ev == Trace[l]
IsEv(e) == l <= Len(Trace) /\ Trace[l].ev = e /\ l' = l + 1

StConns(st) == [c \in ConnIds |-> st.conns[c]]
StProfiles(st) == [s \in Snaps |-> [has |-> st.profiles[s].has, conns |-> ToSet(st.profiles[s].conns)]]
\* the state after the step equals the projection of the real state logged with the event
Matches(st) ==
    /\ st.extra = <<>>
    /\ installed' = ToSet(st.installed)
    /\ conns' = StConns(st)
    /\ repo' = ToSet(st.repo)
    /\ profiles' = StProfiles(st)
Cmp == Ev.cmp => Matches(Ev.st)

TReset ==
    /\ IsEv("Reset")
    /\ LET w == Ev.args.world
           r0 == {c \in ActiveSet(World[w].conns) : Ends(c) \subseteq World[w].installed} IN
        /\ installed' = World[w].installed /\ inrepo' = World[w].installed
        /\ conns' = World[w].conns /\ repo' = r0
        /\ profiles' = [s \in Snaps |-> IF s \in World[w].installed THEN ProfOf(r0, s) ELSE NoProf]
        /\ pre' = [conns |-> World[w].conns, repo |-> r0, installed |-> World[w].installed]
    /\ phase' = "idle" /\ tasks' = EmptyTasks /\ op' = NoOp /\ fault' = NoFault /\ fired' = FALSE
    /\ nops' = 0 /\ lastFailed' = FALSE /\ taintConns' = FALSE /\ taintProf' = FALSE /\ reloadSame' = TRUE
    /\ Matches(Ev.st)           \* StartUp of the real manager rebuilt exactly this from the persisted conns

TStart ==
    /\ IsEv("Start")
    /\ Start(Ev.args.op, Ev.args.fault)
    /\ DOMAIN tasks' = ToSet(Ev.args.tasks)      \* the real entry point built exactly these tasks

TDo ==
    /\ IsEv("Do")
    /\ (DoOK(Ev.args.t) \/ AbortDone(Ev.args.t))
    /\ (DOMAIN tasks') \ (DOMAIN tasks) = ToSet(Ev.args.inj)
    /\ Cmp

TFail ==
    /\ IsEv("Fail")
    /\ DoFail(Ev.args.t)
    /\ Cmp

TUndo ==
    /\ IsEv("Undo")
    /\ UndoTask(Ev.args.t)
    /\ Cmp

TSettle ==
    /\ IsEv("Settle")
    /\ Settle
    /\ lastFailed' = (Ev.args.status = "Error")
    /\ Ev.args.status \in {"Done", "Error"}
    /\ Matches(Ev.st)

TRestart ==
    /\ IsEv("Restart")
    /\ Restart
    /\ installed' = ToSet(Ev.st.installed) /\ conns' = StConns(Ev.st) /\ repo' = ToSet(Ev.st.repo)

TraceInit == l = 1 /\ InitWorld("W0") /\ InitRest
TraceNext == TReset \/ TStart \/ TDo \/ TFail \/ TUndo \/ TSettle \/ TRestart
TraceSpec == TraceInit /\ [][TraceNext]_tvars

Accepted == TLCGet("stats").diameter - 1 = Len(Trace)
=================================================================================
