---------------------------- MODULE TraceDebVersion ----------------------------
(* C33 I->T: observations of the real strutil.VersionCompare on seeded random pairs beyond the
   exhaustive bound (one JSON object per line: case, a, b = ASCII code sequences, res in
   {-1,0,1,2=error}) must equal the reference DebVersion!Ref.
   The per-case verdicts are written to IOEnv.VERIF_OUT first (so that a rejected case can be
   named), then TLC ASSUMEs that every observation equals the reference. *)
EXTENDS DebVersion

\* (TLC re-evaluates function bodies and LET definitions that depend on an operator parameter on
\* every use: every row is built exactly once, and the verdict is read back from the file.)
Check(obs) ==
    LET rows == [i \in 1..Len(obs) |->
                   [case |-> obs[i].case, exp |-> Ref(obs[i].a, obs[i].b), got |-> obs[i].res,
                    va |-> SnapValid(obs[i].a), vb |-> SnapValid(obs[i].b)]]
    IN  JsonSerialize(IOEnv.VERIF_OUT,
                      [checked |-> Len(obs), bad |-> SelectSeq(rows, LAMBDA r : r.exp # r.got)])

TRInit == x = 1
ASSUME Check(ndJsonDeserialize(IOEnv.VERIF_TRACE))
\* every observation equals the reference:  \A i : obs[i].res = Ref(obs[i].a, obs[i].b)
ASSUME JsonDeserialize(IOEnv.VERIF_OUT).bad = <<>>
=============================================================================
