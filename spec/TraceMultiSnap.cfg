SPECIFICATION TSpec
CONSTANTS
    Snaps <- TrSnaps
    SnapOrder <- TrOrder
    MaxRev = 5
    MaxOps = 1000000
    MaxTasks = 80
    MaxFaults = 3
    KindOpts <- TrNone
    TxnOpts <- TrNone
    SelSizes <- TrNone
    InstallRevs <- TrNone
    RefreshRevs <- TrNone
    RetainInit <- TrRet
    InitCtx <- TrNone
    OpFaults = TRUE
    Compact = FALSE
    Reduce = FALSE
INVARIANTS
    TypeOK
    FailedSnapRestored
    HealthySnapsComplete
    AllRevertedIfTransactional
    ConsistentAll
    ChangeErrorIffFailed
    LaneDiscipline
    EngineSane
POSTCONDITION Accepted
CHECK_DEADLOCK FALSE
