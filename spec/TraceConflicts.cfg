CONSTANTS
  Snaps <- MCSnaps3
  MaxChanges = 100
  ACfgs <- MCNoACfgs
  WithPartial = TRUE
INIT TInit
NEXT TNext
CHECK_DEADLOCK FALSE
INVARIANTS RejectIfBusy NoStartDuringExclusive StaleRejected RejectCreatesNothing NoOverlap ExclusiveLast
POSTCONDITION Accepted
