\* C38 quick: geometry (offset x size x min-size x role x partial size), <= 3 structures, rejected volumes not
\* extended; scaled units (MinStart=2 ~ 1 MiB, MbrMax=1 ~ 446 B)
CONSTANTS
  MinStart = 2
  MbrMax = 1
  PtrSize = 1
  MaxStructs = 3
  OffVals <- OffMid
  SizeVals = {0, 1, 2}
  MinVals = {0, 1}
  RoleVals = {"none", "mbr"}
  OwVals <- OwNone
  ContentVals <- ContentNone
  PartialVals = {FALSE, TRUE}
  Prune = TRUE
INIT Init
NEXT Next
CHECK_DEADLOCK FALSE
INVARIANTS
  InvNonNegative
  InvIncreasing
  InvDisjoint
  InvContentInside
  InvOrderIsPermutation
