----------------------------- MODULE TimerTokens -----------------------------
(* C16, "invalid timers are rejected": enumerate every token string up to      *)
(* length MaxLen over a fixed alphabet, decide each with the recogniser of the *)
(* documented grammar (TimerWindows!ValidTimer) and export the valid ones; the *)
(* Go driver runs the real ParseSchedule on the same strings (T->I table).     *)
EXTENDS TimerWindows, IOUtils, Json

VARIABLE x

T(str, tok) == [str |-> str, tok |-> tok]

\* alphabet "A": 12 tokens (DESIGN section 6)
AlphabetA == <<
    T("mon",   TkWD(0)),
    T("mon1",  TkWD(1)),
    T("fri4",  TkWD(4)),
    T("mon6",  TkWD(6)),       \* week number outside 1..5
    T("-",     TkDash),
    T("~",     TkTilde),
    T(",",     TkComma),
    T("09:00", TkTime(TRUE)),
    T("24:00", TkTime(TRUE)),
    T("24:01", TkTime(FALSE)),  \* nothing after 24:00
    T("/2",    TkCount(TRUE)),
    T("/0",    TkCount(FALSE))  \* count 0
>>

\* alphabet "B": 17 tokens, used with shorter strings
AlphabetB == AlphabetA \o <<
    T("sun5",  TkWD(5)),
    T("fri0",  TkWD(9)),        \* week number 0
    T("25:00", TkTime(FALSE)),  \* hours > 24
    T("23:59", TkTime(TRUE)),
    T("/10",   TkCount(TRUE))
>>

Alphabet == IF IOEnv.VERIF_ALPHA = "B" THEN AlphabetB ELSE AlphabetA
MaxLen   == atoi(IOEnv.VERIF_MAXLEN)
N        == Len(Alphabet)

Strings == UNION {[1..n -> 1..N] : n \in 1..MaxLen}
Toks(s) == [i \in 1..Len(s) |-> Alphabet[s[i]].tok]

Valid == {s \in Strings : ValidTimer(Toks(s))}

ASSUME JsonSerialize(IOEnv.VERIF_OUT,
         [alphabet |-> [i \in 1..N |-> Alphabet[i].str], maxlen |-> MaxLen,
          total |-> Cardinality(Strings), valid |-> Valid])

Init == x = 0
Next == UNCHANGED x
=============================================================================
