\* refresh-app-awareness-ux: remove-aliases is skipped on refresh, setup-aliases prunes the old aliases; 2 requests
CONSTANTS
  Snaps <- MCSnaps
  Names <- MCNames2
  Apps <- MCApps
  AutoApps <- MCAuto1
  OpKinds <- MCKindsRaaux
  InstallFlags <- MCFlagsPlain
  FaultModes <- MCFaultsAtomic
  InitInst <- MCBoth
  RAAUX = TRUE
  LateRemoveFaults = FALSE
  MaxOps = 2
INIT Init
NEXT Next
CHECK_DEADLOCK FALSE
INVARIANTS TypeOK SysMatchesState NoPendingWhenSettled NoDoubleAlias NoNamespaceClash RefreshKeepsManualFollowsDecl FailedChangeRestores
