--------------------------- MODULE TraceRegistryView ---------------------------
(* Binding for C30: every line written by harness/ext/registryview (real registry.New view,
   View.Get/Set/Unset over a real registry.Transaction wrapped in a recording DataBag,
   Transaction.Commit against the real ParseSchema storage schema) must be a step of RegistryView
   with the same result class, the same touched storage paths and the same observable state:
   the stored databag (decoded from the bytes the real writer received) and, for every open
   transaction, what Transaction.Get returns for each top-level storage key. *)
EXTENDS RegistryView, IOUtils, Json

Trace == ndJsonDeserialize(IOEnv.VERIF_TRACE)
VARIABLE l

TSKeys == {"n", "s", "m", "o", "w", "v"}
TSSub == {"x", "y", "p", "q", "e"}
TracePaths == {<<a>> : a \in TSKeys} \cup {<<a, b>> : a \in TSKeys, b \in TSSub}

RECURSIVE FromJ(_)
FromJ(j) == IF j.t = "l" THEN Lf(j.v)
            ELSE LET n == Len(j.m) IN
                 Mp([k \in {j.m[i].k : i \in 1..n} |-> FromJ(j.m[CHOOSE i \in 1..n : j.m[i].k = k].v)])
FromR(r) == IF r.k = "val" THEN Val(FromJ(r.v)) ELSE [k |-> r.k]

RECURSIVE DefFromJ(_)
DefsFromJ(js) == [i \in 1..Len(js) |-> DefFromJ(js[i])]
DefFromJ(j) == [req |-> j.req, stor |-> j.stor, acc |-> j.acc,
                content |-> IF j.content = <<>> THEN <<>> ELSE DefsFromJ(j.content)]

LTouched(e) == {<<e.touched[i].op, e.touched[i].path>> : i \in 1..Len(e.touched)}
LTxBag(st) == [t \in Txns |-> [k \in TSKeys |->
    IF \E i \in 1..Len(st.txbag) : st.txbag[i].t = t /\ st.txbag[i].key = k
    THEN FromR(st.txbag[CHOOSE i \in 1..Len(st.txbag) : st.txbag[i].t = t /\ st.txbag[i].key = k].r)
    ELSE Absent]]
SpecTxBagNext == [t \in Txns |-> [k \in TSKeys |->
    IF open'[t] THEN Exact(ApplyDeltas(pristine'[t], deltas'[t]), <<k>>) ELSE Absent]]

Match == LET e == Trace[l] IN
         /\ stored' = FromJ(e.st.stored)
         /\ e.notx \/ SpecTxBagNext = LTxBag(e.st)     \* notx: the transaction is internal to SetViaView/GetViaView
         /\ \A i \in 1..Len(e.st.txbag) : e.st.txbag[i].t \in Txns /\ e.st.txbag[i].key \in TSKeys
         \* the bytes handed to the real writer changed iff the spec's stored databag changed
         /\ e.bytes_same = (stored' = stored)

\* result class and touched paths of the request just made.  A request that fails may stop before it
\* has made all its databag calls: then the observed calls are a subset of the spec's.
MatchReq == LET e == Trace[l] IN
            /\ last'.res = FromR(e.res)
            /\ \/ e.notouch                                  \* state level: the databag calls are not observable
               \/ IF last'.res.k \in {"error"} THEN LTouched(e) \subseteq last'.touched
                  ELSE LTouched(e) = last'.touched

IsEv(e) == l <= Len(Trace) /\ Trace[l].ev = e /\ l' = l + 1

TReset == /\ IsEv("Reset")
          /\ Trace[l].res.k = "ok"             \* registry.New accepted the view
          /\ viewdef' = DefsFromJ(Trace[l].view)
          /\ view' = Flatten(viewdef')
          /\ stored' = EmptyMap
          /\ open' = [t \in Txns |-> FALSE]
          /\ pristine' = [t \in Txns |-> EmptyMap]
          /\ deltas' = [t \in Txns |-> <<>>]
          /\ wpaths' = [t \in Txns |-> {}]
          /\ nops' = [t \in Txns |-> 0]
          /\ mon' = AllOk
          /\ last' = [op |-> "init"]
          /\ stored' = FromJ(Trace[l].st.stored)
TBegin == IsEv("Begin") /\ Begin(Trace[l].t) /\ Match
TSet == IsEv("Set") /\ Set(Trace[l].t, Trace[l].req, FromJ(Trace[l].val)) /\ MatchReq /\ Match
TUnset == IsEv("Unset") /\ Unset(Trace[l].t, Trace[l].req) /\ MatchReq /\ Match
TGet == IsEv("Get") /\ Get(Trace[l].t, Trace[l].req) /\ MatchReq /\ Match
TCommit == IsEv("Commit") /\ Commit(Trace[l].t) /\ last'.res = FromR(Trace[l].res) /\ Match

\* state level only: SetViaView / GetViaView drop their transaction when they return
TEnd == /\ IsEv("End")
        /\ open[Trace[l].t]
        /\ open' = [open EXCEPT ![Trace[l].t] = FALSE]
        /\ deltas' = [deltas EXCEPT ![Trace[l].t] = <<>>]
        /\ wpaths' = [wpaths EXCEPT ![Trace[l].t] = {}]
        /\ mon' = AllOk
        /\ last' = [op |-> "end", t |-> Trace[l].t]
        /\ UNCHANGED <<view, viewdef, stored, pristine, nops>>
        /\ Match
\* state level only: a request on ANOTHER registry of the same account: nothing of this registry may move
\* (the logged stored databag of this registry must still be the spec's).
TOther == /\ IsEv("Other")
          /\ last' = [op |-> "other"]
          /\ \A t \in Txns : ~open[t]
          /\ UNCHANGED <<view, viewdef, stored, open, pristine, deltas, wpaths, nops, mon>>
          /\ Match

TInit == /\ l = 1
         /\ viewdef = <<>> /\ view = <<>>       \* the first line is a Reset that installs the view
         /\ stored = EmptyMap
         /\ open = [t \in Txns |-> FALSE]
         /\ pristine = [t \in Txns |-> EmptyMap]
         /\ deltas = [t \in Txns |-> <<>>]
         /\ wpaths = [t \in Txns |-> {}]
         /\ nops = [t \in Txns |-> 0]
         /\ mon = AllOk
         /\ last = [op |-> "init"]
TNext == TReset \/ TBegin \/ TSet \/ TUnset \/ TGet \/ TCommit \/ TEnd \/ TOther

IsReset == l <= Len(Trace) /\ Trace[l].ev = "Reset"
TraceRejected == [][IsReset \/ RejectedStep]_<<vars, l>>
TraceIsolation == [][IsReset \/ (l <= Len(Trace) /\ Trace[l].ev = "End") \/ IsolationStep]_<<vars, l>>

Accepted == TLCGet("stats").diameter - 1 = Len(Trace)
=============================================================================
