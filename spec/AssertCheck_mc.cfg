SPECIFICATION Spec
CONSTANTS
  Since = 10
  Until = 20
  Times = {5, 10, 15, 20, 25}
INVARIANTS AcceptSound MutationRejected ExpiredRejected ReencodeNeutral
CHECK_DEADLOCK FALSE
