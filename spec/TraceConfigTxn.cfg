INIT TInit
NEXT TNext
CONSTANTS
  Txns = {1, 2, 3}
  Snaps = {"core", "app"}
  Revs = {1, 2}
  SetMenu = {}
  GetPaths = {}
  ChkPaths <- TracePaths
  MaxOps = 100000000
  MaxRevOps = 100000000
INVARIANTS ReadYourWrites ReadYourWritesPaths NoLostUpdate SnapshotExact NoNullsCommitted TypeOK
PROPERTY TraceIsolation
POSTCONDITION Accepted
CHECK_DEADLOCK FALSE
