\* UC20grub: kernel revisions {1, 2}, base revisions {1}; every interleaving of SetNext/Undo/Mark/Remove/Reboot/BootFail,
\* PowerLoss at every pc of every action and every pipeline stage (state space is finite: no event bound needed)
CONSTANTS
  Variant = "UC20grub"
  KRevs = {1, 2}
  BRevs = {1}
  MaxCK = 3
  MaxFaults = 0
  ExcuseKnown = FALSE
INIT Init
NEXT Next
INVARIANTS TypeOK OnlyGoodOrTried FallbackWorks GoodOnlyAfterMark NeverStuck InUseProtects
CHECK_DEADLOCK FALSE
