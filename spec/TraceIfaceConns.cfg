INIT TraceInit
NEXT TraceNext
CONSTANTS
  MaxOps = 1000000
  SetupFaults = TRUE
  WorldNames = {"W0", "W1", "W2", "W3"}
INVARIANTS TypeOK FailureRestores FailureProfiles ActiveMatch ReloadMatch ProfilesMatch RepoSane
POSTCONDITION Accepted
CHECK_DEADLOCK FALSE
