\* quick generator alphabet
INIT Init
NEXT Next
CONSTANTS
  Scalars <- ScalarsQ
  SmallScalars <- SmallQ
  Bodies <- BodiesDef
  Revisions <- RevisionsDef
CHECK_DEADLOCK FALSE
