\* C37 laws on the reference: one state per pattern of the domain file IOEnv.VERIF_DOMAIN.
INIT Init
NEXT Next
CHECK_DEADLOCK FALSE
INVARIANT CountIsLen
INVARIANT OptimizeNeutral
INVARIANT ExpansionsPlain
INVARIANT RenderedValid
INVARIANT SlashRules
INVARIANT EscapeIsLiteral
INVARIANT EscapedStarLiteral
