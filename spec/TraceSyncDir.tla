----------------------------- MODULE TraceSyncDir -----------------------------
(***************************************************************************)
(* C23 binding.  IOEnv.VERIF_TRACE: one JSON object per case executed on   *)
(* the real osutil.EnsureDirState[Globs]:                                  *)
(*   {"case":id, "init":{name:tok}, "des":{name:tok|"absent"},             *)
(*    "outs":[{"dir":{name:tok},"changed":[..],"removed":[..],"err":bool}]}*)
(* (outs = the distinct real outcomes seen over several runs).  For every  *)
(* case TLC computes the set of admissible outcomes of the spec            *)
(* (Outcomes = every order of the two Go map iterations) and writes to     *)
(* IOEnv.VERIF_OUT, per real outcome, membership in that set and the       *)
(* verdict of the statement predicate PostOK evaluated on the REAL outcome.*)
(***************************************************************************)
EXTENDS SyncDir, IOUtils, Json

ToSet(q) == {q[i] : i \in DOMAIN q}
DesOf(r) == [n \in {x \in Names : r[x] # "absent"} |-> r[n]]
DirOf(r) == [n \in Names |-> r[n]]
OutOf(o) == [dir |-> DirOf(o.dir), changed |-> ToSet(o.changed), removed |-> ToSet(o.removed), err |-> o.err]

InDomain(init, des) ==
    /\ \A n \in Managed : init[n] \in EntryTok
    /\ \A u \in Unmanaged : init[u] \in UnmanagedTok
    /\ DOMAIN des \subseteq Managed \cup DesExtra
    /\ \A n \in DOMAIN des : des[n] \in DesTok
    /\ Cardinality({n \in DOMAIN des : des[n] \in BadTok}) <= MaxBad

Verdict(o) ==
    LET init == DirOf(o.init)
        des  == DesOf(o.des)
        adm  == Outcomes(init, des)
    IN [case   |-> o.case,
        indom  |-> InDomain(init, des),
        nadm   |-> Cardinality(adm),
        wfail  |-> WriteFails(init, des),
        \* "partial" cases (observed through a caller that does not return the lists, e.g. a security
        \* backend's Setup): only the directory and the error are compared
        member |-> [k \in DOMAIN o.outs |->
                      IF "partial" \in DOMAIN o
                      THEN \E a \in adm : a.dir = DirOf(o.outs[k].dir) /\ a.err = o.outs[k].err
                      ELSE OutOf(o.outs[k]) \in adm],
        post   |-> [k \in DOMAIN o.outs |->
                      IF "partial" \in DOMAIN o
                      THEN PostDirOK(init, des, [dir |-> DirOf(o.outs[k].dir), err |-> o.outs[k].err])
                      ELSE PostOK(init, des, OutOf(o.outs[k]))]]

Table(obs) == [i \in DOMAIN obs |-> Verdict(obs[i])]
\* evaluated exactly once, while TLC computes the single initial state (an ASSUME is evaluated twice)
TInit == s = "table" /\ JsonSerialize(IOEnv.VERIF_OUT, Table(ndJsonDeserialize(IOEnv.VERIF_TRACE)))
TNext == UNCHANGED s
=============================================================================
