-------------------------- MODULE TraceAssertDB --------------------------
(* C19, I->T: a recorded history of operations on a REAL database (results of the memory-backstore
   database; the filesystem one is required to be identical by the props file) must be a behaviour of
   AssertDB: every event is the spec action with the logged arguments, and the result the spec computes
   (`last'.res`) must equal the logged one.  Histories are generated outside TLC's bounds (more keys,
   revisions, sequence numbers than the exhaustive configs). *)
EXTENDS AssertDB, Sequences, Json, IOUtils

Trace == ndJsonDeserialize(IOEnv.VERIF_TRACE)

VARIABLE l
tvars == <<db, maxAdded, last, l>>

IsEv(e) == l <= Len(Trace) /\ Trace[l].ev = e /\ l' = l + 1
Ev == Trace[l]

Id(j) == [t |-> j.t, k |-> j.k, n |-> j.n]
ManyOf(r) == {[id |-> Id(r.many[i].id), rev |-> r.many[i].rev, fmt |-> r.many[i].fmt] : i \in DOMAIN r.many}

(* logged result = computed result, on the fields observable for the result class *)
SameRes(got, exp) ==
    /\ got.r = exp.r
    /\ got.r = "revision" => (got.rev = exp.rev /\ got.cur = exp.cur)
    /\ got.r = "unsupported" => (got.fmt = exp.fmt /\ got.upd = exp.upd)
    /\ (got.r = "found" /\ Ev.ev # "FindMany") => (got.rev = exp.rev /\ got.fmt = exp.fmt /\ got.n = exp.n)
    /\ (got.r = "found" /\ Ev.ev = "FindMany") => ManyOf(got) = exp.many

TReset == IsEv("Reset") /\ db' = [id \in StorableIds |-> [f \in SlotFmts(id) |-> None]]
                        /\ maxAdded' = [id \in StorableIds |-> None] /\ last' = [op |-> "Init"]
TAdd == IsEv("Add") /\ Add(Id(Ev.id), Ev.rev, Ev.fmt) /\ SameRes(Ev.res, last'.res)
TFind == IsEv("Find") /\ Find(Id(Ev.id)) /\ SameRes(Ev.res, last'.res)
TFindMaxFormat == IsEv("FindMaxFormat") /\ FindMaxFormat(Id(Ev.id), Ev.mf) /\ SameRes(Ev.res, last'.res)
TFindPredefined == IsEv("FindPredefined") /\ FindPredefined(Id(Ev.id)) /\ SameRes(Ev.res, last'.res)
TFindTrusted == IsEv("FindTrusted") /\ FindTrusted(Id(Ev.id)) /\ SameRes(Ev.res, last'.res)
TFindMany == IsEv("FindMany") /\ FindMany(Ev.typ, Ev.key, Ev.par) /\ SameRes(Ev.res, last'.res)
TFindSequence == IsEv("FindSequence") /\ FindSequence(Ev.key, Ev.after, Ev.mf) /\ SameRes(Ev.res, last'.res)

TInit == Init /\ l = 1
TNext == TReset \/ TAdd \/ TFind \/ TFindMaxFormat \/ TFindPredefined \/ TFindTrusted \/ TFindMany \/ TFindSequence
TSpec == TInit /\ [][TNext]_tvars

(* the C19 action properties on the recorded steps (Reset starts a fresh database) *)
TRevisionsOnlyGrow == [][Trace[l].ev # "Reset" =>
                            \A id \in StorableIds : CurRev(db', id, MaxSupp(id)) >= CurRev(db, id, MaxSupp(id))]_tvars
TRefusedChangeNothing == [][(Trace[l].ev # "Reset" /\ (last'.op # "Add" \/ last'.res.r # "ok")) => db' = db]_tvars

Accepted == TLCGet("stats").diameter - 1 = Len(Trace)
=============================================================================
