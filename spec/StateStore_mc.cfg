\* quick exhaustive (C05 focus): ids, lanes, reload, prune with one parameter set; 2 changes x 2 tasks
SPECIFICATION Spec
CONSTANTS
  H = 6
  TU = 100
  NoticeExpire = 3
  WarnExpire = 4
  Keys = {"k1"}
  OPS = {"Tick", "NewChange", "NewTask", "AddTask", "SetStatus", "Prune", "SaveReload", "Lane"}
  ClockVals = {2, 4}
  StartVals = {0}
  WaitVals = {2}
  MaxVals = {1}
  StatusVals = {"Do", "Done"}
  MaxChanges = 2
  MaxTasks = 2
  MaxLanes = 1
  Vals = {"", "true"}
  MaxDepth = 7
  MaxOcc = 3
  PruneTerminal = FALSE
  Clk0 = 1
CONSTRAINT Bound
INVARIANTS FreshIds CountersCoverIds
PROPERTIES CountersMonotone ReloadIdentity NeverRemovesUnfinished RemovedOnlyIfDue OldestFirst PruneExact
           TasksGoWithChange AbortNotBeforeAbortWait AbortWhenDue ExpiredVanish
CHECK_DEADLOCK FALSE
