CONSTANTS
  MaxMembers = 2
  Faults = TRUE
  Keys <- QKeys
  Befores <- QBefores
  Afters <- QAfters
  Types <- QTypes
  Bodies <- QBodies
  REntries <- QREntries
  PreClasses <- QPreClasses
  Corruptions <- QCorruptions
INIT Init
NEXT Next
CHECK_DEADLOCK FALSE
INVARIANTS
  Confined
  OtherSetsUntouched
  FailedImportCleansZips
  FailedRestoreIsIdentity
  CorruptNeverRestores
  SuccessReproducesSaved
  CleanupRemovesAsides
  RevertAfterSuccessIsIdentity
  RTypeOK
