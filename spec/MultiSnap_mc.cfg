\* quick: 2 snaps, compact chains, one multi-snap change from two contexts (empty system; kept [1] and [1,2] with
\* retain 2, so that the refresh of the second snap garbage-collects), both lane flavours, entry + backend faults
SPECIFICATION Spec
CONSTANTS
    Snaps <- Two
    SnapOrder <- Order2
    MaxRev = 3
    MaxOps = 1
    MaxTasks = 30
    MaxFaults = 1
    KindOpts <- KAll
    TxnOpts <- BoolFT
    SelSizes <- Sz2
    InstallRevs <- Rev1
    RefreshRevs <- Rev3
    RetainInit <- Ret2
    InitCtx <- CtxQuick2
    OpFaults = TRUE
    Compact = TRUE
    Reduce = TRUE
INVARIANTS
    TypeOK
    FailedSnapRestored
    HealthySnapsComplete
    AllRevertedIfTransactional
    ConsistentAll
    ChangeErrorIffFailed
    LaneDiscipline
    EngineSane
CONSTRAINT StateConstraint
CHECK_DEADLOCK FALSE
