SPECIFICATION Spec
CONSTANTS
    Snaps <- Two
    SnapOrder <- Order2
    MaxRev = 3
    MaxOps = 3
    MaxTasks = 45
    MaxFaults = 1
    KindOpts <- KAll
    TxnOpts <- BoolFT
    SelSizes <- Sz2
    InstallRevs <- Rev1
    RefreshRevs <- Rev23
    RetainInit <- Ret2
    OpFaults = TRUE
INVARIANTS
    TypeOK
    FailedSnapRestored
    HealthySnapsComplete
    AllRevertedIfTransactional
    ConsistentAll
    ChangeErrorIffFailed
    LaneDiscipline
    EngineSane
CONSTRAINT StateConstraint
CHECK_DEADLOCK FALSE
