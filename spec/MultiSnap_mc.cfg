\* quick: 2 snaps, compact chains, one multi-snap change from two contexts (empty system; kept [1] and [1,2] with
\* retain 2, so that the refresh of the second snap garbage-collects), both lane flavours, entry + backend faults
\* MaxTasks: keep it >= 34 (or tiny).  TaskEngine defines Perms == Permutations(1..N) and TLC evaluates constant
\* definitions eagerly at start-up: for N = 30 the size (30! mod 2^32 = 1.4e9) fits a heap of 8 GB and TLC spends 10-25
\* minutes filling it before "Computing initial states"; from N = 34 on N! mod 2^32 = 0 and the definition is skipped.
SPECIFICATION Spec
CONSTANTS
    Snaps <- Two
    SnapOrder <- Order2
    MaxRev = 3
    MaxOps = 1
    MaxTasks = 36
    MaxFaults = 1
    KindOpts <- KAll
    TxnOpts <- BoolFT
    SelSizes <- Sz2
    InstallRevs <- Rev1
    RefreshRevs <- Rev3
    RetainInit <- Ret2
    InitCtx <- CtxQuick2
    OpFaults = TRUE
    Compact = TRUE
    Reduce = TRUE
INVARIANTS
    TypeOK
    FailedSnapRestored
    HealthySnapsComplete
    AllRevertedIfTransactional
    ConsistentAll
    ChangeErrorIffFailed
    LaneDiscipline
    EngineSane
CONSTRAINT StateConstraint
CHECK_DEADLOCK FALSE
